/* Harness for C03 part 2: composition of the REAL bodies (nothing replaced, loop-free): find_symmetry_operation_from_basic_bin
   (find_sym_op_bin0 / find_sym_op_general_bin, find_basic_bin, find_basic_view_segment_numbers; cylindrical branch) and the
   transform_bin_coordinates of the operation class it returns. */
#include "contracts/c03b.h"
#include "canary.h"
#define CONTRACT_K_find_basic_vs
#define CONTRACT_K_find_sym_op_bin0
#define CONTRACT_K_find_sym_op_general_bin
#define CONTRACT_K_find_basic_bin
#define CONTRACT_K_find_symmetry_operation_from_basic_bin_real
#include "K_find_basic_vs.c"
#include "K_find_sym_op_bin0.c"
#include "K_find_sym_op_general_bin.c"
#include "K_find_basic_bin.c"
#include "K_find_symmetry_operation_from_basic_bin_real.c"
#include "c03_dispatch.c"

/* From the property ("each row is the same whether it is computed directly or derived from a symmetry-related row"):
   for every bin b of the data, with (op, basic) = find_symmetry_operation_from_basic_bin(b):
     op.transform_bin_coordinates(basic) == b   in all five coordinates (incl. the TOF index),
     basic is a fixed point of find_basic_bin, and its view lies inside the data. */
void h_lemma_symmetry(void)
{
  struct SYM s;
  s.do_symmetry_90degrees_min_phi = nondet_bool(); s.do_symmetry_180degrees_min_phi = nondet_bool(); s.do_symmetry_swap_segment = nondet_bool();
  s.do_symmetry_swap_s = nondet_bool(); s.do_symmetry_shift_z = nondet_bool(); s.num_views = nondet_int();
  __CPROVER_assume(SYM_VALID(&s));
  struct Bin b;
  b.segment_num = nondet_int(); b.view_num = nondet_int(); b.axial_pos_num = nondet_int(); b.tangential_pos_num = nondet_int(); b.timing_pos_num = nondet_int();
  __CPROVER_assume(BIN_IN_DOMAIN(&s, &b) && TOF_OK(&s, &b));
  const struct Bin b0 = b;
  const struct OP op = K_find_symmetry_operation_from_basic_bin_real(&s, &b); /* b is now the basic bin */
  const struct Bin basic = b;
  __CPROVER_assert(basic.view_num >= 0 && basic.view_num < s.num_views, "the basic bin's view lies inside the data");
  struct Bin t = basic;
  K_op_transform_bin(&op, &t);
  __CPROVER_assert(t.segment_num == b0.segment_num && t.view_num == b0.view_num, "operation applied to the basic bin gives back the bin: segment and view");
  __CPROVER_assert(t.axial_pos_num == b0.axial_pos_num && t.tangential_pos_num == b0.tangential_pos_num, "... axial and tangential position");
  __CPROVER_assert(t.timing_pos_num == b0.timing_pos_num, "... TOF index");
  struct Bin again = basic;
  const _Bool changed = K_find_basic_bin(&s, &again.segment_num, &again.view_num, &again.axial_pos_num, &again.tangential_pos_num, &again.timing_pos_num);
  __CPROVER_assert(!changed && BIN_EQ(again, basic), "the basic bin is a fixed point of find_basic_bin");
  __CPROVER_assert(BIN_EQ(b0, basic) ? op.kind == OP_trivial || (op.kind == OP_z_shift && op.axial_pos_shift == 0) : 1,
                   "a bin that is its own basic bin gets an operation that leaves bins unchanged");
#ifdef LEMMA_CANARY
  __CPROVER_assert(0, "vacuity canary");
#endif
}
