/* Harnesses for C11. Each h_<kernel> builds fully symbolic valid state(s) BY ASSIGNMENT (CBMC cannot dereference a
   pointer that is only constrained by an assumption, DESIGN.md probe P12) and calls the kernel, whose contract is
   enforced by goto-instrument --dfcc --enforce-contract <kernel>. */
#include "contracts/c11.h"
#include "canary.h"

#include "K_vwo_get_min_index.c"
#include "K_vwo_get_max_index.c"
#include "K_vwo_get_length.c"
#include "K_vwo_size.c"
#include "K_vwo_empty.c"
#include "K_vwo_capacity.c"
#include "K_vwo_get_capacity_min_index.c"
#include "K_vwo_get_capacity_max_index.c"
#include "K_vwo_begin.c"
#include "K_vwo_end.c"
#include "K_vwo_index.c"
#include "K_vwo_at.c"
#include "K_vwo_set_offset.c"
#include "K_vwo_fill.c"
#include "K_vwo_equals.c"
#include "K_vwo_plus_assign.c"
#include "K_vwo_minus_assign.c"
#include "K_vwo_mult_assign.c"
#include "K_vwo_div_assign.c"

#include "K_vwo_init0.c"
#include "K_vwo__destruct_and_deallocate.c"
#include "K_vwo_recycle.c"
#include "K_vwo_reserve.c"
#include "K_vwo_resize.c"
#include "K_vwo_grow.c"
#include "K_vwo_assign.c"
#include "K_arr1_resize.c"

/* every state satisfying VWO_VALID: null vector, or a block of 1..VWO_MAXLEN elements with the live range anywhere
   inside it, owned or viewed */
static void mk_vwo(struct VWO* v)
{
  v->pointer_access = 0;
  if (nondet_bool())
    {
      v->num = NULL; v->length = 0; v->start = 0; v->begin_allocated_memory = NULL; v->end_allocated_memory = NULL;
      v->allocated_memory_sptr = NULL;
      return;
    }
  unsigned cap = nondet_unsigned();
  __CPROVER_assume(cap >= 1 && cap <= VWO_MAXLEN);
  T* buf = (T*)malloc((size_t)cap * sizeof(T));
  unsigned len = nondet_unsigned();
  __CPROVER_assume(len <= cap);
  unsigned off = nondet_unsigned();
  __CPROVER_assume(off <= cap - len);
  int start = nondet_int();
  __CPROVER_assume(start > -VWO_MAXIDX && start < VWO_MAXIDX && (long)start + (long)len <= VWO_MAXIDX);
  if (len == 0) { start = 0; off = 0; }
  v->begin_allocated_memory = buf;
  v->end_allocated_memory = buf + cap;
  v->length = len;
  v->start = start;
  v->num = buf + ((long)off - (long)start);
  v->allocated_memory_sptr = nondet_bool() ? buf : NULL;
}
/* ghosts describing the pre-state of `v` and an arbitrary element of it */
static void set_ghosts(const struct VWO* v)
{
  g_error = 0; g_i = nondet_int(); g_j = nondet_int();
  if (v->begin_allocated_memory == NULL) { g_cap0 = 0; g_off0 = 0; }
  else { g_cap0 = VWO_CAP(v); g_off0 = VWO_OFF(v); }
  g_p_ = NULL;
  if (v->length > 0)
    {
      __CPROVER_assume(VWO_IN_RANGE(v, g_i));
      g_p_ = &VWO_ELEM(v, g_i);
    }
}
#define HB2(k) void h_##k(void) { struct VWO a; mk_vwo(&a); set_ghosts(&a); int lo = nondet_int(), hi = nondet_int(); k(&a, lo, hi); }
HB2(K_vwo_reserve)
HB2(K_vwo_resize)
HB2(K_vwo_grow)
HB2(K_arr1_resize)
void h_K_vwo_init0(void) { struct VWO a; K_vwo_init0(&a); }
void h_K_vwo__destruct_and_deallocate(void) { struct VWO a; mk_vwo(&a); K_vwo__destruct_and_deallocate(&a); }
void h_K_vwo_recycle(void) { struct VWO a; mk_vwo(&a); K_vwo_recycle(&a); }
void h_K_vwo_assign(void) { struct VWO a, b; mk_vwo(&a); mk_vwo(&b); set_ghosts(&b); if (nondet_bool()) K_vwo_assign(&a, &b); else K_vwo_assign(&a, &a); }


#define H0(k) void h_##k(void) { struct VWO a; mk_vwo(&a); __CPROVER_assert(VWO_VALID(&a), "mk_vwo establishes VWO_VALID"); g_error = 0; g_i = nondet_int(); g_j = nondet_int(); k(&a); }
H0(K_vwo_get_min_index)
H0(K_vwo_get_max_index)
H0(K_vwo_get_length)
H0(K_vwo_size)
H0(K_vwo_empty)
H0(K_vwo_capacity)
H0(K_vwo_get_capacity_min_index)
H0(K_vwo_get_capacity_max_index)
H0(K_vwo_begin)
H0(K_vwo_end)
#define H1(k, ty, nd) void h_##k(void) { struct VWO a; mk_vwo(&a); g_error = 0; g_i = nondet_int(); g_j = nondet_int(); ty x = nd(); k(&a, x); }
H1(K_vwo_index, int, nondet_int)
H1(K_vwo_at, int, nondet_int)
H1(K_vwo_set_offset, int, nondet_int)
#if defined(T_IS_FLOAT)
H1(K_vwo_fill, T, nondet_float)
#else
H1(K_vwo_fill, T, nondet_int)
#endif
#define H2(k) void h_##k(void) { struct VWO a, b; mk_vwo(&a); mk_vwo(&b); g_error = 0; g_i = nondet_int(); g_j = nondet_int(); k(&a, &b); }
H2(K_vwo_equals)
H2(K_vwo_plus_assign)
H2(K_vwo_minus_assign)
H2(K_vwo_mult_assign)
H2(K_vwo_div_assign)

/* models of std algorithms: two distinct blocks */
static void mk_two(T** p, T** q, long* n)
{
  unsigned len = nondet_unsigned();
  __CPROVER_assume(len <= VWO_MAXLEN);
  *n = len;
  *p = (T*)malloc((size_t)(len + 1) * sizeof(T));
  *q = (T*)malloc((size_t)(len + 1) * sizeof(T));
}
void h_K_std_copy(void) { T *p, *q; long n; mk_two(&p, &q, &n); long k = nondet_long(); __CPROVER_assume(k >= -1 && k <= n); K_std_copy(p, p + n, q, nondet_bool() ? (p + k) : (q + k)); }
void h_K_std_fill(void) { T *p, *q; long n; mk_two(&p, &q, &n); g_j = nondet_int(); K_std_fill(p, p + n, q[0]); }
void h_K_std_equal(void) { T *p, *q; long n; mk_two(&p, &q, &n); g_j = nondet_int(); K_std_equal(p, p + n, q); }
