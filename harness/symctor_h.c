/* harness part for the constructor kernels (included by harness/c03i.c and harness/c06s.c) */
#include "K_sym_ctor_init.c"
#include "K_sym_ctor_flags.c"
static void ghosts_ctor(void) { g_error = 0; g_is_subset = nondet_bool(); g_is_tof = nondet_bool(); g_pdi_num_views = nondet_int(); g_num_segment_pairs = nondet_int(); }
void h_K_sym_ctor_init(void) { struct SYM* s; ghosts_ctor(); K_sym_ctor_init(s, nondet_bool(), nondet_bool(), nondet_bool(), nondet_bool(), nondet_bool()); }
void h_K_sym_ctor_flags(void) { struct SYM* s; ghosts_ctor(); K_sym_ctor_flags(s); }
/* the two parts of the constructor in sequence (by contract): an object whose construction did not report an error satisfies the
   class invariant SYM_VALID and 'TOF data => only the z-shift symmetry' - what lemma_symmetry and the C06 kernels assume */
void h_lemma_sym_valid(void)
{
  struct SYM s;
  ghosts_ctor();
  __CPROVER_assume(g_pdi_num_views >= 1 && g_pdi_num_views <= C03_MAXVIEWS && g_num_segment_pairs >= 0 && g_num_segment_pairs < 100000);
  K_sym_ctor_init(&s, nondet_bool(), nondet_bool(), nondet_bool(), nondet_bool(), nondet_bool());
  if (!g_error)
    {
      K_sym_ctor_flags(&s);
      if (!g_error)
        {
          __CPROVER_assert(SYM_VALID(&s), "constructed symmetries object satisfies SYM_VALID");
          __CPROVER_assert(!g_is_tof || (!s.do_symmetry_90degrees_min_phi && !s.do_symmetry_180degrees_min_phi && !s.do_symmetry_swap_segment && !s.do_symmetry_swap_s), "TOF data: only the z-shift symmetry survives");
          __CPROVER_assert(!g_is_subset || (!s.do_symmetry_90degrees_min_phi && !s.do_symmetry_180degrees_min_phi), "subset data: no view symmetries");
        }
    }
}
