/* Harness for C03 part 3: the image side of the 16 symmetry operation classes (transform_image_coordinates). */
#include "contracts/c03b.h"
#include "canary.h"
#include "contracts/c03i.h"
#include "c03_img.c"
