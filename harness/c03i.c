/* Harness for C03 part 3: the image side of the 16 symmetry operation classes (transform_image_coordinates). */
#include "contracts/c03b.h"
#include "canary.h"
#include "contracts/c03i.h"
#include "c03_img.c"
#include "K_rt_first_ray.c"
float nondet_float(void);
void h_K_rt_first_ray(void) { K_rt_first_ray(nondet_float(), nondet_float(), nondet_int()); }
#include "harness/symctor_h.c"
