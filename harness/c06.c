#include "contracts/c06.h"
#include "canary.h"
#include "K_find_basic_vs.c"
/* spec helpers: the real function on a copy */
_Bool FB_CHANGES(const struct SYM* self, int view, int seg) { struct VS c; c.view_num = view; c.segment_num = seg; return K_find_basic_vs(self, &c); }
int FB_VIEW(const struct SYM* self, int view, int seg) { struct VS c; c.view_num = view; c.segment_num = seg; K_find_basic_vs(self, &c); return c.view_num; }
int FB_SEG(const struct SYM* self, int view, int seg) { struct VS c; c.view_num = view; c.segment_num = seg; K_find_basic_vs(self, &c); return c.segment_num; }
#include "K_num_related.c"
#include "K_get_related.c"
#include "K_is_basic.c"
#include "K_find_basic_vs_nums_in_subset.c"
#include "K_randomly_permute_subset_order.c"
#include "K_get_subset_num.c"
#include "K_balanced_count.c"
#include "K_ir_reconstruct_loop.c"
#include "K_balanced_verdict.c"

static void mk_sym(struct SYM* s)
{
  s->do_symmetry_90degrees_min_phi = nondet_bool(); s->do_symmetry_180degrees_min_phi = nondet_bool();
  s->do_symmetry_swap_segment = nondet_bool(); s->do_symmetry_swap_s = nondet_bool(); s->do_symmetry_shift_z = nondet_bool();
  s->num_views = nondet_int();
  __CPROVER_assume(SYM_VALID(s));
}
void h_K_find_basic_vs(void) { struct SYM* s; struct VS* v; K_find_basic_vs(s, v); }
void h_K_num_related(void) { struct SYM* s; struct VS* v; K_num_related(s, v); }
void h_K_is_basic(void)
{
  struct SYM s; mk_sym(&s);
  struct VS v; v.view_num = nondet_int(); v.segment_num = nondet_int();
  __CPROVER_assume(VS_IN_DATA(&s, &v));
  g_fbchg = FB_CHANGES(&s, v.view_num, v.segment_num);
  K_is_basic(&s, &v);
}
void h_K_get_related(void) { struct SYM* s; struct VS* v; struct VSVEC* r; g_a = nondet_int(); g_b = nondet_int(); K_get_related(s, r, v); }
void h_K_find_basic_vs_nums_in_subset(void)
{
  struct PDI* p;
  g_view = nondet_int(); g_seg = nondet_int(); g_isbasic = nondet_bool(); out_n = 0; out_ghost = 0;
  K_find_basic_vs_nums_in_subset(p, nondet_int(), nondet_int(), nondet_int(), nondet_int());
}
void h_K_randomly_permute_subset_order(void) { struct IR* s; struct IVEC* o; g_a = nondet_int(); g_b = nondet_int(); g_val = nondet_int(); K_randomly_permute_subset_order(s, o); }
void h_K_get_subset_num(void) { struct IR* s; g_a = nondet_int(); g_b = nondet_int(); g_val = nondet_int(); g_regen = 0; K_get_subset_num(s); }

/* find_basic is idempotent: its result is basic (a second application changes nothing and says so) */
void h_lemma_idempotent(void)
{
  struct SYM s; mk_sym(&s);
  struct VS v; v.view_num = nondet_int(); v.segment_num = nondet_int();
  __CPROVER_assume(VS_IN_DATA(&s, &v));
  K_find_basic_vs(&s, &v);
  struct VS w = v;
  _Bool ch = K_find_basic_vs(&s, &w);
  __CPROVER_assert(!ch && VS_EQ(v, w), "find_basic_view_segment_numbers is idempotent");
  __CPROVER_assert(K_is_basic(&s, &v), "its result is_basic");
}
/* every view-segment of the data is a member of the related list of its own representative (completeness) */
void h_lemma_complete(void)
{
  struct SYM s; mk_sym(&s);
  struct VS v; v.view_num = nondet_int(); v.segment_num = nondet_int();
  __CPROVER_assume(VS_IN_DATA(&s, &v));
  struct VS b = v;
  K_find_basic_vs(&s, &b);
  struct VSVEC r;
  K_get_related(&s, &r, &b);
  _Bool found = 0;
  for (int k = 0; k < MAXREL; ++k)
    if (k < r.n && VS_EQ(r.e[k], v))
      found = 1;
  __CPROVER_assert(found, "(view,segment) is in the related list of its basic view-segment");
}
/* the reported count equals the list length (num_related_view_segment_numbers vs the list) for every basic view-segment */
void h_lemma_related_count(void)
{
  struct SYM s; mk_sym(&s);
  struct VS b; b.view_num = nondet_int(); b.segment_num = nondet_int();
  __CPROVER_assume(VS_IN_DATA(&s, &b) && !FB_CHANGES(&s, b.view_num, b.segment_num));
  struct VSVEC r;
  K_get_related(&s, &r, &b);
  __CPROVER_assert(r.n == K_num_related(&s, &b), "num_related_view_segment_numbers equals the length of the related list");
}
/* a basic view-segment of the data falls into exactly one subset's residue class */
void h_lemma_subset_unique(void)
{
  int min_view = nondet_int(), view = nondet_int(), S = nondet_int(), s1 = nondet_int(), s2 = nondet_int();
  __CPROVER_assume(min_view >= 0 && min_view <= view && view < C06_MAXVIEWS && S >= 1 && S <= C06_MAXVIEWS);
  __CPROVER_assume(0 <= s1 && s1 < S && 0 <= s2 && s2 < S);
  _Bool in1 = view >= min_view + s1 && (view - (min_view + s1)) % S == 0;
  _Bool in2 = view >= min_view + s2 && (view - (min_view + s2)) % S == 0;
  __CPROVER_assert(!(in1 && in2) || s1 == s2, "no view in two subsets");
  int s0 = (view - min_view) % S;
  __CPROVER_assert(view >= min_view + s0 && (view - (min_view + s0)) % S == 0, "every view in some subset");
}
/* non-randomised schedule (over the contract of get_subset_num): within one full iteration all subsets differ */
void h_lemma_schedule(void)
{
  struct IR a, b;
  a.num_subsets = b.num_subsets = nondet_int(); a.start_subset_num = b.start_subset_num = nondet_int();
  a.randomise_subset_order = b.randomise_subset_order = 0;
  a._current_subset_array.n = b._current_subset_array.n = 0;
  a.subiteration_num = nondet_int(); b.subiteration_num = nondet_int();
  __CPROVER_assume(IR_VALID(&a) && IR_VALID(&b));
  /* same full iteration, different sub-iterations */
  __CPROVER_assume((a.subiteration_num - 1) / a.num_subsets == (b.subiteration_num - 1) / b.num_subsets && a.subiteration_num != b.subiteration_num);
  g_a = (a.subiteration_num - 1) % a.num_subsets; g_regen = 0;
  int sa = K_get_subset_num(&a);
  g_a = (b.subiteration_num - 1) % b.num_subsets; g_regen = 0;
  int sb = K_get_subset_num(&b);
  __CPROVER_assert(sa != sb, "two different sub-iterations of one full iteration use different subsets");
}

/* randomised schedule (over the contract of get_subset_num): two different sub-iterations of one full iteration use different subsets */
void h_lemma_schedule_random(void)
{
  struct IR a;
  a.num_subsets = nondet_int(); a.start_subset_num = nondet_int(); a.randomise_subset_order = 1;
  a._current_subset_array.n = 0; /* no order yet (start of a run; a run resumed inside a full iteration generates one at its first call) */
  const int k1 = nondet_int(), k2 = nondet_int();
  a.subiteration_num = k1;
  __CPROVER_assume(IR_VALID(&a) && k2 > k1 && k2 < (1 << 30) && (k1 - 1) / a.num_subsets == (k2 - 1) / a.num_subsets);
  g_val = nondet_int(); /* prophecy: the subset the first call will return (the code does not read ghosts) */
  g_a = (k1 - 1) % a.num_subsets; g_b = (k2 - 1) % a.num_subsets; g_regen = 0;
  const int s1 = K_get_subset_num(&a);
  __CPROVER_assume(s1 == g_val);
  /* sub-iterations between k1 and k2 keep the order (the same contract: not the first of a full iteration, order present) */
  a.subiteration_num = k2; g_a = (k2 - 1) % a.num_subsets; g_regen = 0;
  const int s2 = K_get_subset_num(&a);
  __CPROVER_assert(s1 != s2, "randomised order: two different sub-iterations of one full iteration use different subsets");
#ifdef LEMMA_CANARY
  __CPROVER_assert(0, "vacuity canary");
#endif
}

void h_K_balanced_count(void)
{
  struct PDI* p;
  g_view = nondet_int(); g_seg = nondet_int(); g_isbasic = nondet_bool(); g_sub = nondet_int(); g_nrel = nondet_int(); out_n = 0; out_ghost = 0; g_add_bad = 0;
  K_balanced_count(p, nondet_int(), nondet_int());
}
void h_K_balanced_verdict(void)
{
  int* a;
  g_sub = nondet_int(); g_w = nondet_int();
  K_balanced_verdict(a, nondet_int());
}

void h_K_ir_reconstruct_loop(void)
{
  struct IRL* r;
  g_k = nondet_int(); g_upd_calls = 0; g_upd_order_bad = 0; g_upd_last = nondet_int();
  K_ir_reconstruct_loop(r);
}
