/* Harness for C03 part S: set_up / clear_cache */
#include "contracts/c03s.h"
#include "canary.h"
#include "K_pm_clear_cache.c"
#include "K_pm_set_up_cache.c"
#include "K_pmrt_set_up_skip.c"
#include "K_pmrt_set_up_tail.c"
static void gh(void)
{
  g_v = nondet_int(); g_s = nondet_int(); g_rows = nondet_int(); g_same_pdi = nondet_bool(); g_same_voxel_size = nondet_bool(); g_same_origin = nondet_bool();
  g_same_max_index = nondet_bool(); g_same_min_index = nondet_bool(); g_skipped = 0; g_recycled = 0; g_row_resized = 0;
}
void h_K_pm_clear_cache(void) { struct CACHE* c; gh(); K_pm_clear_cache(c); }
void h_K_pm_set_up_cache(void) { struct CACHE* c; gh(); K_pm_set_up_cache(c, nondet_int(), nondet_int(), nondet_int(), nondet_int()); }
void h_K_pmrt_set_up_skip(void) { struct CACHE* c; gh(); K_pmrt_set_up_skip(c); }
void h_K_pmrt_set_up_tail(void) { struct CACHE* c; gh(); K_pmrt_set_up_tail(c); }
