/* C02: number format of the projection-data header writer (typestate contract of contracts/c10g.h) */
#include "contracts/c10g.h"
#include "canary.h"
#include "K_pdfs_hdr_stream_format.c"
void h_K_pdfs_hdr_stream_format(void) { K_pdfs_hdr_stream_format(); }
