/* C01 setters of ProjDataInfoCylindrical: table-validity invariant (contracts/c01s.h) */
#include "contracts/c01s.h"
#include "canary.h"
#include "K_set_min_ring_difference.c"
#include "K_set_max_ring_difference.c"
#include "K_set_ring_spacing.c"
#include "K_set_num_axial_poss_per_segment.c"
#include "K_set_min_axial_pos_num.c"
#include "K_set_max_axial_pos_num.c"
#include "K_reduce_segment_range.c"
void h_K_set_min_ring_difference(void) { struct PDIS* s; g_tables_current = nondet_bool(); K_set_min_ring_difference(s, nondet_int(), nondet_int()); }
void h_K_set_max_ring_difference(void) { struct PDIS* s; g_tables_current = nondet_bool(); K_set_max_ring_difference(s, nondet_int(), nondet_int()); }
void h_K_set_ring_spacing(void) { struct PDIS* s; g_tables_current = nondet_bool(); K_set_ring_spacing(s, nondet_float()); }
void h_K_set_num_axial_poss_per_segment(void) { struct PDIS* s; g_tables_current = nondet_bool(); K_set_num_axial_poss_per_segment(s); }
void h_K_set_min_axial_pos_num(void) { struct PDIS* s; g_tables_current = nondet_bool(); K_set_min_axial_pos_num(s, nondet_int(), nondet_int()); }
void h_K_set_max_axial_pos_num(void) { struct PDIS* s; g_tables_current = nondet_bool(); K_set_max_axial_pos_num(s, nondet_int(), nondet_int()); }
void h_K_reduce_segment_range(void) { struct PDIS* s; g_tables_current = nondet_bool(); K_reduce_segment_range(s, nondet_int(), nondet_int()); }
