/* C03: setters of ProjMatrixByBinUsingRayTracing (contracts/c03t.h) */
#include "contracts/c03t.h"
#include "canary.h"
#include "K_pmrt_set_restrict_to_cylindrical_FOV.c"
void h_K_pmrt_set_restrict_to_cylindrical_FOV(void) { struct PMRT* s; g_setup_current = nondet_bool(); K_pmrt_set_restrict_to_cylindrical_FOV(s, nondet_bool()); }
#include "K_pmrt_set_num_tangential_LORs.c"
void h_K_pmrt_set_num_tangential_LORs(void) { struct PMRT* s; g_setup_current = nondet_bool(); K_pmrt_set_num_tangential_LORs(s, nondet_int()); }
#include "K_pmrt_set_use_actual_detector_boundaries.c"
void h_K_pmrt_set_use_actual_detector_boundaries(void) { struct PMRT* s; g_setup_current = nondet_bool(); K_pmrt_set_use_actual_detector_boundaries(s, nondet_bool()); }
#include "K_pmrt_set_do_symmetry_90degrees_min_phi.c"
void h_K_pmrt_set_do_symmetry_90degrees_min_phi(void) { struct PMRT* s; g_setup_current = nondet_bool(); K_pmrt_set_do_symmetry_90degrees_min_phi(s, nondet_bool()); }
#include "K_pmrt_set_do_symmetry_180degrees_min_phi.c"
void h_K_pmrt_set_do_symmetry_180degrees_min_phi(void) { struct PMRT* s; g_setup_current = nondet_bool(); K_pmrt_set_do_symmetry_180degrees_min_phi(s, nondet_bool()); }
#include "K_pmrt_set_do_symmetry_swap_segment.c"
void h_K_pmrt_set_do_symmetry_swap_segment(void) { struct PMRT* s; g_setup_current = nondet_bool(); K_pmrt_set_do_symmetry_swap_segment(s, nondet_bool()); }
#include "K_pmrt_set_do_symmetry_swap_s.c"
void h_K_pmrt_set_do_symmetry_swap_s(void) { struct PMRT* s; g_setup_current = nondet_bool(); K_pmrt_set_do_symmetry_swap_s(s, nondet_bool()); }
#include "K_pmrt_set_do_symmetry_shift_z.c"
void h_K_pmrt_set_do_symmetry_shift_z(void) { struct PMRT* s; g_setup_current = nondet_bool(); K_pmrt_set_do_symmetry_shift_z(s, nondet_bool()); }
