#include "contracts/c03.h"
#include "canary.h"
#include "K_cache_key.c"
#include "K_get_proj_matrix_elems_for_one_bin.c"

void h_K_cache_key(void) { struct Bin* b; K_cache_key(b); }

/* Lemma over the contract of cache_key only: two bins with equal keys agree in (axial, tangential, TOF) - so a cached row
   (stored per [view][segment]) can never be returned for a different bin. */
void h_lemma_key_injective(void)
{
  struct Bin b1, b2;
  b1.axial_pos_num = nondet_int(); b1.tangential_pos_num = nondet_int(); b1.timing_pos_num = nondet_int();
  b2.axial_pos_num = nondet_int(); b2.tangential_pos_num = nondet_int(); b2.timing_pos_num = nondet_int();
  b1.segment_num = b2.segment_num = nondet_int(); b1.view_num = b2.view_num = nondet_int();
  __CPROVER_assume(KEY_IN_DOMAIN(&b1) && KEY_IN_DOMAIN(&b2));
  CacheKey k1 = K_cache_key(&b1), k2 = K_cache_key(&b2);
  __CPROVER_assert(k1 != k2 || (b1.axial_pos_num == b2.axial_pos_num && b1.tangential_pos_num == b2.tangential_pos_num
                                && b1.timing_pos_num == b2.timing_pos_num), "equal keys => equal (axial, tangential, TOF)");
  __CPROVER_assert((b1.axial_pos_num == b2.axial_pos_num && b1.tangential_pos_num == b2.tangential_pos_num && b1.timing_pos_num == b2.timing_pos_num)
                   ==> k1 == k2, "equal bins => equal keys (function of the bin only)");
#ifdef LEMMA_CANARY
  __CPROVER_assert(0, "vacuity canary");
#endif
}

void h_K_get_proj_matrix_elems_for_one_bin(void)
{
  struct PM* self; struct Row* r; struct Bin* b;
  K_get_proj_matrix_elems_for_one_bin(self, r, b);
}
