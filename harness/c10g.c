/* C10: image geometry <-> Interfile header keys (contracts/c10g.h) */
#include "contracts/c10g.h"
#include "canary.h"
#include "K_img_geometry_from_header.c"
#include "K_img_geometry_to_header.c"
void h_K_img_geometry_from_header(void)
{
  struct IHDR* h; struct IMGGEO* o;
  /* the ghost origin is fixed after the call from the inputs, by the formula of the property: first pixel = min index * voxel size + origin */
  K_img_geometry_from_header(h, o);
}
void h_K_img_geometry_to_header(void) { K_img_geometry_to_header(nondet_int() != 0); }
#include "K_hdr_stream_format.c"
void h_K_hdr_stream_format(void) { K_hdr_stream_format(); }
