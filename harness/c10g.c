/* C10: image geometry <-> Interfile header keys (contracts/c10g.h) */
#include "contracts/c10g.h"
#include "canary.h"
#include "K_img_geometry_from_header.c"
#include "K_img_geometry_to_header.c"
void h_K_img_geometry_from_header(void)
{
  struct IHDR* h; struct IMGGEO* o;
  /* the ghost origin is fixed after the call from the inputs, by the formula of the property: first pixel = min index * voxel size + origin */
  K_img_geometry_from_header(h, o);
}
void h_K_img_geometry_to_header(void) { K_img_geometry_to_header(nondet_int() != 0); }
#include "K_hdr_stream_format.c"
void h_K_hdr_stream_format(void) { K_hdr_stream_format(); }
#include "K_hdrw_patient_position.c"
void h_K_hdrw_patient_position(void) { g_fixed = nondet_bool(); g_prec = nondet_int(); g_base = nondet_int(); g_vals = 0; g_f0 = g_fixed; g_p0 = g_prec; g_b0 = g_base; K_hdrw_patient_position(); }
#include "K_hdrw_time_frame_definitions.c"
void h_K_hdrw_time_frame_definitions(void) { g_fixed = nondet_bool(); g_prec = nondet_int(); g_base = nondet_int(); g_vals = 0; g_f0 = g_fixed; g_p0 = g_prec; g_b0 = g_base; K_hdrw_time_frame_definitions(); }
#include "K_hdrw_energy_windows.c"
void h_K_hdrw_energy_windows(void) { g_fixed = nondet_bool(); g_prec = nondet_int(); g_base = nondet_int(); g_vals = 0; g_f0 = g_fixed; g_p0 = g_prec; g_b0 = g_base; K_hdrw_energy_windows(); }
#include "K_hdrw_image_data_descriptions.c"
void h_K_hdrw_image_data_descriptions(void) { g_fixed = nondet_bool(); g_prec = nondet_int(); g_base = nondet_int(); g_vals = 0; g_f0 = g_fixed; g_p0 = g_prec; g_b0 = g_base; K_hdrw_image_data_descriptions(); }
#include "K_hdrw_modality.c"
void h_K_hdrw_modality(void) { g_fixed = nondet_bool(); g_prec = nondet_int(); g_base = nondet_int(); g_vals = 0; g_f0 = g_fixed; g_p0 = g_prec; g_b0 = g_base; K_hdrw_modality(); }
#include "K_hdrw_radionuclide_info.c"
void h_K_hdrw_radionuclide_info(void) { g_fixed = nondet_bool(); g_prec = nondet_int(); g_base = nondet_int(); g_vals = 0; g_f0 = g_fixed; g_p0 = g_prec; g_b0 = g_base; K_hdrw_radionuclide_info(); }
