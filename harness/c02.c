/* Harnesses for C02. */
#include "contracts/c02.h"
#include "canary.h"
#include "K_pdm_get_index.c"
#include "K_pds_get_offset.c"
#include "K_fss_reorder.c"
#include "K_pdm_ctor_layout.c"
#include "K_pds_activate_TOF.c"
#define CONTRACT_K_pd_set_segment_by_sinogram CONTRACT_K_pd_set_segment
#define CONTRACT_K_pd_set_segment_by_view CONTRACT_K_pd_set_segment
#define CONTRACT_K_pd_get_segment_by_sinogram CONTRACT_K_pd_get_segment
#define CONTRACT_K_pd_get_segment_by_view CONTRACT_K_pd_get_segment
#include "K_pd_set_segment_by_sinogram.c"
#include "K_pd_set_segment_by_view.c"
#include "K_pd_get_segment_by_sinogram.c"
#include "K_pd_get_segment_by_view.c"
#include "K_pd_set_related_viewgrams.c"
#include "K_pd_fill_value.c"
#include "K_pd_fill_from.c"
#include "K_pdm_set_viewgram.c"
#include "K_pdm_get_viewgram.c"
#include "K_pdm_set_sinogram.c"
#include "K_pdm_get_sinogram.c"
#include "K_pdm_get_bin_value.c"
#include "K_pdm_set_bin_value.c"
#include "K_pdm_set_segment.c"
#include "K_pdm_get_segment.c"
#include "K_pds_set_bin_value.c"
#include "K_pds_set_viewgram.c"
#include "K_pds_set_sinogram.c"
#include "K_pds_get_bin_value.c"
#include "K_pds_get_viewgram.c"
#include "K_pds_get_sinogram.c"
void K_pds_get_segment_by_view(const struct PD* self, const int segment_num, const int timing_pos);
#include "K_pds_get_segment_by_sinogram.c"
#include "K_pds_get_segment_by_view.c"
int K_pds_set_segment_by_view(const struct PD* self, const int v_segment_num, const int v_timing_pos_num);
#include "K_pds_set_segment_by_sinogram.c"
#include "K_pds_set_segment_by_view.c"

static void ghosts(void)
{
  g_error = 0;
  for (int i = 0; i < MAXSEGS; ++i) g_pos[i] = nondet_int();
  for (int i = 0; i < MAXT; ++i) g_tpos[i] = nondet_int();
  for (int i = 0; i <= MAXSEGS; ++i) g_prefix[i] = nondet_long();
}
void h_K_find_int(void)
{
  int a[8]; for (int i = 0; i < 8; ++i) a[i] = nondet_int();
  K_find_int(a, nondet_int(), nondet_int(), nondet_int());
}
void h_K_pdm_get_index(void) { struct PD* s; struct Bin* b; ghosts(); K_pdm_get_index(s, b); }
void h_K_pds_get_offset(void) { struct PD* s; struct Bin* b; ghosts(); K_pds_get_offset(s, b); }

static void ghosts_path(void)
{
  ghosts();
  g_bin.segment_num = nondet_int(); g_bin.view_num = nondet_int(); g_bin.axial_pos_num = nondet_int(); g_bin.tangential_pos_num = nondet_int(); g_bin.timing_pos_num = nondet_int();
  g_idx = nondet_long(); g_buf_writes = 0; g_reads = 0; g_read_idx = nondet_long();
}
void h_K_pdm_set_viewgram(void) { struct PD* s; ghosts_path(); K_pdm_set_viewgram(s, nondet_int(), nondet_int(), nondet_int()); }
void h_K_pdm_get_viewgram(void) { struct PD* s; ghosts_path(); K_pdm_get_viewgram(s, nondet_int(), nondet_int(), nondet_int()); }
void h_K_pdm_set_sinogram(void) { struct PD* s; ghosts_path(); K_pdm_set_sinogram(s, nondet_int(), nondet_int(), nondet_int()); }
void h_K_pdm_get_sinogram(void) { struct PD* s; ghosts_path(); K_pdm_get_sinogram(s, nondet_int(), nondet_int(), nondet_int()); }
static void ghosts_stream(void)
{
  ghosts_path();
  g_foff = nondet_long(); g_seek = nondet_long(); g_dirty = 0; g_wrong_scale = 0; g_fwrites = 0; g_stream_null = nondet_int(); g_stream_bad = nondet_int(); g_nonfloat = nondet_int();
  g_scale_factor = nondet_float(); g_blk_start = nondet_long(); g_blk_elems = nondet_long();
}
void h_K_pds_set_bin_value(void) { struct PD* s; struct Bin* b; ghosts_stream(); K_pds_set_bin_value(s, b); }
void h_K_pds_set_viewgram(void) { struct PD* s; ghosts_stream(); K_pds_set_viewgram(s, nondet_int(), nondet_int(), nondet_int()); }
void h_K_pds_set_sinogram(void) { struct PD* s; ghosts_stream(); K_pds_set_sinogram(s, nondet_int(), nondet_int(), nondet_int()); }
void h_K_pds_set_segment_by_sinogram(void) { struct PD* s; ghosts_stream(); K_pds_set_segment_by_sinogram(s, nondet_int(), nondet_int()); }
void h_K_pds_set_segment_by_view(void) { struct PD* s; ghosts_stream(); K_pds_set_segment_by_view(s, nondet_int(), nondet_int()); }
static void ghosts_read(void) { ghosts_stream(); g_reads = 0; g_mult = 0; g_mult_bad = 0; g_unscaled = 0; g_read_off = nondet_long(); }
void h_K_pds_get_bin_value(void) { struct PD* s; struct Bin* b; ghosts_read(); K_pds_get_bin_value(s, b); }
void h_K_pds_get_viewgram(void) { struct PD* s; ghosts_read(); K_pds_get_viewgram(s, nondet_int(), nondet_int(), nondet_int()); }
void h_K_pds_get_sinogram(void) { struct PD* s; ghosts_read(); K_pds_get_sinogram(s, nondet_int(), nondet_int(), nondet_int()); }
void h_K_pdm_get_bin_value(void) { struct PD* s; struct Bin* b; ghosts_path(); K_pdm_get_bin_value(s, b); }
void h_K_pdm_set_bin_value(void) { struct PD* s; struct Bin* b; ghosts_path(); K_pdm_set_bin_value(s, b); }
void h_K_pdm_set_segment(void) { struct PD* s; ghosts_path(); K_pdm_set_segment(s, nondet_int(), nondet_int()); }
void h_K_pdm_get_segment(void) { struct PD* s; ghosts_path(); K_pdm_get_segment(s, nondet_int(), nondet_int()); }
static void ghosts_loops(void)
{
  ghosts();
  g_k1 = nondet_int(); g_k2 = nondet_int(); g_k3 = nondet_int(); g_calls = 0; g_bad = 0; g_failed = 0; g_want_seg = nondet_int(); g_want_tof = nondet_int();
}
void h_K_pd_set_segment_by_sinogram(void) { struct PD* s; ghosts_loops(); K_pd_set_segment_by_sinogram(s); }
void h_K_pd_set_segment_by_view(void) { struct PD* s; ghosts_loops(); K_pd_set_segment_by_view(s); }
void h_K_pd_get_segment_by_sinogram(void) { struct PD* s; ghosts_loops(); K_pd_get_segment_by_sinogram(s, nondet_int(), nondet_int()); }
void h_K_pd_get_segment_by_view(void) { struct PD* s; ghosts_loops(); K_pd_get_segment_by_view(s, nondet_int(), nondet_int()); }
void h_K_pd_set_related_viewgrams(void) { ghosts_loops(); K_pd_set_related_viewgrams(nondet_int()); }
void h_K_pd_fill_value(void) { struct PD* s; ghosts_loops(); K_pd_fill_value(s); }
void h_K_pd_fill_from(void) { struct PD* s; ghosts_loops(); K_pd_fill_from(s); }
void h_K_pds_get_segment_by_sinogram(void) { struct PD* s; ghosts_read(); K_pds_get_segment_by_sinogram(s, nondet_int(), nondet_int()); }
void h_K_pds_get_segment_by_view(void) { struct PD* s; ghosts_read(); K_pds_get_segment_by_view(s, nondet_int(), nondet_int()); }
static void ghosts_layout(void)
{
  ghosts();
  for (int i = 0; i <= MAXSEGS; ++i) g_sprefix[i] = nondet_long();
  g_t = nondet_int(); g_tseq_len = nondet_int(); g_tseq_at_t = nondet_int(); g_tseq_writes = 0;
}
void h_K_pdm_ctor_layout(void) { struct PD* s; ghosts_layout(); K_pdm_ctor_layout(s); }
void h_K_pds_activate_TOF(void) { struct PD* s; ghosts_layout(); K_pds_activate_TOF(s); }
void h_K_fss_reorder(void)
{
  g_r = nondet_int(); g_zero = nondet_int(); g_rloc = nondet_int(); g_fss_min_seg = nondet_int(); g_fss_max_seg = nondet_int();
  g_in_min_ring_difference = nondet_int(); g_in_max_ring_difference = nondet_int(); g_in_num_rings_per_segment = nondet_int();
  g_ow_min_ring_diff = 0; g_ow_max_ring_diff = 0; g_ow_num_rings_per_segment = 0;
  K_fss_reorder(nondet_int());
}
static void mk_pd(struct PD* s)
{
  s->min_seg = nondet_int(); s->max_seg = nondet_int();
  for (int i = 0; i < MAXSEGS; ++i) { s->min_ax[i] = nondet_short(); s->max_ax[i] = nondet_short(); s->segment_sequence[i] = nondet_int(); }
  for (int i = 0; i < MAXT; ++i) s->timing_poss_sequence[i] = nondet_int();
  s->min_view = nondet_int(); s->max_view = nondet_int(); s->min_tang = nondet_int(); s->max_tang = nondet_int();
  s->min_tof = nondet_int(); s->max_tof = nondet_int(); s->num_tof = nondet_int(); s->nseq = nondet_int(); s->ntseq = nondet_int();
  s->offset_3d_data = nondet_long(); s->offset = nondet_long(); s->storage_order = nondet_int(); s->elsize = C02_E;
}
static void mk_bin(struct Bin* b)
{
  b->segment_num = nondet_int(); b->view_num = nondet_int(); b->axial_pos_num = nondet_int(); b->tangential_pos_num = nondet_int(); b->timing_pos_num = nondet_int();
}
#define SAME_BIN(a, b) ((a).segment_num == (b).segment_num && (a).view_num == (b).view_num && (a).axial_pos_num == (b).axial_pos_num \
                        && (a).tangential_pos_num == (b).tangential_pos_num && (a).timing_pos_num == (b).timing_pos_num)
/* Lemma P (consequence of PD_VALID_CORE, proved here once): the prefix sums are non-negative and strictly increasing
   by at least the number of axial positions of the segment at that position. Ghost positions p < q. */
void h_lemma_prefix_monotone(void)
{
  struct PD s; mk_pd(&s); ghosts();
  __CPROVER_assume(PD_VALID_CORE(&s));
  int p = nondet_int(), q = nondet_int();
  __CPROVER_assume(0 <= p && p < q && q <= NSEG(&s));
  __CPROVER_assert(g_prefix[p] >= 0 && g_prefix[q] <= (long)q * 8192, "prefix sums are bounded");
  __CPROVER_assert(g_prefix[q] >= g_prefix[p] + NAXI(&s, s.segment_sequence[p] - s.min_seg), "prefix sums grow by at least the segment's axial positions");
  __CPROVER_assert(NAXI(&s, s.segment_sequence[p] - s.min_seg) >= 1, "every segment has at least one axial position");
#ifdef LEMMA_CANARY
  __CPROVER_assert(0, "vacuity canary");
#endif
}

/* two bins, described by what the closed forms use: position of the segment in the sequence, its prefix sum and number
   of axial positions, TOF position, and the three in-range offsets. FACTS_P are instances of lemma P (assumed here,
   proved by h_lemma_prefix_monotone) plus "same position <=> same segment" (permutation, PD_VALID_CORE). */
struct BV { int seg, pos, nax, tpos, tof; long pre, ax, vw, tg; };
static void mk_bv(struct BV* b, int nseg, int ntof)
{
  b->seg = nondet_int(); b->pos = nondet_int(); b->nax = nondet_int(); b->tpos = nondet_int(); b->tof = nondet_int();
  b->pre = nondet_long(); b->ax = nondet_long(); b->vw = nondet_long(); b->tg = nondet_long();
  __CPROVER_assume(0 <= b->pos && b->pos < nseg && 1 <= b->nax && b->nax < 8192 && 0 <= b->tpos && b->tpos < ntof);
  __CPROVER_assume(0 <= b->ax && b->ax < b->nax && 0 <= b->vw && b->vw < C02_V && 0 <= b->tg && b->tg < C02_T);
}
#define FACTS_P(a, b, total)                                                                                          \
  ((total) >= 0 && (total) <= (long)MAXSEGS * 8192 && (a).pre >= 0 && (a).pre <= (total) && (b).pre >= 0 && (b).pre <= (total)     \
   && (total) >= (a).pre + (a).nax && (total) >= (b).pre + (b).nax                                                    \
   && ((a).pos == (b).pos ? ((a).seg == (b).seg && (a).pre == (b).pre && (a).nax == (b).nax) : (a).seg != (b).seg)    \
   && ((a).pos < (b).pos ? (b).pre >= (a).pre + (a).nax : 1) && ((b).pos < (a).pos ? (a).pre >= (b).pre + (b).nax : 1) \
   && ((a).tpos == (b).tpos) == ((a).tof == (b).tof))
#define CUT(c, msg)                                                                                                   \
  do                                                                                                                  \
    {                                                                                                                 \
      __CPROVER_assert(c, msg);                                                                                       \
      __CPROVER_assume(c);                                                                                            \
    }                                                                                                                 \
  while (0)
#define BV_SAME(a, b) ((a).seg == (b).seg && (a).tof == (b).tof && (a).ax == (b).ax && (a).vw == (b).vw && (a).tg == (b).tg)
#define BV_ROW(b, total) (TMUL((b).tpos, total) + (b).pre + (b).ax)
/* Lemma over the CONTRACT of get_index in its mixed-radix form (SPEC_INDEX_H): two different bins of the data never share
   an element and every element lies inside the buffer ("a value written through any access path is read back unchanged
   ... and no other bin changes"). One radix at a time (each step is asserted, then used). */
void h_lemma_index_injective(void)
{
  int nseg = nondet_int(), ntof = nondet_int(); long total = nondet_long();
  __CPROVER_assume(1 <= nseg && nseg <= MAXSEGS && 1 <= ntof && ntof <= MAXT);
  struct BV a, b; mk_bv(&a, nseg, ntof); mk_bv(&b, nseg, ntof);
  __CPROVER_assume(FACTS_P(a, b, total));
  const long ra = BV_ROW(a, total), rb = BV_ROW(b, total);
  const long qa = ra * C02_V + a.vw, qb = rb * C02_V + b.vw;
  const long ia = qa * C02_T + a.tg, ib = qb * C02_T + b.tg;
  CUT(ra >= 0 && ra < TMUL(ntof, total), "row number inside the rows of the data");
  CUT(qa >= 0 && qa < TMUL(ntof, total) * C02_V, "row-and-view number in range");
  __CPROVER_assert(ia >= 0 && ia < TMUL(ntof, total) * C02_V * C02_T, "index inside the buffer");
  if (ia == ib)
    {
      CUT(qa == qb && a.tg == b.tg, "same element => same tangential position");
      CUT(ra == rb && a.vw == b.vw, "same element => same view");
      CUT(a.tpos == b.tpos && a.pre + a.ax == b.pre + b.ax, "same element => same TOF block");
      CUT(a.pos == b.pos && a.ax == b.ax, "same element => same segment and axial position");
      __CPROVER_assert(BV_SAME(a, b), "different bins have different elements");
    }
  if (a.tg + 1 < C02_T)
    __CPROVER_assert((qa * C02_T + (a.tg + 1)) == ia + 1, "a row of tangential positions is contiguous");
#ifdef LEMMA_CANARY
  __CPROVER_assert(0, "vacuity canary");
#endif
}
/* same for the byte ranges [offset, offset+E) in a stream, both storage orders (SPEC_OFFSET_H) */
void h_lemma_offset_disjoint(void)
{
  int nseg = nondet_int(), ntof = nondet_int(); long total = nondet_long(); _Bool order = nondet_bool();
  __CPROVER_assume(1 <= nseg && nseg <= MAXSEGS && 1 <= ntof && ntof <= MAXT);
  struct BV a, b; mk_bv(&a, nseg, ntof); mk_bv(&b, nseg, ntof);
  __CPROVER_assume(FACTS_P(a, b, total));
  /* row-and-view number: sinogram order (row*V + view) or view order (first row of the segment*V + view*nax + ax) */
  const long sa = TMUL(a.tpos, total) + a.pre, sb = TMUL(b.tpos, total) + b.pre;
  const long ua = order ? a.ax * C02_V + a.vw : a.vw * a.nax + a.ax, ub = order ? b.ax * C02_V + b.vw : b.vw * b.nax + b.ax;
  CUT(ua >= 0 && ua < (long)a.nax * C02_V && ub >= 0 && ub < (long)b.nax * C02_V, "position inside the segment's block");
  const long qa = sa * C02_V + ua, qb = sb * C02_V + ub;
  const long ea = qa * C02_T + a.tg, eb = qb * C02_T + b.tg; /* element numbers */
  CUT(qa >= 0 && qa < TMUL(ntof, total) * C02_V, "row-and-view number in range");
  __CPROVER_assert(ea >= 0 && (ea + 1) * C02_E <= TMUL(ntof, total) * C02_V * C02_T * C02_E, "element inside the data part of the stream");
  if (ea == eb)
    {
      CUT(qa == qb && a.tg == b.tg, "same element => same tangential position");
      CUT(a.tpos == b.tpos && a.pre * C02_V + ua == b.pre * C02_V + ub, "same element => same TOF block");
      CUT(a.pos == b.pos && ua == ub, "same element => same segment");
      CUT(a.ax == b.ax && a.vw == b.vw, "same element => same axial position and view");
      __CPROVER_assert(BV_SAME(a, b), "different bins have different elements");
    }
  __CPROVER_assert(ea == eb || ea * C02_E + C02_E <= eb * C02_E || eb * C02_E + C02_E <= ea * C02_E, "different elements occupy disjoint byte ranges");
#ifdef LEMMA_CANARY
  __CPROVER_assert(0, "vacuity canary");
#endif
}
/* the distributed closed forms the kernels are verified against equal the mixed-radix forms (distributivity; discharged
   for power-of-two V, T, E only) */
void h_lemma_forms_agree(void)
{
  struct PD s; mk_pd(&s); ghosts();
  __CPROVER_assume(PD_VALID_CORE(&s) && s.offset >= 0 && s.offset < (1L << 40));
  struct Bin b; mk_bin(&b);
  __CPROVER_assume(BIN_IN_RANGE(&s, &b) && PREFIX_FACT(&s, &b));
  _Bool mem = nondet_bool();
  if (mem)
    {
      __CPROVER_assume(s.offset_3d_data == TOTAL_SINOS(&s) * C02_V * C02_T);
      __CPROVER_assert(SPEC_INDEX(&s, &b) == SPEC_INDEX_H(&s, &b), "in-memory index: distributed form == mixed-radix form");
    }
  else
    {
      __CPROVER_assume(s.offset_3d_data == TOTAL_SINOS(&s) * C02_V * C02_T * C02_E);
      __CPROVER_assume(s.storage_order >= Segment_AxialPos_View_TangPos && s.storage_order <= Timing_Segment_View_AxialPos_TangPos);
      __CPROVER_assert(SPEC_OFFSET(&s, &b) == SPEC_OFFSET_H(&s, &b), "stream offset: distributed form == mixed-radix form");
    }
#ifdef LEMMA_CANARY
  __CPROVER_assert(0, "vacuity canary");
#endif
}
