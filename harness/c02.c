/* Harnesses for C02. */
#include "contracts/c02.h"
#include "canary.h"
#include "K_pdm_get_index.c"
#include "K_pds_get_offset.c"

static void ghosts(void)
{
  g_error = 0;
  for (int i = 0; i < MAXSEGS; ++i) g_pos[i] = nondet_int();
  for (int i = 0; i < MAXT; ++i) g_tpos[i] = nondet_int();
  for (int i = 0; i <= MAXSEGS; ++i) g_prefix[i] = nondet_long();
}
void h_K_find_int(void)
{
  int a[8]; for (int i = 0; i < 8; ++i) a[i] = nondet_int();
  K_find_int(a, nondet_int(), nondet_int(), nondet_int());
}
void h_K_pdm_get_index(void) { struct PD* s; struct Bin* b; ghosts(); K_pdm_get_index(s, b); }
void h_K_pds_get_offset(void) { struct PD* s; struct Bin* b; ghosts(); K_pds_get_offset(s, b); }

static void mk_pd(struct PD* s)
{
  s->min_seg = nondet_int(); s->max_seg = nondet_int();
  for (int i = 0; i < MAXSEGS; ++i) { s->min_ax[i] = nondet_short(); s->max_ax[i] = nondet_short(); s->segment_sequence[i] = nondet_int(); }
  for (int i = 0; i < MAXT; ++i) s->timing_poss_sequence[i] = nondet_int();
  s->min_view = nondet_int(); s->max_view = nondet_int(); s->min_tang = nondet_int(); s->max_tang = nondet_int();
  s->min_tof = nondet_int(); s->max_tof = nondet_int(); s->num_tof = nondet_int(); s->nseq = nondet_int(); s->ntseq = nondet_int();
  s->offset_3d_data = nondet_long(); s->offset = nondet_long(); s->storage_order = nondet_int(); s->elsize = C02_E;
}
static void mk_bin(struct Bin* b)
{
  b->segment_num = nondet_int(); b->view_num = nondet_int(); b->axial_pos_num = nondet_int(); b->tangential_pos_num = nondet_int(); b->timing_pos_num = nondet_int();
}
#define SAME_BIN(a, b) ((a).segment_num == (b).segment_num && (a).view_num == (b).view_num && (a).axial_pos_num == (b).axial_pos_num \
                        && (a).tangential_pos_num == (b).tangential_pos_num && (a).timing_pos_num == (b).timing_pos_num)
/* Lemma P (consequence of PD_VALID_CORE, proved here once): the prefix sums are non-negative and strictly increasing
   by at least the number of axial positions of the segment at that position. Ghost positions p < q. */
void h_lemma_prefix_monotone(void)
{
  struct PD s; mk_pd(&s); ghosts();
  __CPROVER_assume(PD_VALID_CORE(&s));
  int p = nondet_int(), q = nondet_int();
  __CPROVER_assume(0 <= p && p < q && q <= NSEG(&s));
  __CPROVER_assert(g_prefix[p] >= 0 && g_prefix[q] <= (long)q * 8192, "prefix sums are bounded");
  __CPROVER_assert(g_prefix[q] >= g_prefix[p] + NAXI(&s, s.segment_sequence[p] - s.min_seg), "prefix sums grow by at least the segment's axial positions");
  __CPROVER_assert(NAXI(&s, s.segment_sequence[p] - s.min_seg) >= 1, "every segment has at least one axial position");
#ifdef LEMMA_CANARY
  __CPROVER_assert(0, "vacuity canary");
#endif
}

/* two bins, described by what the closed forms use: position of the segment in the sequence, its prefix sum and number
   of axial positions, TOF position, and the three in-range offsets. FACTS_P are instances of lemma P (assumed here,
   proved by h_lemma_prefix_monotone) plus "same position <=> same segment" (permutation, PD_VALID_CORE). */
struct BV { int seg, pos, nax, tpos, tof; long pre, ax, vw, tg; };
static void mk_bv(struct BV* b, int nseg, int ntof)
{
  b->seg = nondet_int(); b->pos = nondet_int(); b->nax = nondet_int(); b->tpos = nondet_int(); b->tof = nondet_int();
  b->pre = nondet_long(); b->ax = nondet_long(); b->vw = nondet_long(); b->tg = nondet_long();
  __CPROVER_assume(0 <= b->pos && b->pos < nseg && 1 <= b->nax && b->nax < 8192 && 0 <= b->tpos && b->tpos < ntof);
  __CPROVER_assume(0 <= b->ax && b->ax < b->nax && 0 <= b->vw && b->vw < C02_V && 0 <= b->tg && b->tg < C02_T);
}
#define FACTS_P(a, b, total)                                                                                          \
  ((total) >= 0 && (total) <= (long)MAXSEGS * 8192 && (a).pre >= 0 && (a).pre <= (total) && (b).pre >= 0 && (b).pre <= (total)     \
   && (total) >= (a).pre + (a).nax && (total) >= (b).pre + (b).nax                                                    \
   && ((a).pos == (b).pos ? ((a).seg == (b).seg && (a).pre == (b).pre && (a).nax == (b).nax) : (a).seg != (b).seg)    \
   && ((a).pos < (b).pos ? (b).pre >= (a).pre + (a).nax : 1) && ((b).pos < (a).pos ? (a).pre >= (b).pre + (b).nax : 1) \
   && ((a).tpos == (b).tpos) == ((a).tof == (b).tof))
#define BV_INDEX(b, s3d) ((b).pre * C02_V * C02_T + TMUL((b).tpos, s3d) + (b).ax * C02_V * C02_T + (b).vw * C02_T + (b).tg)
#define BV_SAME(a, b) ((a).seg == (b).seg && (a).tof == (b).tof && (a).ax == (b).ax && (a).vw == (b).vw && (a).tg == (b).tg)
/* Lemma over the CONTRACT of get_index (its closed form): two different bins of the data never share an element
   ("a value written through any access path is read back unchanged ... and no other bin changes") */
void h_lemma_index_injective(void)
{
  int nseg = nondet_int(), ntof = nondet_int(); long total = nondet_long();
  __CPROVER_assume(1 <= nseg && nseg <= MAXSEGS && 1 <= ntof && ntof <= MAXT);
  struct BV a, b; mk_bv(&a, nseg, ntof); mk_bv(&b, nseg, ntof);
  __CPROVER_assume(FACTS_P(a, b, total));
  const long s3d = total * C02_V * C02_T;
  const long ia = BV_INDEX(a, s3d), ib = BV_INDEX(b, s3d);
  __CPROVER_assert(ia >= 0 && ia < TMUL(ntof, s3d), "index inside the buffer");
  __CPROVER_assert(ia != ib || BV_SAME(a, b), "different bins have different elements");
  if (a.tg + 1 < C02_T)
    {
      struct BV c = a; c.tg++;
      __CPROVER_assert(BV_INDEX(c, s3d) == ia + 1, "a row of tangential positions is contiguous");
    }
#ifdef LEMMA_CANARY
  __CPROVER_assert(0, "vacuity canary");
#endif
}
/* same for the byte ranges [offset, offset+E) in a stream, both storage orders */
#define BV_OFFSET(b, s3d, order_ax_view) ((b).pre * C02_V * C02_T * C02_E + TMUL((b).tpos, s3d)                        \
   + ((order_ax_view) ? ((b).ax * C02_V * C02_T + (b).vw * C02_T + (b).tg) * C02_E : ((b).vw * (b).nax * C02_T + (b).ax * C02_T + (b).tg) * C02_E))
void h_lemma_offset_disjoint(void)
{
  int nseg = nondet_int(), ntof = nondet_int(); long total = nondet_long(); _Bool order = nondet_bool();
  __CPROVER_assume(1 <= nseg && nseg <= MAXSEGS && 1 <= ntof && ntof <= MAXT);
  struct BV a, b; mk_bv(&a, nseg, ntof); mk_bv(&b, nseg, ntof);
  __CPROVER_assume(FACTS_P(a, b, total));
  const long s3d = total * C02_V * C02_T * C02_E;
  const long oa = BV_OFFSET(a, s3d, order), ob = BV_OFFSET(b, s3d, order);
  __CPROVER_assert(oa >= 0 && oa + C02_E <= TMUL(ntof, s3d), "element inside the data part of the stream");
  __CPROVER_assert(BV_SAME(a, b) || oa + C02_E <= ob || ob + C02_E <= oa, "different bins occupy disjoint byte ranges");
  if (a.tg + 1 < C02_T)
    {
      struct BV c = a; c.tg++;
      __CPROVER_assert(BV_OFFSET(c, s3d, order) == oa + C02_E, "a row of tangential positions is contiguous in the stream");
    }
#ifdef LEMMA_CANARY
  __CPROVER_assert(0, "vacuity canary");
#endif
}
