/* Harness for C06, part S: the constructor of DataSymmetriesForBins_PET_CartesianGrid establishes SYM_VALID, the class invariant
   every other C06 kernel takes as its precondition (same kernels and contracts as under C03). */
#include "contracts/c06.h"
#include "canary.h"
#define C03_MAXVIEWS C06_MAXVIEWS
#include "contracts/symctor.h"
#include "harness/symctor_h.c"
