/* Harnesses for C01. */
#include "contracts/c01.h"
#include "canary.h"
#include "K_init_vt2d.c"
#include "K_init_d2vt.c"
#include "K_init_vt2d_if_not_done_yet.c"
#include "K_init_d2vt_if_not_done_yet.c"
#include "K_get_det_num_pair_for_vt.c"
#include "K_get_vt_for_det_num_pair.c"
#include "K_get_bin_for_det_pair.c"
#include "K_round_float.c"
#include "K_get_bin_for_det_pos_pair.c"
#include "K_get_det_pair_for_bin.c"
#include "K_get_det_pos_pair_for_bin.c"

static void ghosts1(void)
{
  g_error = 0; g_v = nondet_int(); g_tp = nondet_int();
  g_w1_det1_num = 0; g_w1_det2_num = 0; g_i1_grown = 0;
  g_o1_lo = nondet_int(); g_o1_hi = nondet_int(); g_i1_lo = nondet_int(); g_i1_hi = nondet_int();
  g_cell1.det1_num = nondet_int(); g_cell1.det2_num = nondet_int();
}
static void ghosts2(void)
{
  g_error = 0; g_d1 = nondet_int(); g_d2 = nondet_int();
  g_w2_view_num = 0; g_w2_tang_pos_num = 0; g_w2_swap_detectors = 0; g_i2_grown = 0;
  g_o2_lo = nondet_int(); g_o2_hi = nondet_int(); g_i2_lo = nondet_int(); g_i2_hi = nondet_int();
  g_cell2.view_num = nondet_int(); g_cell2.tang_pos_num = nondet_int(); g_cell2.swap_detectors = nondet_bool();
}
void h_K_init_vt2d(void) { struct PDI1* s; ghosts1(); K_init_vt2d(s); }
void h_K_init_d2vt(void) { struct PDI1* s; ghosts2(); K_init_d2vt(s); }

static void ghost_cell2(void)
{
  g_error = 0; g_d1 = nondet_int(); g_d2 = nondet_int();
  g_cell2.view_num = nondet_int(); g_cell2.tang_pos_num = nondet_int(); g_cell2.swap_detectors = nondet_bool();
}
void h_K_init_vt2d_if_not_done_yet(void) { struct PDI1* s; g_error = 0; K_init_vt2d_if_not_done_yet(s); }
void h_K_init_d2vt_if_not_done_yet(void) { struct PDI1* s; g_error = 0; K_init_d2vt_if_not_done_yet(s); }
void h_K_get_det_num_pair_for_vt(void) { struct PDI1* s; int *a, *b; g_error = 0; K_get_det_num_pair_for_vt(s, a, b, nondet_int(), nondet_int()); }
void h_K_get_vt_for_det_num_pair(void) { struct PDI1* s; int *a, *b; ghost_cell2(); K_get_vt_for_det_num_pair(s, a, b, nondet_int(), nondet_int()); }
void h_K_get_bin_for_det_pair(void) { struct PDI1* s; struct Bin* b; ghost_cell2(); K_get_bin_for_det_pair(s, b, nondet_int(), nondet_int(), nondet_int(), nondet_int(), nondet_int()); }
void h_K_round_float(void) { K_round_float(nondet_float()); }
void h_K_get_bin_for_det_pos_pair(void) { struct PDI1* s; struct Bin* b; struct DPP* d; ghost_cell2(); K_get_bin_for_det_pos_pair(s, b, d); }
void h_K_get_det_pair_for_bin(void) { struct PDI1* s; struct Bin* b; int *p, *q, *r, *t; g_error = 0; K_get_det_pair_for_bin(s, p, q, r, t, b); }
void h_K_get_det_pos_pair_for_bin(void) { struct PDI1* s; struct Bin* b; struct DPP* d; g_error = 0; K_get_det_pos_pair_for_bin(s, d, b); }

/* Lemma over the SPECIFICATION of table 1 (the postcondition of K_init_vt2d) and the CONTRACT of table 2
   (INV_OK, the postcondition of K_init_d2vt): for uncompressed data bin->pair and pair->bin are mutual inverses, and
   exchanging the two detectors gives the same bin with the opposite orientation flag. */
void h_lemma_inverse(void)
{
#ifdef C01_N
  const int n = C01_N;
#else
  const int n = nondet_int();
  __CPROVER_assume(N_OK(n));
#endif
  int v = nondet_int(), t = nondet_int(), v2 = nondet_int(), t2 = nondet_int();
  __CPROVER_assume(VT_IN_TABLE(v, t, n) && VT_IN_TABLE(v2, t2, n));
  const int a = SPEC_DET1(v, t, n), b = SPEC_DET2(v, t, n);
  __CPROVER_assert(a >= 0 && a < n && b >= 0 && b < n, "every bin's detectors are detectors of the ring");
  const int a2 = SPEC_DET1(v2, t2, n), b2 = SPEC_DET2(v2, t2, n);
  if (a != b)
    {
      __CPROVER_assert(!(a2 == a && b2 == b) || (v2 == v && t2 == t), "a detector pair is assigned to at most one bin");
      __CPROVER_assert(!(a2 == b && b2 == a), "the exchanged pair is not assigned to any bin of its own");
      /* any table-2 cell that satisfies K_init_d2vt's contract for (a,b) is exactly (v,t,not exchanged) ... */
      struct VTS c; c.view_num = nondet_int(); c.tang_pos_num = nondet_int(); c.swap_detectors = nondet_bool();
      __CPROVER_assume(INV_OK(c, a, b, n));
      __CPROVER_assert(c.view_num == v && c.tang_pos_num == t && c.swap_detectors, "bin -> pair -> bin is the identity");
      /* ... and for (b,a) it is (v,t,exchanged): same spatial bin */
      struct VTS d; d.view_num = nondet_int(); d.tang_pos_num = nondet_int(); d.swap_detectors = nondet_bool();
      __CPROVER_assume(INV_OK(d, b, a, n));
      __CPROVER_assert(d.view_num == v && d.tang_pos_num == t && !d.swap_detectors, "exchanging the detectors gives the same bin, flagged as exchanged");
    }
#ifdef LEMMA_CANARY
  __CPROVER_assert(0, "vacuity canary");
#endif
}

/* ---------- lemmas at the API level, over the CONTRACTS of the kernels (calls are replaced by contracts) ---------- */
static void mk_pdi(struct PDI1* s)
{
  s->num_detectors_per_ring = nondet_int(); s->min_tangential_pos_num = nondet_int(); s->max_tangential_pos_num = nondet_int();
  s->min_view_num = 0; s->max_view_num = nondet_int(); s->view_mashing_factor = nondet_int(); s->tof_mash_factor = nondet_int();
  s->tab1_initialised = 1; s->tab2_initialised = 1;
  __CPROVER_assume(PDI1_BASIC(s) && MASH_OK(s) && !TANG_TOO_LARGE(s) && s->tof_mash_factor >= 0 && s->tof_mash_factor < 1024);
}
static void ghost_cell2_for(const struct PDI1* s, int d1, int d2)
{
  g_d1 = d1; g_d2 = d2;
  g_cell2.view_num = nondet_int(); g_cell2.tang_pos_num = nondet_int(); g_cell2.swap_detectors = nondet_bool();
  __CPROVER_assume(INV_OK(g_cell2, d1, d2, s->num_detectors_per_ring)); /* = postcondition of K_init_d2vt for this cell */
}
/* "exchanging the two detectors gives the same spatial bin with the TOF index negated" (any view mashing) */
void h_lemma_exchange(void)
{
  struct PDI1 s; mk_pdi(&s); g_error = 0;
  int d1 = nondet_int(), d2 = nondet_int(), r1 = nondet_int(), r2 = nondet_int(), t = nondet_int();
  __CPROVER_assume(D12_OK(&s, d1, d2) && TOF_IN_DOMAIN(t));
  struct Bin b1, b2;
  ghost_cell2_for(&s, d1, d2);
  int ok1 = K_get_bin_for_det_pair(&s, &b1, d1, r1, d2, r2, t);
  const int q1a = g_rp_r1, q1b = g_rp_r2;
  ghost_cell2_for(&s, d2, d1);
  int ok2 = K_get_bin_for_det_pair(&s, &b2, d2, r2, d1, r1, t);
  __CPROVER_assert(!g_error, "no error with initialised tables");
  __CPROVER_assert(b1.view_num == b2.view_num && b1.tangential_pos_num == b2.tangential_pos_num, "exchanged pair: same view and tangential position");
  __CPROVER_assert(b1.timing_pos_num == -b2.timing_pos_num, "exchanged pair: TOF index negated");
  __CPROVER_assert(q1a == g_rp_r1 && q1b == g_rp_r2, "exchanged pair: the same ordered ring pair is looked up, hence the same segment and axial position");
#ifdef LEMMA_CANARY
  __CPROVER_assert(0, "vacuity canary");
#endif
}
/* uncompressed data: bin -> detection position pair -> bin is the identity (for bins whose two detectors differ) */
void h_lemma_roundtrip(void)
{
  struct PDI1 s; mk_pdi(&s); g_error = 0;
  __CPROVER_assume(s.view_mashing_factor == 1);
  struct Bin b, b2; struct DPP dp;
  b.segment_num = nondet_int(); b.axial_pos_num = nondet_int(); b.view_num = nondet_int(); b.tangential_pos_num = nondet_int(); b.timing_pos_num = nondet_int();
  const int n = s.num_detectors_per_ring;
  __CPROVER_assume(BIN_VT_OK(&s, &b) && b.timing_pos_num > -1024 && b.timing_pos_num < 1024 && (s.tof_mash_factor > 0 || b.timing_pos_num == 0));
  __CPROVER_assume(SPEC_DET1(b.view_num, b.tangential_pos_num, n) != SPEC_DET2(b.view_num, b.tangential_pos_num, n));
  K_get_det_pos_pair_for_bin(&s, &dp, &b);
  __CPROVER_assume(!g_error && g_sa_r1 < (1 << 20) && g_sa_r2 < (1 << 20)); /* ring numbers of real scanners */
  const int r1 = g_sa_r1, r2 = g_sa_r2;
  ghost_cell2_for(&s, (int)dp.p1_tang, (int)dp.p2_tang);
  K_get_bin_for_det_pos_pair(&s, &b2, &dp);
  __CPROVER_assert(!g_error, "no error with initialised tables");
  __CPROVER_assert(b2.view_num == b.view_num && b2.tangential_pos_num == b.tangential_pos_num, "round trip: view and tangential position");
  __CPROVER_assert(b2.timing_pos_num == b.timing_pos_num, "round trip: TOF index (sign carried by the order of the pair)");
  __CPROVER_assert(g_rp_r1 == r1 && g_rp_r2 == r2, "round trip: the bin's own ring pair, in its own order, is mapped back to (segment, axial position)");
#ifdef LEMMA_CANARY
  __CPROVER_assert(0, "vacuity canary");
#endif
}
