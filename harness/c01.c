/* Harnesses for C01. */
#include "contracts/c01.h"
#include "canary.h"
#include "K_init_vt2d.c"
#include "K_init_d2vt.c"
#include "K_init_vt2d_if_not_done_yet.c"
#include "K_init_d2vt_if_not_done_yet.c"
#include "K_get_det_num_pair_for_vt.c"
#include "K_get_vt_for_det_num_pair.c"
#include "K_get_bin_for_det_pair.c"
#include "K_round_float.c"
#include "K_get_bin_for_det_pos_pair.c"
#include "K_get_det_pair_for_bin.c"
#include "K_get_det_pos_pair_for_bin.c"
#include "K_get_num_det_pos_pairs_for_bin.c"
#include "K_get_all_det_pos_pairs_for_bin.c"
#include "K_cti_segments.c"
#include "K_rda_m_offset.c"
#include "K_rda_ax_offset.c"
#include "K_rda_rpr.c"
#include "K_rda_fill_rd2seg.c"
#include "K_pdic_ctor_swap.c"
#include "K_rda_check.c"
#include "K_get_num_axial_poss_per_ring_inc.c"
#include "K_get_segment_num_for_ring_difference.c"
#include "K_get_segment_axial_pos_num_for_ring_pair.c"
#include "K_compute_segment_axial_pos_to_ring_pair.c"
#include "K_get_ring_pair_for_segment_axial_pos_num.c"

static void ghosts1(void)
{
  g_error = 0; g_v = nondet_int(); g_tp = nondet_int();
  g_w1_det1_num = 0; g_w1_det2_num = 0; g_i1_grown = 0;
  g_o1_lo = nondet_int(); g_o1_hi = nondet_int(); g_i1_lo = nondet_int(); g_i1_hi = nondet_int();
  g_cell1.det1_num = nondet_int(); g_cell1.det2_num = nondet_int();
}
static void ghosts2(void)
{
  g_error = 0; g_d1 = nondet_int(); g_d2 = nondet_int();
  g_w2_view_num = 0; g_w2_tang_pos_num = 0; g_w2_swap_detectors = 0; g_i2_grown = 0;
  g_o2_lo = nondet_int(); g_o2_hi = nondet_int(); g_i2_lo = nondet_int(); g_i2_hi = nondet_int();
  g_cell2.view_num = nondet_int(); g_cell2.tang_pos_num = nondet_int(); g_cell2.swap_detectors = nondet_bool();
}
void h_K_init_vt2d(void) { struct PDI1* s; ghosts1(); K_init_vt2d(s); }
void h_K_init_d2vt(void) { struct PDI1* s; ghosts2(); K_init_d2vt(s); }

static void ghost_cell2(void)
{
  g_error = 0; g_d1 = nondet_int(); g_d2 = nondet_int();
  g_cell2.view_num = nondet_int(); g_cell2.tang_pos_num = nondet_int(); g_cell2.swap_detectors = nondet_bool();
}
void h_K_init_vt2d_if_not_done_yet(void) { struct PDI1* s; g_error = 0; K_init_vt2d_if_not_done_yet(s); }
void h_K_init_d2vt_if_not_done_yet(void) { struct PDI1* s; g_error = 0; K_init_d2vt_if_not_done_yet(s); }
void h_K_get_det_num_pair_for_vt(void) { struct PDI1* s; int *a, *b; g_error = 0; K_get_det_num_pair_for_vt(s, a, b, nondet_int(), nondet_int()); }
void h_K_get_vt_for_det_num_pair(void) { struct PDI1* s; int *a, *b; ghost_cell2(); K_get_vt_for_det_num_pair(s, a, b, nondet_int(), nondet_int()); }
void h_K_get_bin_for_det_pair(void) { struct PDI1* s; struct Bin* b; ghost_cell2(); K_get_bin_for_det_pair(s, b, nondet_int(), nondet_int(), nondet_int(), nondet_int(), nondet_int()); }
void h_K_round_float(void) { K_round_float(nondet_float()); }
void h_K_get_bin_for_det_pos_pair(void) { struct PDI1* s; struct Bin* b; struct DPP* d; ghost_cell2(); K_get_bin_for_det_pos_pair(s, b, d); }
void h_K_get_det_pair_for_bin(void) { struct PDI1* s; struct Bin* b; int *p, *q, *r, *t; g_error = 0; K_get_det_pair_for_bin(s, p, q, r, t, b); }
void h_K_get_det_pos_pair_for_bin(void) { struct PDI1* s; struct Bin* b; struct DPP* d; g_error = 0; K_get_det_pos_pair_for_bin(s, d, b); }

/* Lemma over the SPECIFICATION of table 1 (the postcondition of K_init_vt2d) and the CONTRACT of table 2
   (INV_OK, the postcondition of K_init_d2vt): for uncompressed data bin->pair and pair->bin are mutual inverses, and
   exchanging the two detectors gives the same bin with the opposite orientation flag. */
void h_lemma_inverse(void)
{
#ifdef C01_N
  const int n = C01_N;
#else
  const int n = nondet_int();
  __CPROVER_assume(N_OK(n));
#endif
  int v = nondet_int(), t = nondet_int(), v2 = nondet_int(), t2 = nondet_int();
  __CPROVER_assume(VT_IN_TABLE(v, t, n) && VT_IN_TABLE(v2, t2, n));
  const int a = SPEC_DET1(v, t, n), b = SPEC_DET2(v, t, n);
  __CPROVER_assert(a >= 0 && a < n && b >= 0 && b < n, "every bin's detectors are detectors of the ring");
  const int a2 = SPEC_DET1(v2, t2, n), b2 = SPEC_DET2(v2, t2, n);
  if (a != b)
    {
      __CPROVER_assert(!(a2 == a && b2 == b) || (v2 == v && t2 == t), "a detector pair is assigned to at most one bin");
      __CPROVER_assert(!(a2 == b && b2 == a), "the exchanged pair is not assigned to any bin of its own");
      /* any table-2 cell that satisfies K_init_d2vt's contract for (a,b) is exactly (v,t,not exchanged) ... */
      struct VTS c; c.view_num = nondet_int(); c.tang_pos_num = nondet_int(); c.swap_detectors = nondet_bool();
      __CPROVER_assume(INV_OK(c, a, b, n));
      __CPROVER_assert(c.view_num == v && c.tang_pos_num == t && c.swap_detectors, "bin -> pair -> bin is the identity");
      /* ... and for (b,a) it is (v,t,exchanged): same spatial bin */
      struct VTS d; d.view_num = nondet_int(); d.tang_pos_num = nondet_int(); d.swap_detectors = nondet_bool();
      __CPROVER_assume(INV_OK(d, b, a, n));
      __CPROVER_assert(d.view_num == v && d.tang_pos_num == t && !d.swap_detectors, "exchanging the detectors gives the same bin, flagged as exchanged");
    }
#ifdef LEMMA_CANARY
  __CPROVER_assert(0, "vacuity canary");
#endif
}

/* ---------- lemmas at the API level, over the CONTRACTS of the kernels (calls are replaced by contracts) ---------- */
static void mk_pdi(struct PDI1* s)
{
  s->num_detectors_per_ring = nondet_int(); s->min_tangential_pos_num = nondet_int(); s->max_tangential_pos_num = nondet_int();
  s->min_view_num = 0; s->max_view_num = nondet_int(); s->view_mashing_factor = nondet_int(); s->tof_mash_factor = nondet_int();
  s->tab1_initialised = 1; s->tab2_initialised = 1;
  __CPROVER_assume(PDI1_BASIC(s) && MASH_OK(s) && !TANG_TOO_LARGE(s) && s->tof_mash_factor >= 0 && s->tof_mash_factor < 1024);
}
static void ghost_cell2_for(const struct PDI1* s, int d1, int d2)
{
  g_d1 = d1; g_d2 = d2;
  g_cell2.view_num = nondet_int(); g_cell2.tang_pos_num = nondet_int(); g_cell2.swap_detectors = nondet_bool();
  __CPROVER_assume(INV_OK(g_cell2, d1, d2, s->num_detectors_per_ring)); /* = postcondition of K_init_d2vt for this cell */
}
/* "exchanging the two detectors gives the same spatial bin with the TOF index negated" (any view mashing) */
void h_lemma_exchange(void)
{
  struct PDI1 s; mk_pdi(&s); g_error = 0;
  int d1 = nondet_int(), d2 = nondet_int(), r1 = nondet_int(), r2 = nondet_int(), t = nondet_int();
  __CPROVER_assume(D12_OK(&s, d1, d2) && TOF_IN_DOMAIN(t));
  struct Bin b1, b2;
  ghost_cell2_for(&s, d1, d2);
  int ok1 = K_get_bin_for_det_pair(&s, &b1, d1, r1, d2, r2, t);
  const int q1a = g_rp_r1, q1b = g_rp_r2;
  ghost_cell2_for(&s, d2, d1);
  int ok2 = K_get_bin_for_det_pair(&s, &b2, d2, r2, d1, r1, t);
  __CPROVER_assert(!g_error, "no error with initialised tables");
  __CPROVER_assert(b1.view_num == b2.view_num && b1.tangential_pos_num == b2.tangential_pos_num, "exchanged pair: same view and tangential position");
  __CPROVER_assert(b1.timing_pos_num == -b2.timing_pos_num, "exchanged pair: TOF index negated");
  __CPROVER_assert(q1a == g_rp_r1 && q1b == g_rp_r2, "exchanged pair: the same ordered ring pair is looked up, hence the same segment and axial position");
#ifdef LEMMA_CANARY
  __CPROVER_assert(0, "vacuity canary");
#endif
}
/* uncompressed data: bin -> detection position pair -> bin is the identity (for bins whose two detectors differ) */
void h_lemma_roundtrip(void)
{
  struct PDI1 s; mk_pdi(&s); g_error = 0;
  __CPROVER_assume(s.view_mashing_factor == 1);
  struct Bin b, b2; struct DPP dp;
  b.segment_num = nondet_int(); b.axial_pos_num = nondet_int(); b.view_num = nondet_int(); b.tangential_pos_num = nondet_int(); b.timing_pos_num = nondet_int();
  const int n = s.num_detectors_per_ring;
  __CPROVER_assume(BIN_VT_OK(&s, &b) && b.timing_pos_num > -1024 && b.timing_pos_num < 1024 && (s.tof_mash_factor > 0 || b.timing_pos_num == 0));
  __CPROVER_assume(SPEC_DET1(b.view_num, b.tangential_pos_num, n) != SPEC_DET2(b.view_num, b.tangential_pos_num, n));
  K_get_det_pos_pair_for_bin(&s, &dp, &b);
  __CPROVER_assume(!g_error && g_sa_r1 < (1 << 20) && g_sa_r2 < (1 << 20)); /* ring numbers of real scanners */
  const int r1 = g_sa_r1, r2 = g_sa_r2;
  ghost_cell2_for(&s, (int)dp.p1_tang, (int)dp.p2_tang);
  K_get_bin_for_det_pos_pair(&s, &b2, &dp);
  __CPROVER_assert(!g_error, "no error with initialised tables");
  __CPROVER_assert(b2.view_num == b.view_num && b2.tangential_pos_num == b.tangential_pos_num, "round trip: view and tangential position");
  __CPROVER_assert(b2.timing_pos_num == b.timing_pos_num, "round trip: TOF index (sign carried by the order of the pair)");
  __CPROVER_assert(g_rp_r1 == r1 && g_rp_r2 == r2, "round trip: the bin's own ring pair, in its own order, is mapped back to (segment, axial position)");
#ifdef LEMMA_CANARY
  __CPROVER_assert(0, "vacuity canary");
#endif
}

/* ---------- ring pairs ---------- */
static void ghosts_ring(void) { g_error = 0; g_s = nondet_int(); g_s2 = nondet_int(); g_r1 = nondet_int(); g_r2 = nondet_int(); g_rp_count_ghost = 0; g_rp_pushed = 0; g_rp_reserved = 0; }
void h_K_get_num_axial_poss_per_ring_inc(void) { struct PDI2* s; ghosts_ring(); K_get_num_axial_poss_per_ring_inc(s, nondet_int()); }
void h_K_get_segment_num_for_ring_difference(void) { struct PDI2* s; int* p; ghosts_ring(); K_get_segment_num_for_ring_difference(s, p, nondet_int()); }
void h_K_get_segment_axial_pos_num_for_ring_pair(void) { struct PDI2* s; int *p, *q; ghosts_ring(); K_get_segment_axial_pos_num_for_ring_pair(s, p, q, nondet_int(), nondet_int()); }
void h_K_compute_segment_axial_pos_to_ring_pair(void) { struct PDI2* s; ghosts_ring(); K_compute_segment_axial_pos_to_ring_pair(s, nondet_int(), nondet_int()); }
void h_K_get_ring_pair_for_segment_axial_pos_num(void) { struct PDI2* s; int *p, *q; ghosts_ring(); K_get_ring_pair_for_segment_axial_pos_num(s, p, q, nondet_int(), nondet_int()); }

static void mk_pdi2(struct PDI2* p)
{
  p->min_seg = nondet_int(); p->max_seg = nondet_int(); p->num_rings = nondet_int();
  p->sampling_corresponds_to_physical_rings = 1; p->ring_diff_arrays_computed = 1;
  for (int i = 0; i < MAXSEGS; ++i) { p->min_ring_diff[i] = nondet_short(); p->max_ring_diff[i] = nondet_short(); p->ax_pos_num_offset[i] = nondet_short(); }
}
/* Lemma (over the contracts of get_segment_axial_pos_num_for_ring_pair and compute_segment_axial_pos_to_ring_pair):
   a ring pair whose ring difference is covered lies in the list of the (segment, axial position) it is mapped to, and in
   the list of no other (segment', axial position'). */
void h_lemma_ring_partition(void)
{
  struct PDI2 p; mk_pdi2(&p); ghosts_ring();
  int r1 = nondet_int(), r2 = nondet_int(), seg, ax;
  __CPROVER_assume(PDI2_VALID(&p) && RING_OK(&p, r1) && RING_OK(&p, r2));
  __CPROVER_assume(SEG_OK(&p, g_s) && RD_IN(&p, g_s, r2 - r1) && PARITY_OK(&p, g_s)); /* the ring difference is covered (by segment g_s) */
  int ok = K_get_segment_axial_pos_num_for_ring_pair(&p, &seg, &ax, r1, r2);
  __CPROVER_assert(!g_error && ok == 1 && seg == g_s, "a covered ring pair is assigned to the segment covering its ring difference");
  /* membership in a list is PAIR_BELONGS (postcondition of compute_segment_axial_pos_to_ring_pair, ghost pair = (r1,r2)) */
  __CPROVER_assert(PAIR_BELONGS(&p, seg, ax, r1, r2), "the pair is in the list of its own (segment, axial position)");
  int seg2 = g_s2, ax2 = nondet_int();
  __CPROVER_assume(SEG_OK(&p, seg2) && ax2 > -50000 && ax2 < 50000);
  __CPROVER_assert(!PAIR_BELONGS(&p, seg2, ax2, r1, r2) || (seg2 == seg && ax2 == ax), "and in the list of no other (segment, axial position)");
#ifdef LEMMA_CANARY
  __CPROVER_assert(0, "vacuity canary");
#endif
}
/* span-1 segments: (segment, axial position) -> ring pair -> (segment, axial position) is the identity */
void h_lemma_ring_inverse(void)
{
  struct PDI2 p; mk_pdi2(&p); ghosts_ring();
  int seg = g_s, ax = nondet_int(), r1, r2, seg2, ax2;
  __CPROVER_assume(PDI2_VALID(&p) && SEG_OK(&p, seg) && PARITY_OK(&p, seg) && ax > -10000 && ax < 10000);
  K_get_ring_pair_for_segment_axial_pos_num(&p, &r1, &r2, seg, ax);
  __CPROVER_assume(!g_error && RING_OK(&p, r1) && RING_OK(&p, r2)); /* the axial position exists in the scanner */
  int ok = K_get_segment_axial_pos_num_for_ring_pair(&p, &seg2, &ax2, r1, r2);
  __CPROVER_assert(!g_error && ok == 1 && seg2 == seg && ax2 == ax, "ring pair of a (segment, axial position) maps back to it");
#ifdef LEMMA_CANARY
  __CPROVER_assert(0, "vacuity canary");
#endif
}

/* ---------- get_all_det_pos_pairs_for_bin ---------- */
static void ghosts_dps(void)
{
  g_error = 0; g_nrp = nondet_int(); g_j = nondet_int(); g_jfirst = nondet_int(); g_jsecond = nondet_int(); g_rpl_seg = nondet_int(); g_rpl_ax = nondet_int();
  g_i = nondet_int(); g_l = nondet_int(); g_k = nondet_ulong(); g_dps_size = nondet_ulong(); g_dps_resized = 0;
  g_wd_p1_tang = 0; g_wd_p1_axial = 0; g_wd_p2_tang = 0; g_wd_p2_axial = 0; g_wd_timing_pos = 0;
}
void h_K_get_num_det_pos_pairs_for_bin(void) { struct PDI1* s; struct Bin* b; ghosts_dps(); K_get_num_det_pos_pairs_for_bin(s, b, nondet_bool()); }
void h_K_get_all_det_pos_pairs_for_bin(void) { struct PDI1* s; struct Bin* b; ghosts_dps(); K_get_all_det_pos_pairs_for_bin(s, b, nondet_bool()); }

/* ---------- ProjDataInfoCTI: span -> segments ---------- */
void h_K_cti_segments(void)
{
  g_s = nondet_int(); g_s2 = nondet_int(); g_v = nondet_int(); g_tp = nondet_int(); g_out_ranges = 0; g_out_lo = nondet_int(); g_out_hi = nondet_int();
  g_o1.w_min_ring_difference = 0; g_o1.w_max_ring_difference = 0; g_o1.w_num_axial_pos_per_segment = 0;
  g_o2.w_min_ring_difference = 0; g_o2.w_max_ring_difference = 0; g_o2.w_num_axial_pos_per_segment = 0;
  K_cti_segments(nondet_int(), nondet_int(), nondet_int());
}

/* ---------- the float block of initialise_ring_diff_arrays: composition of the three real statements ---------- */
#ifndef RPR_MAXR
#define RPR_MAXR 128
#define RPR_MAXAX 256
#endif
void h_lemma_rpr(void)
{
  int min_ax = nondet_int(), max_ax = nondet_int(), inc = nondet_int(), num_rings = nondet_int(), ax = nondet_int();
#ifdef C01_SPACING
  const float ring_spacing = C01_SPACING;
#else
  float ring_spacing = nondet_float();
#endif
  __CPROVER_assume(inc >= 1 && inc <= 2 && num_rings >= 1 && num_rings <= RPR_MAXR && min_ax >= 0 && min_ax <= max_ax && max_ax < RPR_MAXAX && ax >= min_ax && ax <= max_ax);
  __CPROVER_assume(ring_spacing >= 0.1f && ring_spacing <= 100.f);
  __CPROVER_assume((max_ax + min_ax) % inc == 0); /* the code's own integrality test (error() otherwise for cylindrical scanners) */
  const float m = K_rda_m_offset(min_ax, max_ax, ring_spacing, inc);
  const int off = K_rda_ax_offset(num_rings, m, ring_spacing);
  const int rpr = K_rda_rpr(ax, inc, m, ring_spacing, num_rings);
  __CPROVER_assert(off == num_rings - 1 - (max_ax + min_ax) / inc, "ax_pos_num_offset is the exact integer num_rings - 1 - (max_ax + min_ax) / inc");
  __CPROVER_assert(rpr == 2 * ax / inc + off, "ring1_plus_ring2 of an axial position is 2*ax/inc + ax_pos_num_offset (reader contract SPEC_RPR)");
#ifdef LEMMA_CANARY
  __CPROVER_assert(0, "vacuity canary");
#endif
}

void h_K_rda_fill_rd2seg(void)
{
  struct PDI2* p;
  g_s = nondet_int(); g_s2 = nondet_int(); g_rd = nondet_int(); g_tab = nondet_int(); g_tab_lo = nondet_int(); g_tab_hi = nondet_int(); g_tab_writes = 0;
  K_rda_fill_rd2seg(p);
}

/* the fill loops' postcondition + disjoint intervals (class invariant, instance for the entry and g_s) = the reader contract
   RD2SEG_READ that the ring-pair kernels assume */
void h_lemma_rd2seg(void)
{
  struct PDI2 pv; struct PDI2* p = &pv; mk_pdi2(p);
  g_s = nondet_int(); g_s2 = nondet_int(); g_rd = nondet_int(); g_tab = nondet_int(); g_tab_lo = nondet_int(); g_tab_hi = nondet_int(); g_tab_writes = 0;
  __CPROVER_assume(PDI2_VALID(p) && g_rd > -100000 && g_rd < 100000);
  K_rda_fill_rd2seg(p);
  __CPROVER_assume(!(SEG_OK(p, g_tab) && SEG_OK(p, g_s) && g_tab < g_s) || RDMAX(p, g_tab) < RDMIN(p, g_s));
  if (g_rd >= RDTAB_LO(p) && g_rd <= RDTAB_HI(p))
    {
      __CPROVER_assert(g_rd >= g_tab_lo && g_rd <= g_tab_hi, "every ring difference the readers may ask for is inside the table");
      __CPROVER_assert(g_tab >= p->min_seg && g_tab <= p->max_seg + 1, "entry is a segment number or the impossible value");
      __CPROVER_assert(!(g_tab <= p->max_seg) || RD_IN(p, g_tab, g_rd), "the entry's interval contains the ring difference");
      __CPROVER_assert(!(SEG_OK(p, g_s) && RD_IN(p, g_s, g_rd)) || g_tab == g_s, "a ring difference inside a segment's interval is mapped to that segment");
    }
#ifdef LEMMA_CANARY
  __CPROVER_assert(0, "vacuity canary");
#endif
}

void h_K_pdic_ctor_swap(void)
{
  struct PDI2* p;
  g_s = nondet_int(); g_old_min = nondet_int(); g_old_max = nondet_int();
  K_pdic_ctor_swap(p);
}
void h_K_rda_check(void) { struct PDI2* p; g_s = nondet_int(); g_error = 0; K_rda_check(p); }
