/* Harness for C11 part 2 (Array<n>::is_contiguous). */
#include "contracts/c11b.h"
#include "canary.h"
#include "K_arr_is_contiguous.c"
void h_K_arr_is_contiguous(void) { struct ARRN* a; K_arr_is_contiguous(a); }
#include "K_arrn_init.c"
#include "K_arrn_resize.c"
void h_K_arrn_init(void) { struct ARRN* a; struct RANGEN* r; K_arrn_init(a, r, nondet_long(), nondet_bool()); }
void h_K_arrn_resize(void) { struct ARRN* a; struct RANGEN* r; g_k = nondet_int(); g_sub_calls = 0; g_sub_bad = 0; K_arrn_resize(a, r); }
