/* Harness for C11 part 2 (Array<n>::is_contiguous). */
#include "contracts/c11b.h"
#include "canary.h"
#include "K_arr_is_contiguous.c"
void h_K_arr_is_contiguous(void) { struct ARRN* a; K_arr_is_contiguous(a); }
