/* Harnesses for C08. */
#include "contracts/c08.h"
#include "canary.h"
#include "K_threshold_upper_lower.c"
#include "K_threshold_upper.c"
#include "K_threshold_lower.c"
#include "K_min_positive_element.c"
#include "K_threshold_min_to_small_positive_value.c"
#include "K_relaxation.c"
#include "K_ossps_clamp_tail.c"

static float* mk_seq(long* n)
{
  unsigned len = nondet_unsigned();
  __CPROVER_assume(len <= C08_MAXLEN);
  *n = len;
  float* p = (float*)malloc((size_t)len * sizeof(float));
  g_j = nondet_long();
  g_old = nondet_float();
  if (0 <= g_j && g_j < len) { __CPROVER_assume(p[g_j] == g_old); }
  return p;
}
void h_K_threshold_upper_lower(void) { long n; float* p = mk_seq(&n); K_threshold_upper_lower(p, p + n, nondet_float(), nondet_float()); }
void h_K_threshold_upper(void) { long n; float* p = mk_seq(&n); K_threshold_upper(p, p + n, nondet_float()); }
void h_K_threshold_lower(void) { long n; float* p = mk_seq(&n); K_threshold_lower(p, p + n, nondet_float()); }
/* BOUNDED stand-in (sequence length <= 6, real bodies, loops unwound): after threshold_min_to_small_positive_value every
   element of a NaN-free sequence is strictly positive ("D the strictly positive precomputed curvature") and positive
   elements are unchanged */
#define BN 6
void h_bounded_positive_denominator(void)
{
  float a[BN], old[BN];
  unsigned n = nondet_unsigned();
  __CPROVER_assume(n <= BN);
  for (unsigned i = 0; i < BN; ++i)
    {
      a[i] = nondet_float();
      __CPROVER_assume(NOT_NAN(a[i]) && (a[i] <= 0 || a[i] >= C08_MINPOS) && a[i] <= FLT_MAX);
      old[i] = a[i];
    }
  g_start0 = a; g_j = -1;
  K_threshold_min_to_small_positive_value(a, a + n, 10.E-6F);
  for (unsigned i = 0; i < BN; ++i)
    if (i < n)
      {
        __CPROVER_assert(a[i] > 0, "every element of the thresholded denominator is strictly positive");
        __CPROVER_assert(!(old[i] > 0) || a[i] == old[i], "strictly positive elements are unchanged");
      }
}
void h_K_ossps_clamp_tail(void) { long n; float* p = mk_seq(&n); K_ossps_clamp_tail(p, p + n, nondet_double()); }
void h_K_relaxation(void) { K_relaxation(nondet_int(), nondet_int(), nondet_int()); }

/* ---- one-voxel additive update ---- */
#include "K_ossps_update_voxel.c"
void h_K_ossps_update_voxel(void)
{
  g_nops = 0; g_relax_calls = 0;
  V_numerator_ptr = nondet_float(); V_precomputed_denominator_ptr = nondet_float(); V_current_image_estimate = nondet_float();
  g_G = V_numerator_ptr; g_P = V_precomputed_denominator_ptr; g_X = V_current_image_estimate;
  K_ossps_update_voxel(nondet_bool(), nondet_bool(), nondet_int(), nondet_int(), nondet_int(), nondet_bool());
}
