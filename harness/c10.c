/* Harnesses for C10. */
#include "contracts/c10.h"
#include "canary.h"
#include "K_round_float.c"
/* the overload set round(): *in_iter / scale_factor is a float, so stir::round(float) is selected */
#define K_round_value(x) K_round_float(x)
#include "K_find_scale_factor.c"
#include "K_convert_elem.c"

void h_K_find_scale_factor(void) { float* s; K_find_scale_factor(s, nondet_float(), nondet_float()); }
void h_K_round_float(void) { K_round_float(nondet_float()); }

/* Composition of the REAL bodies (nothing replaced; loop-free; every float bit pattern of mx, mn, x in the domain):
   (a) C10_ACC undefined: "never overflows the chosen type" = the float->int and int->OUT_T conversion checks inside
       stir::round and the static_cast; (b) C10_ACC defined: additionally the read-back accuracy */
void h_lemma_real(void)
{
  float mx = nondet_float(), mn = nondet_float(), x = nondet_float();
  __CPROVER_assume(FINITE_F(mx) && FINITE_F(mn) && FINITE_F(x) && mn <= x && x <= mx && DOMAIN(mx, mn));
  float scale = nondet_float(); /* 0 (automatic) or a preferred positive factor */
  __CPROVER_assume(scale >= 0 && scale <= FLT_MAX);
  K_find_scale_factor(&scale, mx, mn);
  if (scale > 0)
    {
      OUT_T out;
      K_convert_elem(&out, x, scale);
      if (!OUT_SIGNED && x < 0)
        __CPROVER_assert(out == 0, "negative value written to an unsigned type becomes 0");
#ifdef C10_ACC
      if (!(!OUT_SIGNED && x < 0))
        __CPROVER_assert(ABSD((double)out * (double)scale - (double)x) <= 0.5 * (double)scale * 1.000001 + ABSD((double)x) * 2.4e-7,
                         "value read back within half a quantisation step (+ float rounding of the quotient)");
#endif
    }
#ifdef LEMMA_CANARY
  __CPROVER_assert(0, "vacuity canary");
#endif
}

/* ---- radionuclide of the Interfile reader ---- */
#include "K_radionuclide_ctor.c"
#include "K_ifh_radionuclide.c"
void h_K_radionuclide_ctor(void) { struct RN r; K_radionuclide_ctor(&r, nondet_int(), nondet_float(), nondet_float(), nondet_float(), nondet_int()); }
void h_K_ifh_radionuclide(void)
{
  struct IFH* s;
  g_db.name = nondet_int(); g_db.energy = nondet_float(); g_db.branching_ratio = nondet_float(); g_db.half_life = nondet_float(); g_db.modality = nondet_int();
  K_ifh_radionuclide(s, nondet_bool());
}
