/* Harnesses for C10. */
#include "contracts/c10.h"
#include "canary.h"
#include "K_round_float.c"
/* the overload set round(): *in_iter / scale_factor is a float, so stir::round(float) is selected */
#define K_round_value(x) K_round_float(x)
#include "K_find_scale_factor.c"
#include "K_convert_elem.c"

void h_K_find_scale_factor(void) { float* s; K_find_scale_factor(s, nondet_float(), nondet_float()); }
void h_K_round_float(void) { K_round_float(nondet_float()); }

/* Composition of the REAL bodies (nothing replaced; loop-free; every float bit pattern of mx, mn, x in the domain):
   (a) C10_ACC undefined: "never overflows the chosen type" = the float->int and int->OUT_T conversion checks inside
       stir::round and the static_cast; (b) C10_ACC defined: additionally the read-back accuracy */
void h_lemma_real(void)
{
  float mx = nondet_float(), mn = nondet_float(), x = nondet_float();
  __CPROVER_assume(FINITE_F(mx) && FINITE_F(mn) && FINITE_F(x) && mn <= x && x <= mx && DOMAIN(mx, mn));
  float scale = nondet_float(); /* 0 (automatic) or a preferred positive factor */
  __CPROVER_assume(scale >= 0 && scale <= FLT_MAX);
  K_find_scale_factor(&scale, mx, mn);
  if (scale > 0)
    {
      OUT_T out;
      K_convert_elem(&out, x, scale);
      if (!OUT_SIGNED && x < 0)
        __CPROVER_assert(out == 0, "negative value written to an unsigned type becomes 0");
#ifdef C10_ACC
      if (!(!OUT_SIGNED && x < 0))
        __CPROVER_assert(ABSD((double)out * (double)scale - (double)x) <= 0.5 * (double)scale * 1.000001 + ABSD((double)x) * 2.4e-7,
                         "value read back within half a quantisation step (+ float rounding of the quotient)");
#endif
    }
#ifdef LEMMA_CANARY
  __CPROVER_assert(0, "vacuity canary");
#endif
}

/* ---- radionuclide of the Interfile reader ---- */
#include "K_radionuclide_ctor.c"
#include "K_ifh_radionuclide.c"
void h_K_radionuclide_ctor(void) { struct RN r; K_radionuclide_ctor(&r, nondet_int(), nondet_float(), nondet_float(), nondet_float(), nondet_int()); }
void h_K_ifh_radionuclide(void)
{
  struct IFH* s;
  g_db.name = nondet_int(); g_db.energy = nondet_float(); g_db.branching_ratio = nondet_float(); g_db.half_life = nondet_float(); g_db.modality = nondet_int();
  K_ifh_radionuclide(s, nondet_bool());
}

/* ---- radionuclide: writer, key table, round trip ---- */
#include "K_write_rn_info.c"
#include "K_ifh_rn_keys.c"
static void emit_zero(void) { for (int k = 0; k < KEY_COUNT; ++k) { g_emit_count[k] = 0; g_emit_value[k] = nondet_float(); g_bind[k] = nondet_int(); } g_emit_name = nondet_int(); }
void h_K_write_rn_info(void) { struct RN* r; emit_zero(); K_write_rn_info(r); }
void h_K_ifh_rn_keys(void) { emit_zero(); K_ifh_rn_keys(); }
/* a nuclide that the data base does not know, with name, half life and branching ratio set: written, parsed (TRUSTED: the value
   emitted under key k lands in the member bound to k; header defaults are -1 and the empty name) and post-processed, it comes
   back with the same name, half life and branching ratio */
void h_lemma_rn_roundtrip(void)
{
  struct RN w; struct IFH h;
  w.name = nondet_int(); w.energy = 511.F; w.branching_ratio = nondet_float(); w.half_life = nondet_float(); w.modality = nondet_int();
  __CPROVER_assume(w.name != NAME_EMPTY && w.name != NAME_UNKNOWN && w.half_life > 0 && w.branching_ratio > 0 && RN_NOT_NAN(w));
  emit_zero();
  K_write_rn_info(&w);
  K_ifh_rn_keys();
  /* the parser (trusted) */
  h.radionuclide_name0 = NAME_EMPTY; h.isotope_name = NAME_EMPTY; h.radionuclide_half_life_0 = -1.F; h.radionuclide_branching_ratio_0 = -1.F; h.imaging_modality = w.modality;
  for (int k = 1; k < KEY_COUNT; ++k)
    if (g_emit_count[k] == 1)
      {
        if (g_bind[k] == MEMBER_radionuclide_name) h.radionuclide_name0 = g_emit_name;
        if (g_bind[k] == MEMBER_radionuclide_half_life) h.radionuclide_half_life_0 = g_emit_value[k];
        if (g_bind[k] == MEMBER_radionuclide_branching_ratio) h.radionuclide_branching_ratio_0 = g_emit_value[k];
      }
  g_db.name = w.name; g_db.energy = -1.F; g_db.branching_ratio = -1.F; g_db.half_life = -1.F; g_db.modality = w.modality; /* not in the data base */
  K_ifh_radionuclide(&h, 0);
  __CPROVER_assert(h.exam_radionuclide.name == w.name, "radionuclide name survives the round trip");
  __CPROVER_assert(h.exam_radionuclide.half_life == w.half_life, "half life survives the round trip");
  __CPROVER_assert(h.exam_radionuclide.branching_ratio == w.branching_ratio, "branching ratio survives the round trip");
#ifdef LEMMA_CANARY
  __CPROVER_assert(0, "vacuity canary");
#endif
}

/* ---- byte order ---- */
#include "K_rd_conv.c"
#include "K_rd_recurse.c"
static void bo_ghosts(void) { g_inner_calls = 0; g_inner_wrong = 0; g_caller_bo = nondet_int(); g_same_type = nondet_bool(); g_contiguous = nondet_bool(); }
void h_K_rd_conv(void) { float* f; bo_ghosts(); K_rd_conv(f, nondet_int()); }
void h_K_rd_recurse(void) { bo_ghosts(); K_rd_recurse(nondet_int(), nondet_int()); }
#include "K_wr_fixed_1d.c"
#include "K_wr_fixed_recurse.c"
void h_K_wr_fixed_1d(void) { bo_ghosts(); K_wr_fixed_1d(nondet_float(), nondet_int(), nondet_bool()); }
void h_K_wr_fixed_recurse(void) { bo_ghosts(); K_wr_fixed_recurse(nondet_int(), nondet_float(), nondet_int(), nondet_bool()); }
