/* Harness for C02 part C: SegmentBySinogram <-> SegmentByView conversions. */
#include "contracts/c02c.h"
#include "canary.h"
#include "K_sbs_get_viewgram.c"
#include "K_sbv_get_sinogram.c"
#include "K_sbv_ctor_loop.c"
#include "K_sbs_ctor_loop.c"
static void gh(void) { g_i = nondet_int(); g_o = nondet_int(); g_pre_lo = nondet_int(); g_pre_hi = nondet_int(); g_pre_writes = 0; g_calls = 0; g_bad = 0; }
void h_K_sbs_get_viewgram(void) { struct SEG* s; gh(); K_sbs_get_viewgram(s, nondet_int()); }
void h_K_sbv_get_sinogram(void) { struct SEG* s; gh(); K_sbv_get_sinogram(s, nondet_int()); }
void h_K_sbv_ctor_loop(void) { struct SEG* s; gh(); K_sbv_ctor_loop(s); }
void h_K_sbs_ctor_loop(void) { struct SEG* s; gh(); K_sbs_ctor_loop(s); }
