/* Harnesses for C20. */
#include "contracts/c20.h"
#include "canary.h"
#define CONTRACT_K_fan_select_nc CONTRACT_K_fan_select
#define K_CANARY_K_fan_select_nc
#include "K_fan_select.c"
#include "K_fan_select_nc.c"
#include "K_fan_is_in_data.c"
#include "K_remove_gaps_map.c"
#include "K_add_gaps_map.c"

void h_K_fan_is_in_data(void) { struct FAN* s; K_fan_is_in_data(s, nondet_int(), nondet_int(), nondet_int(), nondet_int()); }
void h_K_fan_select(void) { struct FAN* s; g_cells = 0; K_fan_select(s, nondet_int(), nondet_int(), nondet_int(), nondet_int()); }
void h_K_fan_select_nc(void) { struct FAN* s; g_cells = 0; K_fan_select_nc(s, nondet_int(), nondet_int(), nondet_int(), nondet_int()); }
#define GAPARGS nondet_int(), nondet_int(), nondet_int(), nondet_int(), nondet_int(), nondet_int(), nondet_int(), nondet_int(), nondet_int(), nondet_int()
void h_K_remove_gaps_map(void) { int *p, *q, *r, *t; K_remove_gaps_map(GAPARGS, p, q, r, t); }
void h_K_add_gaps_map(void) { int *p, *q, *r, *t; K_add_gaps_map(GAPARGS, p, q, r, t); }

static void mk_fan(struct FAN* s)
{
  s->num_rings = nondet_int(); s->num_detectors_per_ring = nondet_int(); s->max_ring_diff = nondet_int(); s->half_fan_size = nondet_int();
  __CPROVER_assume(FAN_VALID(s));
}
/* Lemmas over the CONTRACT of operator() (calls replaced): (i) a pair and the exchanged pair in different rings address the
   same cell ("store only 1 half of data as ra,a,rb,b = rb,b,ra,a"); (ii) two detector pairs that are neither equal nor each
   other's exchange address different cells - the representation is lossless */
void h_lemma_fan_cells(void)
{
  struct FAN s; mk_fan(&s);
  int ra = nondet_int(), a = nondet_int(), rb = nondet_int(), b = nondet_int();
  __CPROVER_assume(PAIR_OK(&s, ra, a, rb, b) && (SPEC_IN_DATA(&s, ra, a, rb, b) || SPEC_IN_DATA(&s, rb, b, ra, a)));
  g_cells = 0; K_fan_select(&s, ra, a, rb, b);
  const int c0 = g_c0, c1 = g_c1, c2 = g_c2, c3 = g_c3;
  if (ra != rb)
    {
      g_cells = 0; K_fan_select(&s, rb, b, ra, a);
      __CPROVER_assert(c0 == g_c0 && c1 == g_c1 && c2 == g_c2 && c3 == g_c3, "a pair and its exchange (different rings) address the same cell");
    }
  int ra2 = nondet_int(), a2 = nondet_int(), rb2 = nondet_int(), b2 = nondet_int();
  __CPROVER_assume(PAIR_OK(&s, ra2, a2, rb2, b2) && (SPEC_IN_DATA(&s, ra2, a2, rb2, b2) || SPEC_IN_DATA(&s, rb2, b2, ra2, a2)));
  g_cells = 0; K_fan_select(&s, ra2, a2, rb2, b2);
  if (c0 == g_c0 && c1 == g_c1 && c2 == g_c2 && c3 == g_c3)
    __CPROVER_assert((ra2 == ra && a2 == a && rb2 == rb && b2 == b) || (ra2 == rb && a2 == b && rb2 == ra && b2 == a),
                     "two pairs that share a cell are the same pair or each other's exchange");
#ifdef LEMMA_CANARY
  __CPROVER_assert(0, "vacuity canary");
#endif
}
/* Lemma over the gap-map specification (postcondition of both kernels): physical crystals are renumbered without
   collisions and without holes into [0, blocks * (C - V)) - removing and re-adding gaps is lossless */
void h_lemma_gap_map(void)
{
  int x = nondet_int(), y = nondet_int(), nblocks = nondet_int();
  __CPROVER_assume(nblocks >= 1 && nblocks <= 1000 && x >= 0 && x < nblocks * C20_CT && y >= 0 && y < nblocks * C20_CT);
  __CPROVER_assume(IS_PHYS(x, C20_CT, C20_VT) && IS_PHYS(y, C20_CT, C20_VT));
  const int nx = NEW_IDX(x, C20_CT, C20_VT), ny = NEW_IDX(y, C20_CT, C20_VT);
  __CPROVER_assert(nx >= 0 && nx < nblocks * (C20_CT - C20_VT), "new index inside the physical crystals");
  __CPROVER_assert(nx != ny || x == y, "different physical crystals get different new indices");
  __CPROVER_assert(nx / (C20_CT - C20_VT) == x / C20_CT && nx % (C20_CT - C20_VT) == x % C20_CT, "block and position in block are preserved");
  int z = nondet_int();
  __CPROVER_assume(z >= 0 && z < nblocks * (C20_CT - C20_VT));
  const int back = z + (z / (C20_CT - C20_VT)) * C20_VT;
  __CPROVER_assert(IS_PHYS(back, C20_CT, C20_VT) && NEW_IDX(back, C20_CT, C20_VT) == z && back < nblocks * C20_CT, "every new index is the image of a physical crystal");
#ifdef LEMMA_CANARY
  __CPROVER_assert(0, "vacuity canary");
#endif
}

/* ---- ML element update ---- */
#define CONTRACT_K_ml_ratio_geo2d CONTRACT_K_ml_ratio
#define CONTRACT_K_ml_ratio_block2d CONTRACT_K_ml_ratio
#define CONTRACT_K_ml_ratio_geo3d CONTRACT_K_ml_ratio
#define CONTRACT_K_ml_ratio_block3d CONTRACT_K_ml_ratio
#include "K_ml_ratio_geo2d.c"
#include "K_ml_ratio_block2d.c"
#include "K_ml_ratio_geo3d.c"
#include "K_ml_ratio_block3d.c"
float nondet_float(void);
#define ML_H(k)                                                                                                       \
  void h_##k(void) { g_ratio = nondet_float(); g_limit = nondet_float(); k(nondet_float(), nondet_float(), nondet_float()); }                                              \
  /* data generated exactly from the model with factor f (1e-3 <= f <= 1e3; sums in the normal float range): the update \
     returns the quotient measured / model - never 0 - however small the threshold comparison makes 'measured' look */                                   \
  void h_lemma_fixed_point_##k(void)                                                                                   \
  {                                                                                                                   \
    const float model = nondet_float(), f = nondet_float(), threshold = nondet_float();                                \
    __CPROVER_assume(model >= 1e-20F && model <= 1e20F && f >= 1e-3F && f <= 1e3F && threshold >= 0.F);                \
    const float measured = model * f;                                                                                 \
    g_ratio = nondet_float(); /* the quotient measured / model (a non-NaN float; its accuracy is IEEE-754 division, not proved here) */ \
    __CPROVER_assume(!__CPROVER_isnanf(g_ratio));                                                                      \
    g_limit = 10000 * model;                                                                                          \
    const float r = k(measured, model, threshold);                                                                    \
    __CPROVER_assert(r == g_ratio, "the ML ratio is the update for data generated from the model");                 \
  }
ML_H(K_ml_ratio_geo2d)
ML_H(K_ml_ratio_block2d)
ML_H(K_ml_ratio_geo3d)
ML_H(K_ml_ratio_block3d)

/* ---- FanProjData constructor ---- */
#include "K_fan_ctor.c"
void h_K_fan_ctor(void)
{
  struct FAN* s;
  g_ra = nondet_int(); g_a = nondet_int(); g_rb = nondet_int(); g_n1 = 0; g_n2 = 0; g_n3 = 0;
  K_fan_ctor(s, nondet_int(), nondet_int(), nondet_int(), nondet_int());
}

/* ---- GeoData3D ---- */
#define CONTRACT_K_geo_select_nc CONTRACT_K_geo_select
#include "K_geo_select.c"
#include "K_geo_select_nc.c"
#include "K_geo_is_in_data.c"
#include "K_geo_ctor.c"
void h_K_geo_is_in_data(void) { struct GEO* s; K_geo_is_in_data(s, nondet_int(), nondet_int(), nondet_int(), nondet_int()); }
void h_K_geo_select(void) { struct GEO* s; g_cells = 0; K_geo_select(s, nondet_int(), nondet_int(), nondet_int(), nondet_int()); }
void h_K_geo_select_nc(void) { struct GEO* s; g_cells = 0; K_geo_select_nc(s, nondet_int(), nondet_int(), nondet_int(), nondet_int()); }
void h_K_geo_ctor(void)
{
  struct GEO* s;
  g_ra = nondet_int(); g_a = nondet_int(); g_rb = nondet_int(); g_n1 = 0; g_n2 = 0; g_n3 = 0;
  K_geo_ctor(s, nondet_int(), nondet_int(), nondet_int(), nondet_int());
}

/* ---- apply / un-apply statements ---- */
#define CONTRACT_K_apply_block_stmt CONTRACT_K_apply_stmt
#define CONTRACT_K_apply_eff_stmt CONTRACT_K_apply_stmt
#define CONTRACT_K_apply_geo_stmt CONTRACT_K_apply_stmt
#if defined(APPLY_KIND_block)
#include "K_apply_block_stmt.c"
void h_K_apply_block_stmt(void) { g_ops = 0; K_apply_block_stmt(nondet_bool(), nondet_int(), nondet_int(), nondet_int(), nondet_int(), nondet_int(), nondet_int()); }
#elif defined(APPLY_KIND_eff)
#include "K_apply_eff_stmt.c"
void h_K_apply_eff_stmt(void) { g_ops = 0; K_apply_eff_stmt(nondet_bool(), nondet_int(), nondet_int(), nondet_int(), nondet_int(), nondet_int()); }
#elif defined(APPLY_KIND_geo)
#include "K_apply_geo_stmt.c"
void h_K_apply_geo_stmt(void) { g_ops = 0; K_apply_geo_stmt(nondet_bool(), nondet_int(), nondet_int(), nondet_int(), nondet_int(), nondet_int()); }
#endif

/* ---- iterate_efficiencies ---- */
#include "K_iter_eff.c"
void h_K_iter_eff(void)
{
  struct FAN* s;
  g_ra = nondet_int(); g_a = nondet_int(); g_rb = nondet_int(); g_b = nondet_int(); g_data_zero = nondet_bool(); g_acc = 0; g_set = 0; g_set_kind = nondet_int();
  K_iter_eff(s);
}

/* ---- make_block_data accumulation loops, FanProjData::sum ---- */
#ifndef C20_CA
#define C20_CA 8
#define C20_CT 8
#endif
#include "K_make_block_data.c"
void h_K_make_block_data(void)
{
  struct FAN* s;
  g_ra = nondet_int(); g_a = nondet_int(); g_rb = nondet_int(); g_b = nondet_int(); g_acc = 0; g_blk_bad = 0;
  K_make_block_data(s, nondet_int(), nondet_int());
}
#include "K_make_fan_sum_data.c"
void h_K_make_fan_sum_data(void) { struct FAN* s; g_ra = nondet_int(); g_a = nondet_int(); g_rb = 0; g_acc = 0; K_make_fan_sum_data(s); }
#include "K_fan_sum.c"
void h_K_fan_sum(void)
{
  struct FAN* s;
  g_rb = nondet_int(); g_b = nondet_int(); g_acc = 0;
  K_fan_sum(s, nondet_int(), nondet_int());
}

/* ---- FanProjData range accessors ---- */
#include "K_fan_get_max_rb.c"
#include "K_fan_get_min_rb_acc.c"
#include "K_fan_get_min_b.c"
#include "K_fan_get_max_b.c"
#include "K_fan_get_max_a.c"
#include "K_fan_get_max_ra.c"
void h_K_fan_get_max_rb(void) { struct FAN* s; K_fan_get_max_rb(s, nondet_int()); }
void h_K_fan_get_min_rb_acc(void) { struct FAN* s; K_fan_get_min_rb_acc(s, nondet_int()); }
void h_K_fan_get_min_b(void) { struct FAN* s; K_fan_get_min_b(s, nondet_int()); }
void h_K_fan_get_max_b(void) { struct FAN* s; K_fan_get_max_b(s, nondet_int()); }
void h_K_fan_get_max_a(void) { struct FAN* s; K_fan_get_max_a(s); }
void h_K_fan_get_max_ra(void) { struct FAN* s; K_fan_get_max_ra(s); }
