"""Check driver: extract -> run jobs -> account -> replay -> evidence."""
import glob
import importlib
import json
import os
import re
import shutil
import sys
import time

VERIF = os.path.dirname(os.path.dirname(os.path.abspath(__file__)))
sys.path.insert(0, VERIF)
from vlib import extract, runner  # noqa: E402

REPO = os.environ.get("VERIF_REPO", "/repo")


def load_known(prop):
    opens, fixed = [], []
    p = os.path.join(VERIF, "known_findings.txt")
    if not os.path.exists(p):
        return opens, fixed
    for line in open(p):
        line = line.strip()
        if not line or line.startswith("#"):
            continue
        if line.startswith("open:") and ("property=%s " % prop) in line:
            m = re.search(r"job=(\S+)\s+obligation=(\S+)\s+::\s*(.*)", line)
            if m:
                opens.append({"job": m.group(1), "obligation": m.group(2), "what": m.group(3), "line": line})
        elif line.startswith("fixed:") and ("property=%s " % prop) in line:
            fixed.append(line)
    return opens, fixed


def scan_assumptions():
    """Mechanical scan for assume/trusted markers in contracts and harnesses."""
    found = []
    for pat in ("contracts/*.h", "harness/*.c", "harness/*/*.c", "props/*.py"):
        for f in sorted(glob.glob(os.path.join(VERIF, pat))):
            for n, line in enumerate(open(f, errors="replace"), 1):
                if "__CPROVER_assume" in line or "K_TRUSTED" in line:
                    s = line.strip()
                    if s.startswith("//") or s.startswith("#define K_TRUSTED") or s.startswith("*"):
                        continue
                    found.append("%s:%d: %s" % (os.path.relpath(f, VERIF), n, s[:160]))
    return found


def write_gen(mod, gen_dir):
    os.makedirs(gen_dir, exist_ok=True)
    metas = []
    canary = ["/* generated: one vacuity-canary switch per kernel */"]
    for spec in mod.KERNELS:
        r = extract.extract_kernel(REPO, spec)
        with open(os.path.join(gen_dir, spec["name"] + ".c"), "w") as f:
            f.write(r["code"])
        metas.append(r["meta"])
        canary.append("#ifdef CANARY_%s\n#define K_CANARY_%s __CPROVER_ensures(0 == 1)\n#else\n#define K_CANARY_%s\n#endif" % (
            spec["name"], spec["name"], spec["name"]))
    with open(os.path.join(gen_dir, "canary.h"), "w") as f:
        f.write("\n".join(canary) + "\n")
    if hasattr(mod, "extra_gen"):
        mod.extra_gen(REPO, gen_dir, metas)
    return metas


def main(argv):
    import argparse
    ap = argparse.ArgumentParser()
    ap.add_argument("prop")
    ap.add_argument("--tier", default=os.environ.get("VERIF_TIER", "quick"))
    ap.add_argument("--replay", default=None)
    ap.add_argument("--keep", action="store_true")
    ap.add_argument("--only", default=None, help="regex on job names (debugging; evidence is not written)")
    ap.add_argument("--gen-only", action="store_true")
    args = ap.parse_args(argv)
    prop = args.prop
    tier = args.tier if args.tier in ("quick", "thorough") else "quick"
    try:
        seed = int(os.environ.get("VERIF_SEED", "0"))
    except ValueError:
        seed = 0
    mod = importlib.import_module("props.%s" % prop.lower())

    if args.replay:
        return do_replay_file(mod, prop, args.replay)

    t0 = time.time()
    workroot = os.path.join(VERIF, "build", "run.%d" % os.getpid())
    gen_dir = os.path.join(workroot, "gen")
    shutil.rmtree(workroot, ignore_errors=True)
    os.makedirs(gen_dir)
    ev_path = os.path.join(VERIF, "evidence", "%s.json" % prop)
    os.makedirs(os.path.dirname(ev_path), exist_ok=True)
    rc = 2
    try:
        try:
            metas = write_gen(mod, gen_dir)
        except extract.ExtractionError as e:
            print("UNDECIDED property=%s reason=extraction: %s" % (prop, e))
            write_undecided(ev_path, prop, tier, seed, "extraction failed: %s" % e, time.time() - t0)
            return 2
        if args.gen_only:
            print(gen_dir)
            args.keep = True
            return 0
        jobs = mod.jobs(tier, gen_dir)
        if args.only:
            jobs = [j for j in jobs if re.search(args.only, j.name)]
        results = runner.run_jobs(jobs, workroot, gen_dir)
        rc = account(mod, prop, tier, seed, jobs, results, metas, ev_path, t0, workroot, write=not args.only and not os.environ.get("VERIF_NO_EVIDENCE"), verbose=bool(args.only))
        return rc
    finally:
        if not args.keep:
            shutil.rmtree(workroot, ignore_errors=True)
            try:
                os.rmdir(os.path.join(VERIF, "build"))
            except OSError:
                pass


def write_undecided(ev_path, prop, tier, seed, why, wall):
    ev = {"property_id": prop, "tier": tier, "seed": seed, "level": "other",
          "coverage": {"explanation": "UNDECIDED: " + why, "obligations": 0, "discharged": 0}, "assumptions": [],
          "wall_s": round(wall, 1), "violations": 0}
    json.dump(ev, open(ev_path, "w"), indent=1)


_seen_reasons = set()


def account(mod, prop, tier, seed, jobs, results, metas, ev_path, t0, workroot, write=True, verbose=False):
    opens, fixed = load_known(prop)
    n_obl = n_dis = 0
    by_class = {}
    backend_s = {}
    bounded = []
    undecided = []
    violations = []
    known_hits = []
    samples = []
    canaries_ok = canaries = 0
    for job, r in zip(jobs, results):
        backend_s[r["backend"]] = round(backend_s.get(r["backend"], 0) + r["seconds"], 2)
        if verbose and not (r["reason"] and r["reason"][:80] in _seen_reasons):
            _seen_reasons.add(r["reason"][:80])
            print("%-50s %-10s %6.1fs %s" % (job.name, r["status"], r["seconds"], " ".join(r["reason"].split())[:200]))
            for o in [x for x in r.get("failed", []) if x["status"] == "FAILURE" and x["class"] != "instrumentation"][:4]:
                print("     FAILED %s [%s] %s" % (o["name"], o["class"], o["description"][:100]))
                if verbose:
                    for k, v in sorted(o.get("inputs", {}).items()):
                        print("         %s = %s" % (k, v))
        if job.kind == "canary":
            canaries += 1
            if r["status"] == "ok":
                canaries_ok += 1
            else:
                undecided.append("%s: %s" % (job.name, r["reason"]))
            continue
        if r["status"] == "undecided" and not r["obligations"]:
            undecided.append("%s: %s" % (job.name, r["reason"]))
            continue
        real = [o for o in r["obligations"] if o["class"] != "instrumentation"]
        instr_failed = [o for o in r["obligations"] if o["class"] == "instrumentation" and o["status"] != "SUCCESS"]
        if job.bounded:
            bounded.append({"job": job.name, "bound": job.bounded, "obligations": len(real),
                            "passed": sum(1 for o in real if o["status"] == "SUCCESS")})
        else:
            n_obl += len(real)
            n_dis += sum(1 for o in real if o["status"] == "SUCCESS")
            for o in real:
                by_class[o["class"]] = by_class.get(o["class"], 0) + 1
        if len(samples) < 14 and real:
            o = real[(len(samples) * 7) % len(real)]
            samples.append({"job": job.name, "obligation": o["name"], "description": o["description"][:120],
                            "status": o["status"], "class": o["class"], "params": job.params, "job_seconds": r["seconds"]})
        if instr_failed:
            undecided.append("%s: instrumentation obligations failed: %s" % (job.name, instr_failed[0]["name"]))
        if r["status"] == "undecided":
            undecided.append("%s: %s" % (job.name, r["reason"]))
        if r["status"] == "fail":
            for o in r["failed"]:
                if o["class"] not in ("property", "spec_invariant"):
                    continue
                hit = None
                for k in opens:
                    if re.search(k["job"], job.name) and re.search(k["obligation"], o["name"] + " " + o["description"]):
                        hit = k
                        break
                if hit:
                    known_hits.append((hit, job, o))
                    if not job.bounded:
                        n_obl -= 1  # reported as KNOWN-FINDING, listed separately in the evidence, not part of the proof count
                        by_class[o["class"]] = by_class.get(o["class"], 1) - 1
                else:
                    violations.append((job, r, o))
    # group violations: one VIOLATION line per (kernel-level) obligation description, first job that shows it
    out_lines = []
    seen_known = set()
    for hit, job, o in known_hits:
        if hit["line"] in seen_known:
            continue
        seen_known.add(hit["line"])
        out_lines.append("KNOWN-FINDING: property=%s %s" % (prop, hit["what"]))
    vio_records = []
    seen = set()
    os.makedirs(os.path.join(VERIF, "replay_out"), exist_ok=True)
    for job, r, o in violations:
        key = (o["function"], o["description"], re.sub(r"\.\d+$", "", o["name"]))
        if key in seen:
            continue
        seen.add(key)
        if len(vio_records) >= 8:
            continue
        rec = {"property": prop, "job": job.name, "params": job.params, "obligation": o["name"], "class": o["class"],
               "description": o["description"], "function": o["function"], "line": o["line"],
               "verifier_inputs": o.get("inputs", {}), "verifier_trace_tail": o.get("trace_tail", []),
               "verifier_cmds": r["cmds"], "kernels": job.kernels}
        native = {"status": "unavailable", "detail": "no native replay routine for this job"}
        if hasattr(mod, "replay"):
            try:
                native = mod.replay(job, o, workroot, REPO)
            except Exception as e:  # replay trouble never hides the violation
                native = {"status": "unavailable", "detail": "replay raised %r" % (e,)}
        rec["native_replay"] = native
        path = os.path.join(VERIF, "replay_out", "%s-%d.json" % (prop, len(vio_records)))
        json.dump(rec, open(path, "w"), indent=1)
        vio_records.append(rec)
        tail = "" if native.get("status") == "confirmed" else " no-failing-input-found"
        out_lines.append("VIOLATION property=%s replay=%s obligation=%s job=%s%s" % (prop, path, o["name"], job.name, tail)
                         if not tail else
                         "VIOLATION property=%s replay=%s obligation=%s job=%s no-failing-input-found" % (prop, path, o["name"], job.name))
    for line in out_lines:
        print(line)
    rc = 0
    if vio_records:
        rc = 1
    elif undecided:
        rc = 2
        for u in undecided[:3]:
            print("UNDECIDED property=%s reason=%s" % (prop, u[:600]))
    if write:
        kernels_under_contract = sorted({k for j in jobs for k in j.kernels})
        cov = {
            "obligations": n_obl,
            "discharged": n_dis,
            "checker_cmd": " ; ".join(results[0]["cmds"]) if results and results[0]["cmds"] else "goto-cc; goto-instrument --dfcc; cbmc",
            "trusted_base": list(getattr(mod, "TRUSTED", [])) + [
                "cbmc 6.11.0 (goto-cc, goto-instrument --dfcc contract instrumentation, MiniSat back end unless stated)",
                "extractor rule classes of DESIGN.md section 4 (C++ surface syntax -> C); fire counts checked on this run",
            ],
            "samples": samples,
            "jobs": len(jobs),
            "jobs_ok": sum(1 for r in results if r["status"] == "ok"),
            "obligations_by_class": by_class,
            "backend_seconds": backend_s,
            "bounded": bounded,
            "vacuity": {"canary_jobs": canaries, "canaries_failed_as_required": canaries_ok},
            "kernels": metas,
            "functions_under_contract": kernels_under_contract,
            "parameters": getattr(mod, "param_summary", lambda t: {})(tier),
            "undecided_clauses": list(getattr(mod, "UNDECIDED_CLAUSES", [])),
            "static_facts": list(getattr(mod, "STATIC_FACTS", [])),
            "undecided_jobs": undecided[:20],
            "known_findings_reported": sorted({h[0]["what"] for h in known_hits})[:10],
            "known_finding_obligations": [{"job": h[1].name, "obligation": h[2]["name"]} for h in known_hits][:40],
            "fixed_findings": fixed,
            "violation_records": [{"obligation": v["obligation"], "job": v["job"], "native": v["native_replay"].get("status")} for v in vio_records],
        }
        ev = {"property_id": prop, "tier": tier, "seed": seed, "level": "proof" if n_obl and n_dis == n_obl else "other",
              "coverage": cov,
              "assumptions": list(getattr(mod, "ASSUMPTIONS", [])) + ["scan: " + s for s in scan_assumptions() if getattr(mod, "SCAN_FILTER", prop.lower()) in s.lower()],
              "wall_s": round(time.time() - t0, 1), "violations": len(vio_records)}
        if ev["level"] == "other":
            cov["explanation"] = "not every obligation discharged on this run (%d of %d); see violation_records/undecided_jobs" % (n_dis, n_obl)
        json.dump(ev, open(ev_path, "w"), indent=1)
    if rc == 0:
        print("OK property=%s tier=%s jobs=%d obligations=%d discharged=%d wall=%.0fs" % (prop, tier, len(jobs), n_obl, n_dis, time.time() - t0))
    return rc


def do_replay_file(mod, prop, path):
    rec = json.load(open(path))
    print(json.dumps({k: rec[k] for k in ("job", "obligation", "description", "verifier_inputs", "native_replay") if k in rec}, indent=1))
    nat = rec.get("native_replay", {})
    if hasattr(mod, "replay_again"):
        return mod.replay_again(rec, REPO)
    return 1 if nat.get("status") == "confirmed" else 0
