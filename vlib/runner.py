"""Run CBMC contract-verification jobs: goto-cc -> goto-instrument --dfcc -> cbmc, parse obligations."""
import json
import os
import re
import resource
import subprocess
import time
from concurrent.futures import ThreadPoolExecutor

VERIF = os.path.dirname(os.path.dirname(os.path.abspath(__file__)))

BASE_FLAGS = ["--bounds-check", "--pointer-check", "--signed-overflow-check", "--div-by-zero-check", "--pointer-overflow-check"]

AUX_PAT = re.compile(
    r"\.(loop_decreases|loop_assigns|loop_step_unwinding|unwind|no_recursive_call|single_top_level_call|"
    r"no_alloc_dealloc_in_requires|no_alloc_dealloc_in_ensures|recursion)\.\d+$"
)
LOOPINV_PAT = re.compile(r"\.(loop_invariant_base|loop_invariant_step)\.\d+$")


class Job:
    def __init__(self, name, source, entry, enforce=None, replace=(), loop_contracts=False, defines=None, flags=None,
                 unwind=None, timeout=120, kind="enforce", params=None, kernels=(), bounded=None, spec_loops=True,
                 min_obligations=1, expect_fail=None, backend="sat", mem_gb=8, object_bits=None, no_base_flags=False,
                 replay=None, ignore=(), shards=1):
        self.name = name
        self.source = source  # harness C file (absolute), includes the generated kernels
        self.entry = entry
        self.enforce = enforce
        self.replace = list(replace)
        self.loop_contracts = loop_contracts
        self.defines = dict(defines or {})
        self.flags = list(flags or [])
        self.unwind = unwind
        self.timeout = timeout
        self.kind = kind  # enforce | lemma | canary
        self.params = dict(params or {})
        self.kernels = list(kernels)
        self.bounded = bounded
        self.spec_loops = spec_loops
        self.min_obligations = min_obligations
        self.expect_fail = expect_fail  # regex of obligation names that must FAIL (canary)
        self.backend = backend
        self.mem_gb = mem_gb
        self.object_bits = object_bits
        self.no_base_flags = no_base_flags
        self.replay = replay  # name of replay routine
        self.shards = shards  # split the obligations over this many parallel cbmc processes
        self.ignore = [re.compile(x) for x in ignore]  # obligations (name+description) excluded, each documented in evidence


def _limits(mem_gb):
    def f():
        lim = int(mem_gb * (1 << 30))
        resource.setrlimit(resource.RLIMIT_AS, (lim, lim))
        os.setsid()
    return f


def _run(cmd, timeout, mem_gb, cwd=None, stdout=None, tmpdir=None):
    t0 = time.time()
    try:
        env = dict(os.environ)
        if tmpdir:
            env["TMPDIR"] = tmpdir  # cbmc writes the CNF for an external SAT solver there; removed with the job directory
        p = subprocess.Popen(cmd, stdout=stdout or subprocess.PIPE, stderr=subprocess.PIPE, cwd=cwd, preexec_fn=_limits(mem_gb), env=env)
        try:
            out, err = p.communicate(timeout=timeout)
        except subprocess.TimeoutExpired:
            try:
                os.killpg(p.pid, 9)
            except Exception:
                p.kill()
            p.communicate()
            return None, b"", b"timeout", time.time() - t0
        return p.returncode, out or b"", err or b"", time.time() - t0
    except OSError as e:
        return -1, b"", str(e).encode(), time.time() - t0


def classify(name, job):
    if name.startswith("__CPROVER_contracts_") or name.startswith("__CPROVER_"):
        return "instrumentation"
    if AUX_PAT.search(name):
        return "auxiliary"
    if LOOPINV_PAT.search(name):
        return "spec_invariant" if job.spec_loops else "auxiliary"
    return "property"


def run_job(job, workdir, gen_dir):
    """Returns a result dict; never raises."""
    os.makedirs(workdir, exist_ok=True)
    a = os.path.join(workdir, "a.gb")
    b = os.path.join(workdir, "b.gb")
    outj = os.path.join(workdir, "out.json")
    res = {"job": job.name, "kind": job.kind, "params": job.params, "kernels": job.kernels, "status": "undecided",
           "reason": "", "obligations": [], "seconds": 0.0, "backend": job.backend, "cmds": [], "bounded": job.bounded,
           "failed": []}
    defs = ["-D%s=%s" % (k, v) if v is not None else "-D%s" % k for k, v in sorted(job.defines.items())]
    cmd1 = ["goto-cc", "--function", job.entry, "--verbosity", "2", "-DNDEBUG", "-DVERIF_CBMC", "-I", VERIF, "-I", gen_dir] + defs + [job.source, "-o", a]
    rc, out, err, t1 = _run(cmd1, 120, 4)
    res["cmds"].append(" ".join(cmd1))
    if rc != 0:
        res["reason"] = "goto-cc failed: " + (err.decode(errors="replace") + out.decode(errors="replace"))[-1500:]
        return res
    # a function the extracted text calls without any declaration is C++ that no extraction rule mapped: CBMC would treat it as
    # returning anything - neither a proof nor a refutation. Undecided, never a violation.
    und = re.findall(r"function '(\w+)' is not declared", err.decode(errors="replace") + out.decode(errors="replace"))
    if und:
        res["reason"] = "extracted text calls undeclared function(s) %s: no extraction rule maps them" % ", ".join(sorted(set(und))[:6])
        return res
    src_gb = a
    if job.enforce or job.replace or job.loop_contracts:
        cmd2 = ["goto-instrument", "--no-malloc-may-fail", "--dfcc", job.entry]
        if job.enforce:
            cmd2 += ["--enforce-contract", job.enforce]
        for r in job.replace:
            cmd2 += ["--replace-call-with-contract", r]
        if job.loop_contracts:
            cmd2 += ["--apply-loop-contracts"]
        cmd2 += [a, b]
        rc, out, err, t2 = _run(cmd2, 300, 8)
        res["cmds"].append(" ".join(cmd2))
        if rc != 0:
            res["reason"] = "goto-instrument failed: " + (err.decode(errors="replace") + out.decode(errors="replace"))[-1500:]
            return res
        src_gb = b
    cmd3 = ["cbmc", src_gb, "--no-standard-checks"] + ([] if job.no_base_flags else BASE_FLAGS) + job.flags + ["--no-malloc-may-fail", "--json-ui", "--trace"]
    if job.unwind is not None:
        cmd3 += ["--unwind", str(job.unwind), "--unwinding-assertions"]
    if job.object_bits:
        cmd3 += ["--object-bits", str(job.object_bits)]
    if job.backend == "cvc5":
        cmd3 += ["--cvc5"]
    elif job.backend == "z3":
        cmd3 += ["--z3"]
    elif job.backend == "kissat":
        cmd3 += ["--external-sat-solver", "kissat"]
    res["cmds"].append(" ".join(cmd3))
    groups = [None]
    if job.shards > 1:
        rc, out, err, _ = _run(["cbmc", src_gb, "--no-standard-checks"] + ([] if job.no_base_flags else BASE_FLAGS) + job.flags
                               + ["--show-properties", "--json-ui"], 120, 4)
        names = []
        try:
            for e in json.loads(out.decode(errors="replace")):
                for p in e.get("properties", []):
                    names.append(p["name"])
        except Exception as e:
            res["reason"] = "cannot list properties for sharding: %s" % e
            return res
        hard = [n for n in names if re.search(r"\.(postcondition|loop_invariant_base|loop_invariant_step|assertion)\.\d+$", n) and not n.startswith("__CPROVER")]
        rest = [n for n in names if n not in set(hard)]
        k = max(1, job.shards - min(len(hard), job.shards // 2))
        groups = [[h] for h in hard[: job.shards // 2]]
        extra_hard = hard[job.shards // 2:]
        rest_groups = [rest[i::k] + extra_hard[i::k] for i in range(k)]
        groups += [g for g in rest_groups if g]
    results = []
    msgs = []
    t3 = 0.0

    def run_group(gi):
        g = groups[gi]
        oj = outj if g is None else outj + ".%d" % gi
        cmd = list(cmd3)
        if g is not None:
            for n in g:
                cmd += ["--property", n]
        with open(oj, "wb") as fo:
            rc, _, err, t = _run(cmd, job.timeout, job.mem_gb, stdout=fo, tmpdir=workdir)
        return gi, rc, err, t, oj

    if len(groups) == 1:
        outs = [run_group(0)]
    else:
        with ThreadPoolExecutor(max_workers=len(groups)) as ex:
            outs = list(ex.map(run_group, range(len(groups))))
    for gi, rc, err, t, oj in outs:
        t3 = max(t3, t)
        if rc is None:
            res["seconds"] = round(t3, 2)
            res["reason"] = "timeout after %ds (%s)%s" % (job.timeout, job.backend, "" if groups[gi] is None else " in shard %d (%s ...)" % (gi, groups[gi][0]))
            return res
        try:
            data = json.load(open(oj))
        except Exception as e:
            res["reason"] = "cbmc output unparsable (rc=%s): %s %s" % (rc, e, err.decode(errors="replace")[-500:])
            return res
        finally:
            if groups[gi] is not None and not os.environ.get("VERIF_KEEP"):
                try:
                    os.remove(oj)
                except OSError:
                    pass
        got = None
        for e in data:
            if "result" in e:
                got = e["result"]
            if "messageText" in e:
                msgs.append(e["messageText"])
        if got is None:
            res["reason"] = "cbmc gave no result (rc=%s): %s" % (rc, " | ".join(msgs[-4:])[-1200:])
            return res
        want = None if groups[gi] is None else set(groups[gi])
        results += [r for r in got if want is None or r.get("property") in want]
    res["seconds"] = round(t3, 2)
    if any("ignoring" in m and "forall" in m for m in msgs):
        res["reason"] = "quantifier ignored by back end"
        return res
    obls = []
    for r in results:
        name = r.get("property", "?")
        if any(p.search(name + " " + r.get("description", "")) for p in job.ignore):
            res["ignored"] = res.get("ignored", 0) + 1
            continue
        o = {"name": name, "status": r.get("status"), "description": r.get("description", ""), "class": classify(name, job)}
        sl = r.get("sourceLocation") or {}
        o["function"] = sl.get("function", "")
        o["line"] = sl.get("line", "")
        if r.get("status") == "FAILURE":
            o["inputs"] = trace_inputs(r.get("trace") or [])
            o["trace_tail"] = trace_tail(r.get("trace") or [])
        obls.append(o)
    res["obligations"] = obls
    real = [o for o in obls if o["class"] != "instrumentation"]
    if len(real) < job.min_obligations:
        res["reason"] = "only %d obligations generated (expected >= %d): vacuous job" % (len(real), job.min_obligations)
        return res
    failed = [o for o in obls if o["status"] == "FAILURE"]
    unknown = [o for o in obls if o["status"] not in ("SUCCESS", "FAILURE")]
    if job.kind == "canary":
        # the canary obligations must FAIL; everything else is ignored here
        pat = re.compile(job.expect_fail)
        hit = [o for o in obls if pat.search(o["name"] + " " + o["description"]) and o["status"] == "FAILURE"]
        if hit:
            res["status"] = "ok"
        else:
            res["status"] = "undecided"
            res["reason"] = "vacuity canary did not fail: precondition contradictory or harness vacuous"
        for o in obls:
            o.pop("inputs", None)
            o.pop("trace_tail", None)
        return res
    if not failed and unknown:
        res["status"] = "undecided"
        res["reason"] = "%d obligations with status UNKNOWN/ERROR and none failed" % len(unknown)
    elif not failed:
        res["status"] = "ok"
    else:
        res["failed"] = failed
        if any(o["class"] in ("property", "spec_invariant") for o in failed):
            res["status"] = "fail"
        else:
            res["status"] = "undecided"
            res["reason"] = "only auxiliary/instrumentation obligations failed: " + ", ".join(o["name"] for o in failed[:5])
    return res


def trace_inputs(trace):
    """Last value of every harness-level variable (names in_*, g_*) and of kernel parameters, from a cbmc trace."""
    vals = {}
    for st in trace:
        if st.get("stepType") != "assignment":
            continue
        lhs = st.get("lhs", "")
        v = st.get("value") or {}
        if "data" in v:
            val = v["data"]
        elif "members" in v or "elements" in v:
            continue
        else:
            continue
        fn = (st.get("sourceLocation") or {}).get("function", "")
        if lhs.startswith("in_") or lhs.startswith("g_") or lhs.startswith("in."):
            vals[lhs] = val
        elif re.match(r"^in_\w+(\.|\[)", lhs):
            vals[lhs] = val
        elif lhs.startswith("dynamic_object") and "." in lhs and "$pad" not in lhs:
            vals[lhs] = val  # fields of objects created by __CPROVER_is_fresh in the contract's requires
        elif fn.startswith("mk_") and "." in lhs and not lhs.startswith("__"):
            vals[lhs] = val
        elif fn.startswith("h_") and not lhs.startswith("__") and "$" not in lhs and "tmp" not in lhs:
            vals.setdefault("h:" + lhs, val)
            vals["h:" + lhs] = val
    return vals


def trace_tail(trace, n=25):
    out = []
    for st in trace[-n:]:
        t = st.get("stepType")
        sl = st.get("sourceLocation") or {}
        if t == "assignment":
            v = st.get("value") or {}
            out.append("%s:%s %s = %s" % (sl.get("function", ""), sl.get("line", ""), st.get("lhs", ""), v.get("data", v.get("name", "?"))))
        elif t == "failure":
            out.append("%s:%s FAILURE %s" % (sl.get("function", ""), sl.get("line", ""), st.get("reason", "")))
    return out


def run_jobs(jobs, workroot, gen_dir, nproc=None):
    nproc = nproc or int(os.environ.get("VERIF_JOBS", os.cpu_count() or 4))
    results = [None] * len(jobs)

    def one(i):
        j = jobs[i]
        wd = os.path.join(workroot, "job%04d" % i)
        r = run_job(j, wd, gen_dir)
        # keep traces small on disk: remove scratch, results are in memory
        for f in (() if os.environ.get("VERIF_KEEP") else ("a.gb", "b.gb", "out.json")):
            try:
                os.remove(os.path.join(wd, f))
            except OSError:
                pass
        return i, r

    with ThreadPoolExecutor(max_workers=nproc) as ex:
        for i, r in ex.map(one, range(len(jobs))):
            results[i] = r
    return results
