"""Build and run native replay drivers against the REAL STIR libraries of /repo's working tree."""
import fcntl
import os
import re
import subprocess

VERIF = os.path.dirname(os.path.dirname(os.path.abspath(__file__)))


def link_recipe(repo):
    """(object files, libraries) of src/recon_test/test_OSMAPOSL scraped from build.ninja."""
    bd = os.path.join(repo, "_build")
    txt = open(os.path.join(bd, "build.ninja")).read()
    m = re.search(r"^build src/recon_test/test_OSMAPOSL: CXX_EXECUTABLE_LINKER\S* (.*?) \|.*?\n(?:.*\n)*?  LINK_LIBRARIES = (.*)\n", txt, flags=re.M)
    if not m:
        raise RuntimeError("link recipe not found in build.ninja")
    objs = [o for o in m.group(1).split() if "stir_registries" in o]
    libs = m.group(2).split()
    fix = lambda p: os.path.join(bd, p) if p.startswith("src/") else p
    return [fix(o) for o in objs], [fix(l) for l in libs]


def sync_libs(repo, targets=("stir_registries", "buildblock", "recon_buildblock", "IO", "data_buildblock", "numerics_buildblock",
                             "display", "listmode_buildblock", "modelling_buildblock", "scatter_buildblock", "Shape_buildblock",
                             "spatial_transformation_buildblock", "eval_buildblock", "iterative_OSMAPOSL", "iterative_KOSMAPOSL",
                             "iterative_OSSPS", "analytic_FBP2D", "analytic_FBP3DRP")):
    """Incrementally rebuild the static libraries from the working tree (only on the violation path)."""
    bd = os.path.join(repo, "_build")
    lock = open(os.path.join(bd, ".verif.lock"), "w")
    fcntl.flock(lock, fcntl.LOCK_EX)
    try:
        p = subprocess.run(["ninja", "-C", bd, "-j", "12"] + list(targets), capture_output=True, text=True, timeout=3600)
        return p.returncode == 0, (p.stdout + p.stderr)[-600:]
    finally:
        fcntl.flock(lock, fcntl.LOCK_UN)
        lock.close()


def build(repo, src, exe, full_link=True, asan=True, extra=()):
    inc = ["-I", os.path.join(repo, "src/include"), "-I", os.path.join(repo, "_build/src/include")]
    cmd = ["g++", "-std=c++17", "-g", "-O1", "-DNDEBUG", "-fno-access-control"] + (["-fsanitize=address"] if asan else []) + list(extra) + inc + [src]
    if full_link:
        ok, log = sync_libs(repo)
        if not ok:
            return None, "ninja failed: " + log
        objs, libs = link_recipe(repo)
        cmd += objs + ["-Wl,--start-group"] + [l for l in libs if l.endswith(".a")] + ["-Wl,--end-group"] + [l for l in libs if not l.endswith(".a")]
    else:
        cmd += [os.path.join(repo, "_build/src/buildblock/libbuildblock.a")]
    cmd += ["-o", exe]
    p = subprocess.run(cmd, capture_output=True, text=True, timeout=1800)
    if p.returncode != 0:
        return None, p.stderr[-1500:]
    return exe, " ".join(cmd[:12]) + " ..."


def run(exe, args, timeout=300):
    p = subprocess.run([exe] + [str(a) for a in args], capture_output=True, text=True, timeout=timeout)
    out = p.stdout + p.stderr
    if p.returncode == 1 and "CONFIRMED" in p.stdout:
        return "confirmed", [l for l in p.stdout.splitlines() if "CONFIRMED" in l][-1]
    if "AddressSanitizer" in out:
        m = re.search(r"ERROR: AddressSanitizer: (\S+).*?\n(?:.*?\n)*?\s+#0 \S+ in ([^\n]*)", out)
        return "confirmed", "AddressSanitizer: " + (m.group(1) + " in " + m.group(2) if m else "memory error")
    if p.returncode < 0:
        return "confirmed", "process killed by signal %d (crash)" % (-p.returncode)
    if p.returncode == 0:
        return "not-reproduced", p.stdout.strip()[-200:]
    return "unavailable", "replay driver rc=%d %s" % (p.returncode, out[-300:])
