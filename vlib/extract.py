"""Mechanical extraction of kernels from /repo's C++ into C translation units.

A kernel spec is a dict:
  name      C name of the generated function (K_...)
  file      path relative to the repository root
  func      regex matching the C++ function header (up to and including the
            parameter list's closing paren and trailing 'const' if any)
  nth       which match of `func` (default 0)
  span      optional (begin_regex, end_regex): statement kernel = text from the
            start of the begin match to the end of the end match inside the
            function body
  c_header  C signature text for the generated function
  rules     ordered list of (regex, replacement, expected_count); the count is
            an int (exact), a (min,max) tuple, or None (any number, incl. 0)
  inline_local_consts  True: local 'const int' definitions of the function that precede a
            span are substituted into it
  init_list True for a constructor: its member-initialiser list is turned into
            assignments self->member = expr; in front of the body
  pre/post  optional literal C text put at the start/end of the generated body
  loops     expected number of loops (checked); every loop header gets the
            macro LC_<name>_<ordinal> appended, which the contract header
            must define (empty or a loop contract)

What is allowed in rules is syntax only - see DESIGN.md section 4.  A rule
whose fire count is off, a function that is not found, an unknown preprocessor
condition: ExtractionError -> the check exits 2 (undecided), never 1.
"""
import hashlib
import os
import re


class ExtractionError(Exception):
    pass


# preprocessor symbols as the pinned baseline build defines them
# (RelWithDebInfo: -DNDEBUG, STIR_OPENMP off, STIR_VERSION from VERSION.txt)
PP_DEFINED = {"NDEBUG": "1"}
PP_UNDEFINED = {"STIR_OPENMP", "_DEBUG", "STIR_TOF_DEBUG", "STIR_MPI", "_OPENMP", "STIR_NO_NAMESPACES", "BOOST_NO_STDC_NAMESPACE"}


def stir_version(repo):
    try:
        txt = open(os.path.join(repo, "VERSION.txt")).read().strip()
        parts = txt.split(".")
        return "%02d%02d%02d" % (int(parts[0]), int(parts[1]), int(parts[2]))
    except Exception:
        return "060200"


def strip_comments(src):
    """Replace comments by blanks (newlines kept), leave strings alone."""
    out = []
    i, n = 0, len(src)
    while i < n:
        c = src[i]
        if c == '"' or c == "'":
            q = c
            j = i + 1
            while j < n and src[j] != q:
                if src[j] == "\\":
                    j += 1
                j += 1
            out.append(src[i : j + 1])
            i = j + 1
        elif src.startswith("//", i):
            j = src.find("\n", i)
            if j < 0:
                j = n
            i = j
        elif src.startswith("/*", i):
            j = src.find("*/", i + 2)
            if j < 0:
                raise ExtractionError("unterminated comment")
            out.append("".join(ch if ch == "\n" else " " for ch in src[i : j + 2]))
            i = j + 2
        else:
            out.append(c)
            i += 1
    return "".join(out)


def _eval_pp(cond, kind, repo):
    cond = cond.strip()
    if kind == "ifdef":
        if cond in PP_DEFINED:
            return True
        if cond in PP_UNDEFINED:
            return False
        raise ExtractionError("unknown preprocessor symbol in #ifdef: %s" % cond)
    if kind == "ifndef":
        return not _eval_pp(cond, "ifdef", repo)
    # #if expressions: small closed list
    if "&&" in cond and "(" not in cond.replace("defined(", "").replace("defined (", ""):
        return all(_eval_pp(c, "if", repo) for c in cond.split("&&"))
    if re.fullmatch(r"_OPENMP\s*(>=|>)\s*\d+", cond):
        return False  # baseline build: STIR_OPENMP off
    if cond in ("0", "1"):
        return cond == "1"
    m = re.fullmatch(r"STIR_VERSION\s*(<|>=|>|<=)\s*0*(\d+)", cond)
    if m:
        v = int(stir_version(repo))
        w = int(m.group(2))
        return {"<": v < w, ">=": v >= w, ">": v > w, "<=": v <= w}[m.group(1)]
    m = re.fullmatch(r"_DEBUG\s*>\s*\d+", cond)
    if m:
        return False
    m = re.fullmatch(r"!?\s*defined\s*\(?\s*(\w+)\s*\)?", cond)
    if m:
        val = _eval_pp(m.group(1), "ifdef", repo)
        return (not val) if cond.startswith("!") else val
    raise ExtractionError("unknown preprocessor condition: #if %s" % cond)


def resolve_conditionals(text, repo, log):
    """Evaluate #if/#ifdef/#ifndef/#else/#endif the way the baseline build does."""
    out = []
    stack = []  # each: [parent_active, this_branch_taken_already, currently_active]
    active = True
    for line in text.split("\n"):
        s = line.strip()
        m = re.match(r"#\s*(ifdef|ifndef|if|elif|else|endif)\b(.*)", s)
        if not m:
            if s.startswith("#") and active:
                if re.match(r"#\s*pragma\s+omp", s):
                    log.append("dropped: " + s)
                    out.append("")
                    continue
                raise ExtractionError("unexpected preprocessor line in kernel: " + s)
            out.append(line if active else "")
            continue
        kind, rest = m.group(1), m.group(2)
        if kind in ("if", "ifdef", "ifndef"):
            val = _eval_pp(rest, kind, repo) if active else False
            stack.append([active, val, val and active])
            active = val and active
            log.append("pp: #%s %s -> %s" % (kind, rest.strip(), "kept" if active else "dropped"))
        elif kind == "elif":
            parent, taken, _ = stack[-1]
            val = (not taken) and parent and _eval_pp(rest, "if", repo)
            stack[-1] = [parent, taken or val, val]
            active = val
        elif kind == "else":
            parent, taken, _ = stack[-1]
            val = parent and not taken
            stack[-1] = [parent, True, val]
            active = val
        else:
            parent, _, _ = stack.pop()
            active = parent
        out.append("")
    if stack:
        raise ExtractionError("unbalanced preprocessor conditionals in kernel")
    return "\n".join(out)


def _match_brace(src, open_idx):
    depth = 0
    i, n = open_idx, len(src)
    while i < n:
        c = src[i]
        if c == '"' or c == "'":
            q = c
            i += 1
            while i < n and src[i] != q:
                if src[i] == "\\":
                    i += 1
                i += 1
        elif c == "{":
            depth += 1
        elif c == "}":
            depth -= 1
            if depth == 0:
                return i
        i += 1
    raise ExtractionError("unbalanced braces")


def _match_paren(src, open_idx):
    depth = 0
    i, n = open_idx, len(src)
    while i < n:
        c = src[i]
        if c == '"' or c == "'":
            q = c
            i += 1
            while i < n and src[i] != q:
                if src[i] == "\\":
                    i += 1
                i += 1
        elif c == "(":
            depth += 1
        elif c == ")":
            depth -= 1
            if depth == 0:
                return i
        i += 1
    raise ExtractionError("unbalanced parentheses")


def find_function(src, func_re, nth=0):
    """Return (header_start, body_open, body_close) indices into src."""
    ms = list(re.finditer(func_re, src))
    # keep only matches that are definitions: next non-space char sequence leads to '{' before ';'
    defs = []
    for m in ms:
        j = m.end()
        k_brace = src.find("{", j)
        k_semi = src.find(";", j)
        if k_brace < 0:
            continue
        if 0 <= k_semi < k_brace:
            continue
        defs.append((m.start(), k_brace))
    if len(defs) <= nth:
        raise ExtractionError("function not found: /%s/ (definitions matched: %d)" % (func_re, len(defs)))
    start, k = defs[nth]
    return start, k, _match_brace(src, k)


def insert_loop_macros(body, name):
    """Append LC_<name>_<n> after every for/while header; reject do-while."""
    if re.search(r"\bdo\b", body):
        raise ExtractionError("do-while loop in kernel %s: not supported" % name)
    out = []
    i = 0
    n = 0
    for m in re.finditer(r"\b(for|while)\s*\(", body):
        if m.start() < i:
            continue  # nested inside a header already handled (cannot happen for well-formed code)
        close = _match_paren(body, m.end() - 1)
        out.append(body[i : close + 1])
        out.append(" LC_%s_%d " % (name, n))
        n += 1
        i = close + 1
    out.append(body[i:])
    return "".join(out), n


def apply_rules(text, rules, log, kname):
    for idx, rule in enumerate(rules):
        pat, rep, expect = rule
        text, cnt = re.subn(pat, rep, text, flags=re.S)
        ok = True
        if isinstance(expect, int):
            ok = cnt == expect
        elif isinstance(expect, tuple):
            ok = expect[0] <= cnt <= expect[1]
        log.append("rule %d /%s/ fired %d (expected %s)" % (idx, pat, cnt, expect))
        if not ok:
            # A rule that DROPS text (empty / no-op replacement) must fire exactly as audited. A rule that only renames or
            # projects (non-empty replacement) may fire a different number of times after a harmless refactoring: text it no
            # longer matches stays C++ and is caught by the leftover scan, the C compiler or the undeclared-function guard of
            # the runner (all: undecided), text it newly matches is mapped the same way and judged by the contract.
            drops = (not callable(rep)) and (rep.strip() in ("", "(void)0;", ";") or rep.strip().startswith("/*"))
            if drops or os.environ.get("VERIF_STRICT_RULES"):
                raise ExtractionError("kernel %s: rule %d /%s/ fired %d times, expected %s" % (kname, idx, pat, cnt, expect))
            log.append("note: rule %d fired %d times instead of %s (tolerated: renaming/projecting rule)" % (idx, cnt, expect))
    return text


def extract_kernel(repo, spec):
    """Return dict(code=..., meta=...) for one kernel spec."""
    path = os.path.join(repo, spec["file"])
    try:
        raw = open(path, encoding="utf-8", errors="replace").read()
    except OSError as e:
        raise ExtractionError("cannot read %s: %s" % (path, e))
    src = strip_comments(raw)
    start, bo, bc = find_function(src, spec["func"], spec.get("nth", 0))
    body = src[bo + 1 : bc]
    init_stm = ""
    if spec.get("init_list"):
        # constructor: the member-initialiser list ": m1(e1), m2(e2) ..." between the parameter list and '{' becomes the
        # assignments "self->m1 = e1; ..." in front of the body (order as written; only 'member(expr)' items accepted)
        mh = re.compile(spec["func"]).search(src, start)
        head = src[mh.end() : bo].strip()
        if not head.startswith(":"):
            raise ExtractionError("kernel %s: constructor without member-initialiser list" % spec["name"])
        items = [it.strip() for it in re.split(r",\s*(?=\w+\()", head[1:].strip()) if it.strip()]
        stm = []
        for it in items:
            mi = re.match(r"^(\w+)\(([^()]*)\)$", it)
            if not mi:
                raise ExtractionError("kernel %s: initialiser '%s' is not of the form member(expr)" % (spec["name"], it))
            stm.append("self->%s = %s;" % (mi.group(1), mi.group(2)))
        init_stm = "\n".join(stm) + "\n"
    line0 = src.count("\n", 0, start) + 1
    line1 = src.count("\n", 0, bc) + 1
    region = src[start : bc + 1]
    log = []
    if "span" in spec:
        b_re, e_re = spec["span"]
        mb = re.search(b_re, body, flags=re.S)
        if not mb:
            raise ExtractionError("kernel %s: span begin anchor /%s/ not found" % (spec["name"], b_re))
        me = re.search(e_re, body[mb.start() :], flags=re.S)
        if not me:
            raise ExtractionError("kernel %s: span end anchor /%s/ not found" % (spec["name"], e_re))
        s0 = mb.start()
        s1 = mb.start() + me.end()
        line0 = src.count("\n", 0, bo + 1 + s0) + 1
        line1 = src.count("\n", 0, bo + 1 + s1) + 1
        pre_text = body[:s0]
        body = body[s0:s1]
        region = body
        if spec.get("inline_local_consts"):
            # local 'const int NAME = EXPR[, NAME2 = EXPR2];' definitions of the function that precede the span are
            # substituted into the span (nearest preceding definition wins; repeated, as definitions may use each other)
            defs = {}
            for dm in re.finditer(r"\bconst int\s+([^;]+);", pre_text):
                depth, cur, parts = 0, "", []
                for ch in dm.group(1):
                    depth += ch in "([" 
                    depth -= ch in ")]"
                    if ch == "," and depth == 0:
                        parts.append(cur)
                        cur = ""
                    else:
                        cur += ch
                parts.append(cur)
                for d in parts:
                    mm = re.match(r"^\s*([A-Za-z_]\w*)\s*=\s*(.+?)\s*$", d, flags=re.S)
                    if mm:
                        defs[mm.group(1)] = " ".join(mm.group(2).split())
            used = []
            for _ in range(6):
                def sub(m):
                    n = m.group(0)
                    if n in defs and not re.search(r"(?:->|\.)\s*$", body[: m.start()][-3:]):
                        used.append(n)
                        return "(" + defs[n] + ")"
                    return n
                nb = re.sub(r"(?<![\w>.])[A-Za-z_]\w*\b(?!\s*\()", sub, body)
                if nb == body:
                    break
                body = nb
            if used:
                log.append("rule inline_local_consts: %s" % ", ".join(sorted(set(used))))
    if init_stm:
        body = init_stm + body
        region = init_stm + region
    sha = hashlib.sha256(region.encode()).hexdigest()
    body = resolve_conditionals(body, repo, log)
    body = apply_rules(body, spec.get("rules", []), log, spec["name"])
    body, nloops = insert_loop_macros(body, spec["name"])
    if "loops" in spec and nloops != spec["loops"]:
        raise ExtractionError("kernel %s: %d loops found, expected %d" % (spec["name"], nloops, spec["loops"]))
    # anything C++ left over?
    left = re.search(r"::|\bthis\b|\bstatic_cast\b|\btemplate\b|\bnew\b|\bdelete\b|\bthrow\b|\bstd\b", body)
    if left:
        ctx = body[max(0, left.start() - 40) : left.end() + 40].replace("\n", " ")
        raise ExtractionError("kernel %s: C++ syntax left after rules: ...%s..." % (spec["name"], ctx))
    body = re.sub(r"\n\s*\n+", "\n", body)
    pr_on = "".join('#pragma CPROVER check disable "%s"\n' % c for c in spec.get("disable_checks", []))
    if pr_on:
        pr_on = "#pragma CPROVER check push\n" + pr_on
    pr_off = "#pragma CPROVER check pop\n" if pr_on else ""
    # contract clauses are specification text: no pointer checks are generated for them (the body keeps all checks)
    spec_on = '#pragma CPROVER check push\n#pragma CPROVER check disable "pointer"\n#pragma CPROVER check disable "conversion"\n'
    spec_off = "\n#pragma CPROVER check pop"
    code = ("/* extracted from %s lines %d-%d sha256 %s */\n" + spec_on + "%s CONTRACT_%s K_CANARY_%s" + spec_off + "\n" + pr_on
            + "{\n%s\n%s\n%s\n}\n" + pr_off)
    code = code % (
        spec["file"],
        line0,
        line1,
        sha[:16],
        spec["c_header"],
        spec["name"],
        spec["name"],
        spec.get("pre", ""),
        body.strip("\n"),
        spec.get("post", ""),
    )
    meta = {
        "kernel": spec["name"],
        "function": spec.get("cxx_name", spec["func"]),
        "file": spec["file"],
        "lines": [line0, line1],
        "sha256": sha,
        "loops": nloops,
        "rules_fired": [l for l in log if l.startswith("rule")],
        "dropped": [l for l in log if not l.startswith("rule")],
        "checks_disabled_in_body": spec.get("disable_checks", []),
    }
    return {"code": code, "meta": meta}
