#!/usr/bin/env python3
"""Regenerate MANIFEST.json from tools/manifest_src.py (single source of truth for claimed checks / not-applicable list)."""
import json, os, sys
sys.path.insert(0, os.path.dirname(os.path.abspath(__file__)))
import manifest_src as M
VERIF = os.path.dirname(os.path.dirname(os.path.abspath(__file__)))
checks = []
for pid, c in sorted(M.CLAIMED.items()):
    checks.append({
        "property_id": pid,
        "quick_cmd": "./check %s --tier quick" % pid,
        "thorough_cmd": "./check %s --tier thorough" % pid,
        "evidence_file": "/verif/evidence/%s.json" % pid,
        "replay_cmd_template": "./check %s --replay {path}" % pid,
        "engine": "cbmc-contracts",
        "level_claimed": {"category": "proof", "text": c["text"], "design_ref": c.get("design_ref", "DESIGN.md section 6, " + pid)},
        "level_note": c["note"],
        "technique": c.get("technique", "CBMC code contracts (goto-instrument --dfcc, enforce/replace, loop contracts) on kernels mechanically extracted from /repo"),
    })
na = [{"property_id": pid, "reason": r} for pid, r in sorted(M.NOT_APPLICABLE.items())]
man = {
    "version": 1,
    "setup_cmd": "./setup.sh",
    "hooks": {"guard": "UCL_STIR_VERIF", "enable": "none needed: no hook commits; kernels are extracted from the unmodified sources on every run",
              "baseline_off_cmd": "ctest --test-dir /repo/_build -j8 --timeout 900", "source_commits": [], "add_only": True},
    "engines": [{"name": "cbmc-contracts", "path": "/verif/vlib", "serves_properties": sorted(M.CLAIMED),
                 "kind_free_text": "extract.py (C++ kernel -> C, counted rewrite rules) + contracts/*.h + harness/*.c, discharged by goto-cc / goto-instrument --dfcc / cbmc 6.11.0"}],
    "checks": checks,
    "notes": M.NOTES,
    "not_applicable": na,
}
json.dump(man, open(os.path.join(VERIF, "MANIFEST.json"), "w"), indent=1)
print("MANIFEST.json: %d checks, %d not applicable" % (len(checks), len(na)))
