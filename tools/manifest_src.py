NOTES = ("Contract-based deductive verification with CBMC 6.11 code contracts. Kernels are extracted mechanically from "
         "/repo's working tree on every run (vlib/extract.py; a rule miss is exit 2 = undecided, never a violation). "
         "Exit codes: 0 all obligations discharged, 1 VIOLATION, 2 UNDECIDED. See DESIGN.md.")

CLAIMED = {
    "C01": {
        "text": ("partial, parametric in the number of detectors per ring N (one complete proof per N: every predefined scanner's N scraped "
                 "from Scanner.cxx, all even N<=64 and further sizes up to 1024 (quick) / all even N<=1024 (thorough), plus N symbolic for even N<=64) - "
                 "decided: (a) initialise_uncompressed_view_tangpos_to_det1det2 fills exactly [0,N/2) x [-N/2+1,N/2], each cell once, with the "
                 "geometry's detector pair (specification in floor/wrap form), no out-of-range table write, too large tangential range reported as error; "
                 "(b) initialise_det1det2_to_uncompressed_view_tangpos stores for every ordered pair d1!=d2 a bin of that table whose pair is (d1,d2) "
                 "resp. (d2,d1) according to the orientation flag (loop contracts, ghost cell); (c) lemma: the pair->bin and bin->pair maps are mutual "
                 "inverses, a pair is assigned to at most one bin, and the exchanged pair gets the same bin with the opposite flag; (d) the API functions "
                 "get_det_num_pair_for_view_tangential_pos_num, get_view_tangential_pos_num_for_det_num_pair, get_bin_for_det_pair, "
                 "get_bin_for_det_pos_pair, get_det_pair_for_bin, get_det_pos_pair_for_bin against contracts taken from the property (view mashing, "
                 "exchange => rings exchanged and TOF index negated; TOF mashing round((float)t/f) equals the integer nearest-multiple rule for each "
                 "mashing factor f, all |t|<2^20); (e) lemmas over those contracts: exchanging the detectors gives the same bin with negated TOF index and "
                 "the same ordered ring-pair lookup; uncompressed bin -> detection position pair -> bin is the identity; (f) ring pairs: "
                 "get_segment_num_for_ring_difference, get_segment_axial_pos_num_for_ring_pair, get_ring_pair_for_segment_axial_pos_num and "
                 "compute_segment_axial_pos_to_ring_pair (stride-2 loop under loop contract: a ring pair is listed exactly once iff it is a pair of the "
                 "scanner with ring difference in the segment and ring1+ring2 of that axial position; nothing else is listed; never more than reserved), "
                 "lemmas: a covered ring pair lies in the list of the (segment, axial position) it is mapped to and in no other list; span-1 inverse; "
                 "(g) get_all_det_pos_pairs_for_bin / get_num_det_pos_pairs_for_bin (3 nested loop contracts, ghost entry; parametric in view mashing, "
                 "TOF mashing and ring-pair count): the list has exactly the reported count, every entry written once inside the vector's size, entry "
                 "(i,j,l) = detector pair of uncompressed view i, j-th ring pair, l-th unmashed TOF index; even TOF mashing factors are reported as an "
                 "error; (h) ProjDataInfoCTI span/max_delta -> segments (statement kernel with the function's own guards, 4 loop contracts, per span, "
                 "number of rings <= 128 and max_delta symbolic): illegal combinations are reported as errors, otherwise the segments' ring-difference "
                 "intervals are non-empty, symmetric, contiguous, increasing (hence disjoint) and cover exactly [-max_delta, max_delta], with the "
                 "documented numbers of axial positions; (i) the float block of initialise_ring_diff_arrays (three statement kernels composed, per "
                 "ring spacing of the predefined scanners, num_rings <= 128, axial positions < 256): ring1+ring2 of an axial position equals "
                 "2*ax/inc + ax_pos_num_offset exactly - the reader contract the ring-pair kernels use. (j) the block that fills ring_diff_to_segment_num (statement kernel, two loop contracts): the table covers every ring "
                 "difference a reader may ask for, writes stay inside it, an entry is the first segment whose interval contains the ring difference or "
                 "max_segment+1 - with disjoint intervals exactly the reader contract (lemma). (k) history: the seven setters the lazily built ring-pair tables depend on "
                 "(set_min/max_ring_difference, set_ring_spacing, set_num_axial_poss_per_segment, set_min/max_axial_pos_num, reduce_segment_range) preserve the class invariant "
                 "'validity flag raised => nothing the tables were built from has changed since' (ghost updated at every write of such a member). Not decided: ProjDataInfoGE, axial position inside a truncated axial range, Blocks/Generic classes."),
        "note": ("trusted: cbmc 6.11.0 + kissat/MiniSat; lookup tables are projected onto one nondeterministic ghost cell; readers of a table see the "
                 "filler's postcondition; segments' ring-difference intervals disjoint and increasing with the segment number (established by the constructors, assumed); "
                 "per-segment values |.|<2^15; N, view mashing, TOF mashing factor and ring-pair count are swept as constants"),
    },
    "C10": {
        "text": ("partial - the quantisation core of scaled integer output (convert_range.inl; input float, scale factor float; one complete proof per "
                 "output type signed/unsigned char, short, unsigned short, int, unsigned int; every float bit pattern of the data's largest, smallest and "
                 "any value in between, incoming scale factor 0 (automatic) or any preferred positive factor; two sub-domains: extremes zero or >= 1e-30 in magnitude, and the rest): (a) find_scale_factor (statement "
                 "kernel) returns a finite factor with which the largest and the smallest value fit the output type with the code's margin; factor 0 "
                 "(everything written as 0) only for all-zero data (or all non-positive data for unsigned output); a negative factor only for all-negative "
                 "data written to an unsigned type; (b) composition of the real find_scale_factor and the real per-element statement of convert_range "
                 "(nothing replaced, loop-free): no conversion in the element statement overflows - 'never overflows the chosen type' - and negatives "
                 "written to an unsigned type become 0; (c) stir::round(float) is within half a unit for |x| < 2^23. (d) exam information, reader side: the radionuclide block of InterfileHeader::post_processing (statement kernel; Radionuclide "
                 "constructor = its member-initialiser list under contract, data base by assumed contract, strings as ids) gives, for a name the data base "
                 "does not know, a nuclide whose half life / branching ratio / name are the header's radionuclide_half_life[0] / "
                 "radionuclide_branching_ratio[0] / name, and the data base's entry otherwise; the writer (write_interfile_radionuclide_info) emits name, half "
                 "life and branching ratio each under its own key, the reader's key table binds each key to the member of its name, and (lemma, parser "
                 "trusted) a nuclide unknown to the data base survives the round trip; (e) byte order: every inner read of read_data (converting overload, row "
                 "recursion) and every inner write of write_data_with_fixed_scale_factor uses the byte order the call was given, never an overload's default; "
                 "(f) voxel positions: the reader builds voxel size, index range and origin from the header vectors of the matching axis (x,y,z <- [1],[2],[3]; origin = first pixel "
                 "offset - voxel size * minimum index, computed once from these operands), the writer emits matrix size, scaling factor and first pixel offset keys [1],[2],[3] from the "
                 "x,y,z components of dimensions / voxel size / (voxel size * minimum index + origin), each once (statement kernels); (g) number format of the header: over the control "
                 "skeleton of write_basic_interfile_image_header (all branches, loops under loop contract) every value is inserted into the header stream in a format that can be read back "
                 "(at least 6 significant digits, not std::fixed, base 10) - stream flags are sticky, so this is a property of the whole function. Not decided: the read-back accuracy "
                 "'within half a quantisation step' (needs the IEEE error bound of the float division: solver time-out, argued in DESIGN.md), that the position "
                 "arithmetic round-trips up to rounding (only which operands enter it), header key parsing (KeyParser) and all other exam information, truncated files, dynamic/parametric containers."),
        "note": ("trusted: cbmc 6.11.0 MiniSat with its IEEE-754 float model and its floor() model; std::max_element/min_element deliver the extreme values; "
                 "element type float, scale type float"),
    },
    "C11": {
        "text": ("partial - clauses decided: VectorWithOffset<T> representation invariant preserved and abstract view (index range + "
                 "every element via a ghost index) specified for each operation under contract; out-of-range at() and "
                 "arithmetic on non-matching ranges report an error and write nothing; no access outside the owned block "
                 "(pointer/bounds obligations, symbolic length up to 65536, unbounded via loop contracts); Array<n>=2..>::is_contiguous is true iff every "
                 "sub-array is contiguous and starts where the previous one ends (sub-arrays abstracted by contiguity flag, size and first address); "
                 "Array<n>=2..>::init on a data block gives sub-array k the block that starts where sub-array k-1 ends, the first at the block's start, each of the size of its own sub-range "
                 "(so the array aliases the block exactly and is_contiguous() holds); Array<n>=2..>::resize gives the outer range requested and resizes every sub-array exactly once with "
                 "the sub-range of its own index (loop contracts, <= 8 sub-arrays per proof). "
                 "Not decided: the other Array<n>=2..4 operations (grow, fill_from/copy_to, arithmetic), iteration order, the sub-array statements one dimension down as an explicit induction."),
        "note": ("trusted: cbmc 6.11.0; extraction rule classes; shared_ptr as sole-owner pointer; std::copy/fill/equal models "
                 "(each verified against its contract); induction over operation histories argued in DESIGN.md, not machine-checked"),
    },
    "C02": {
        "text": ("partial - the layout core (bin -> element): ProjDataInMemory::get_index and ProjDataFromStream::get_offset (both storage orders, any "
                 "permutation of the segment sequence and of the TOF sequence, stream offset, element size) against contracts taken from the property: "
                 "(a) a bin with ANY of segment, axial position, view, tangential position or TOF index outside its range is reported as an error "
                 "(no offset returned), an in-range bin never is; (b) the result equals the closed form 'rows of earlier segments in stream order + TOF "
                 "block + axial position, view, tangential position' (prefix-sum loop under loop contract; std::find model verified); "
                 "(c) lemmas over that closed form in mixed-radix form: every in-range bin lies inside the buffer / data part of the stream, two "
                 "different bins never share an element (byte ranges disjoint), a row of tangential positions is contiguous - hence a value written "
                 "through one access path is what any other path reads and no other bin changes, for every access path that addresses rows through "
                 "these two functions; (d) Interfile header reader: the re-ordering loop of find_segment_sequence (statement kernel, loop contract, ghost rank) attaches to every segment number the min/max ring difference and the number of axial positions that the header gave at that segment's position in the stream, each written once inside the vectors' index range. (e) access paths, statement kernels using get_index/get_offset by contract: ProjDataInMemory::set_viewgram/get_viewgram/set_sinogram/"
                 "get_sinogram and ProjDataFromStream::set_bin_value/set_viewgram/set_sinogram/set_segment(by sinogram)/set_segment(by view), both storage "
                 "orders, row loops under loop contracts, buffer/stream projected onto a ghost element: an element is written at most once per call, a written "
                 "element is the closed-form element of a bin OF THE WRITTEN OBJECT and receives that bin's value, every bin of the object is written "
                 "(so by (c) no other bin changes); (f) every ProjDataFromStream write call that returns normally has flushed everything it wrote (ghost "
                 "dirty flag; seek/write failures and exceptions nondeterministic) - 'visible to an independent reader as soon as each write call returns'; "
                 "an out-of-range single bin writes nothing; and has stored its block with the file's scale factor, the one every reader multiplies with; "
                 "(g) read paths ProjDataFromStream::get_bin_value/get_viewgram/get_sinogram/get_segment_by_sinogram/get_segment_by_view and ProjDataInMemory::get_/set_bin_value, set_segment, "
                 "get_segment_by_sinogram: every element of the returned object is read once from the closed-form place and scaled once; (h) ProjData base "
                 "class loops (set_segment x2, get_segment_by_* x2, set_related_viewgrams, fill x2): every part of the object is handed to the smaller path "
                 "exactly once with its own indices and a failure is reported. Parametric: numbers of views / tangential positions / bytes per element are constants per job. "
                 "(i) the SegmentByView/SegmentBySinogram conversions move rows between [axial][view] and [view][axial] order (row loops and constructor loops under loop contracts); the constructor of ProjDataInMemory and ProjDataFromStream::activate_TOF establish the TOF part of the layout description. Not decided: order inside the one "
                 "block of set_segment(by view) in view order, on-disk number type and byte order (write_data/read_data are stubs), the rest of the Interfile "
                 "header round trip (keyword parsing, the two std::sort calls of find_segment_sequence: assumed), that a flushed fstream is visible to "
                 "another process (OS behaviour; exercised natively by the replay driver). Also decided: every value inserted by write_basic_interfile_PDFS_header goes into the header stream in a number format that can be read back (typestate over the function's control skeleton)."),
        "note": ("trusted: cbmc 6.11.0 + kissat; at most 5 segments and 3 TOF bins per proof; segment_sequence/timing_poss_sequence are permutations and "
                 "offset_3d_data is one TOF block (constructors, assumed); the equality of the distributed closed form (verified against the code) and "
                 "the mixed-radix form (used by the lemmas) is distributivity of integer multiplication: discharged by CBMC for power-of-two sizes only, "
                 "assumed otherwise; instances of the proved prefix-sum lemma are assumed where used"),
    },
    "C03": {
        "text": ("partial - index/bookkeeping core: (a) ProjMatrixByBin::cache_key packs (axial, tangential, TOF) into disjoint sign+magnitude "
                 "fields of a 64-bit key (decoder postconditions) and is injective on its domain (lemma over the contract), so together "
                 "with the [view][segment] bucket a cached row can only be returned for the bin it was stored for; (b) the real "
                 "get_proj_matrix_elems_for_one_bin, verified against assumed contracts of its callees, returns the row the property "
                 "prescribes (basic-bin row, TOF kernel applied iff TOF, transformed by the bin's symmetry operation) in all cache modes, "
                 "hit or miss, and every cache insertion satisfies the cache invariant - hence independence of request history by "
                 "induction; (c) symmetry bookkeeping, composition of the REAL bodies of find_symmetry_operation_from_basic_bin, "
                 "find_sym_op_bin0, find_sym_op_general_bin, find_basic_bin, find_basic_view_segment_numbers (cylindrical branch) and the "
                 "transform_bin_coordinates of all 16 SymmetryOperation_PET_CartesianGrid_* classes (loop-free, every bin, every valid "
                 "combination of the five symmetry switches, num_views symbolic <= 4096): the operation found for a bin, applied to its "
                 "basic bin, gives back the bin in all five coordinates; the basic bin is a fixed point of find_basic_bin and lies in the "
                 "data; a bin that is its own basic bin gets an operation that leaves bins unchanged; (d) image side: transform_image_coordinates of all 16 "
                 "operation classes maps (x,y,z) as the class name states (contract generated from the name), keeps (x,y) inside a centred square "
                 "index range, and is injective (lemma per class over the real body) - a symmetry-derived row has no voxel twice if the basic row has "
                 "none; (e) the bundle of tangential rays traced for a bin is centred on the bin (statement kernel for the first ray's position, float, per "
                 "number of rays), which a mirrored row needs to equal the directly computed one; (f) the constructor's decision which symmetry switches survive "
                 "(two statement kernels + lemma, float conditions nondeterministic): the class invariant used by (c) and by C06 holds for every "
                 "constructed object, TOF data keeps only the z-shift symmetry. Not decided: equality of float row values beyond that, non-negativity, the axial coordinate staying inside the image (float-derived "
                 "q / z_shift), that the image transform is the geometric counterpart of the bin transform. "
                 "(g) set-up history: ProjMatrixByBin::clear_cache leaves every [view][segment] bucket empty (loop contracts, ghost bucket); the cache part of "
                 "ProjMatrixByBin::set_up recycles the collection before resizing it, so no row survives a set_up; ProjMatrixByBinUsingRayTracing::set_up returns early "
                 "only when it was set up before with the same projection data info, voxel size, origin, minimum and maximum image index, and clears the cache and sets already_setup on "
                 "every other path - rows served after setting the matrix up for another geometry were computed for it; the eight parameter setters of ProjMatrixByBinUsingRayTracing preserve "
                 "'already_setup => no parameter changed since set_up' (ghost updated at the parameter write)."),
        "note": ("assumed contracts: calculate_proj_matrix_elems_for_one_bin, apply_tof_kernel, SymmetryOperation::transform_proj_matrix_elems_for_one_bin, "
                 "std::unordered_map; rows are abstract ids in (b); the virtual dispatch over the 16 operation classes is a generated switch "
                 "(class list and constructor parameter order scraped and checked); flag normalisation of the constructor (90 => 180, view counts, "
                 "TOF data => only z-shift) proved for the cylindrical branch (kernels K_sym_ctor_*), assumed for BlocksOnCylindrical; induction over histories is argued, not machine-checked"),
    },
    "C06": {
        "text": ("partial - decided: (a) find_basic_view_segment_numbers maps every view-segment of the data to a representative that lies in "
                 "the data, is related to it by the enabled symmetries only, is a fixed point (idempotence lemma) and the 'changed' flag "
                 "is truthful; (b) get_related_view_segment_numbers of a basic view-segment lists exactly its class: members in the data, "
                 "pairwise distinct, each mapping back to it, complete (lemma), count equal to num_related_view_segment_numbers; "
                 "(c) find_basic_vs_nums_in_subset emits a view-segment exactly once iff it is basic, in the segment range and in the "
                 "subset's residue class (loop contracts, unbounded in views/segments; parametric in num_subsets), never once per TOF bin; "
                 "(d) every view lies in exactly one subset; (e) get_subset_num returns a subset in range in every state reachable after "
                 "set_up (also randomised order and any start sub-iteration) and, non-randomised, two different sub-iterations of one full "
                 "iteration use different subsets for any start subset. (f) actual_subsets_are_approximately_balanced: the counting loops add to the entry of subset s, exactly once and with "
                 "weight num_related, every view-segment that find_basic_vs_nums_in_subset gives to subset s and nothing with another weight (three nested "
                 "loop contracts); the verdict loop returns true only if every entry equals entry 0 and false only with a subset that differs from entry 0. "
                 "(g) the sub-iteration loop of IterativeReconstruction::reconstruct presents every sub-iteration number from the start "
                 "to the last exactly once and in order to update_estimate (loop contract; early termination nondeterministic). "
                 "(i) randomly_permute_subset_order (real body, three loop contracts, per number of subsets up to 24 quick / 48 and 64 thorough): the random order has index range "
                 "[0,num_subsets), and every subset number occurs in it exactly once, for every value rand() can return (the float index computation is part of the kernel) - the contract "
                 "the get_subset_num jobs use for the call; get_subset_num regenerates the random order exactly at the first sub-iteration of a full iteration (or when none exists), keeps it otherwise, "
                 "and returns entry k of it at sub-iteration k of the full iteration; lemma: two different sub-iterations of one full iteration use different subsets, also with randomised order and any start subset. "
                 "(h) the class invariant all of this rests on - 90-degree symmetry only with the 180-degree one and a number of views divisible by 4, "
                 "180-degree symmetry only for an even number of views, TOF data only the z-shift - is established by the constructor "
                 "(two statement kernels + lemma; float conditions nondeterministic). "
                 "All symmetry switches symbolic. Not decided: that an entry is the sum of its contributions (read from the single '+='), "
                 "that every update_estimate passes get_subset_num()'s value on (syntactic static fact only), other symmetry classes."),
        "note": ("trusted: cbmc 6.11.0 + kissat; view range [0,num_views), "
                 "symmetric segment range; rand() in [0,RAND_MAX]; std::vector modelled by "
                 "bounded array / ghost counters; parametric: num_subsets swept as constants"),
    },
    "C08": {
        "text": ("partial - the bounds clause and the schedule of the relaxation: (a) threshold_upper_lower / threshold_upper / threshold_lower "
                 "(thresholding.h, loop contracts, symbolic length, ghost element): afterwards every element equals clamp(old, min, max) exactly and "
                 "nothing else changed; the block of update_estimate after the additive update (statement kernel K_ossps_clamp_tail, callee contracts) "
                 "leaves every element equal to clamp(old, 0, (float)upper_bound): iterates lie within [0, upper bound]; (b) the integer iteration number n used in "
                 "the relaxation alpha/(1+gamma*n) (statement kernel, per number of subsets): equals the full iteration (k-1)/num_subsets of "
                 "sub-iteration k for every sub-iteration that is not the last of its full iteration, whatever sub-iteration the run was started (resumed) at; for the last one it is n+1 (KNOWN FINDING, "
                 "reported on every run), never anything else; (c) BOUNDED (sequence length <= 6, not counted as proof): after "
                 "threshold_min_to_small_positive_value every element of a NaN-free denominator is strictly positive. (d) the dataflow of the additive update for one voxel (statement kernel; float operations logged, not evaluated): "
                 "numerator = gradient * num_subsets, divided once by the thresholded denominator (stored one, or precomputed + 2 * prior curvature computed at the first "
                 "sub-iteration of a run or at every sub-iteration), times the relaxation, added to the image - each step once, in this order, nothing else. "
                 "Not decided: the values of gradient, curvature and precomputed denominator (virtual objective-function calls); restart equivalence beyond the schedule and the divisor choice (fill_nonidentifiable_target_parameters)."),
        "note": ("trusted: cbmc 6.11.0 MiniSat; iterators are pointers into one float array; static facts are syntactic scans; the shape "
                 "alpha/(1+gamma*n) of the relaxation statement is matched by the extraction rule"),
    },
    "C09": {
        "text": ("partial - border clause only: for every one of the 45 neighbourhood-bound sites in Quadratic/RelativeDifference/"
                 "Logcosh priors the extracted bound expressions satisfy, for all ints (|.|<2^28): every visited offset d addresses "
                 "a voxel inside the image and a weight inside the weights array, and every in-image neighbour inside the weights' "
                 "support is visited (soundness + completeness; loop-free full-domain proof); in the loop bodies of compute_value / compute_gradient / compute_Hessian / "
                 "accumulate_Hessian_times_input every subscript triple of image, kappa and weights is an obligation (K_c09idx_<class>): centre (z,y,x), neighbour "
                 "(z+dz,y+dy,x+dx) with the same offsets that subscript the weights, kappa read at exactly these two voxels. Not decided: derivative relations, "
                 "Hessian symmetry/PSD, scaling, PLSPrior."),
        "note": ("trusted: cbmc 6.11.0; the loops over dz/dy/dx and the index triples [z+dz][y+dy][x+dx] are matched syntactically "
                 "by the extraction (anchors), their subscripts are obligations; operand renaming rules of props/c09.py"),
    },
    "C20": {
        "text": ("partial - the index maps of the detector-pair ('fan') representation (ML_norm.cxx): (a) FanProjData::is_in_data is true exactly for the "
                 "pairs whose second ring lies in the stored half [ra, ra+max_ring_diff] and whose second detector lies in the fan of the first modulo "
                 "the ring size; (b) FanProjData::operator() (const and non-const) addresses, for every pair that is in the data in one of the two "
                 "orders, an element inside the index ranges the constructor builds (no out-of-range access), namely the pair's own cell for ra<rb and "
                 "the exchanged pair's cell otherwise; (c) lemmas over that contract, per ring size: a pair and its exchange in different rings share "
                 "one cell, two pairs that are neither equal nor each other's exchange never share a cell (lossless); (d) the virtual-crystal ('gap') "
                 "index maps of make_fan_data_remove_gaps_help and set_fan_data_add_gaps_help (statement kernels, per block geometry): a pair is used "
                 "iff all four crystals are physical, new index = x - (x / C) * V; lemma: the renumbering of physical crystals is a bijection onto "
                 "[0, blocks*(C-V)) preserving block and position in block - both functions use the same map, so removing and re-adding gaps is "
                 "lossless; (e) ML update of the geometric and block factors: the element statement of the four iterate_geo_norm / iterate_block_norm "
                 "functions (statement kernels, float): the new factor is the quotient measured/model whenever measured < 10^4 * model and never anything "
                 "but that quotient or 0; lemma: for data generated from the model (measured = model*f, 1e-3 <= f <= 1e3) the update is the quotient - the "
                 "generating factors are a fixed point up to the rounding of one product and one quotient (that rounding bound itself: IEEE, not proved). "
                 "(f) apply / un-apply statements of apply_block_norm, apply_efficiencies, apply_geo_norm: apply multiplies and un-apply divides by the same "
                 "factor with the indices the factor kind prescribes. "
                 "(g) the range accessors get_min_rb/get_max_rb/get_min_b/get_max_b/get_max_a/get_max_ra return the ranges the geometry prescribes; "
                 "iterate_efficiencies visits every partner of a detector's fan exactly once (four nested loop contracts). "
                 "(h) make_block_data adds every pair of the stored half exactly once, to the block cell named by the four quotients, and nothing else (four nested loop contracts, per block geometry); "
                 "FanProjData::sum(ra,a) reads every partner of the fan exactly once at (ra,a,rb,b mod N) and make_fan_sum_data stores for every detector its own fan sum, once (loop contracts). "
                 "Not decided: that the division undoes the multiplication (rounding), the rotation/mirror map of apply_geo_norm and make_geo_data, the float sums themselves (only which elements enter them), "
                 "update, KL descent of the ML iterations, the loops around the maps; the FanProjData and GeoData3D constructors, GeoData3D::is_in_data and operator() ARE under contract (index ranges = reader contracts, element addressed inside them); BlockData3D is a typedef of FanProjData (covered); the 2D classes DetPairData / GeoData / BlockData are not."),
        "note": ("trusted: cbmc 6.11.0 + kissat; IndexRange/Array grow deliver the requested ranges (C11); bin <-> detector "
                 "pair maps are C01"),
    },
}

_PENDING = "claimed in DESIGN.md but the check is not built yet in this commit; will move to checks when it exists"
NOT_APPLICABLE = {
    "C04": "linearity/adjointness/additivity are equalities up to floating-point reassociation between long accumulations through virtual projector classes; bit-precise CBMC cannot state 'up to rounding' compositionally nor close the Siddon/interpolation loops; no leaf contract decides it",
    "C05": "value/gradient/Hessian are float sums over all bins with log(), reached only through virtual objective-function/projector objects; CBMC's libm model leaves log unconstrained; element-wise kernels do not decide the textbook equality",
    "C07": "EM update is spread over array expressions, back projection and sensitivity caches behind virtual calls; monotonicity/count preservation are real-analysis facts that do not survive bit-precise float semantics; the schedule part of restartability is decided under C06",
    "C12": "every clause goes through sin/cos/atan2/sqrt on floats; CBMC has no usable model of these functions and the tolerances cannot be derived without one",
    "C13": "apply-undo restores data only up to rounding; classes differ by virtual overrides reading projection data / forward projecting attenuation images (exp of line integrals); no contract within reach",
    "C14": "whole-history property of LmToProjData::process_data (300-line method over ListModeData virtuals, iostream, try/catch); no function boundary carries it; the event->bin map is C01",
    "C15": "SSRB matches sinograms by float get_m comparisons and zooming is separable float overlap_interpolate; conservation 'to rounding' and centre-of-mass tolerances are float-analysis statements outside the verifier's reach",
    "C16": "scatter estimate is a float integral with exp, acos, energy-resolution Gaussians and erf; symmetry holds only up to rounding; cache invalidation is object history through setters of a 2000-line class",
    "C17": "KeyParser is std::string/std::istream/boost::any/std::map code; CBMC's C++ front end cannot parse any libstdc++ header and a C re-implementation would be a model, not the code",
    "C18": "OpenMP schedules: CBMC has no OpenMP semantics, goto-cc drops the pragmas, --dfcc contract instrumentation is sequential only",
    "C19": "DFT uses sin/cos twiddle factors and O(n log n) float accumulations; inverse/Parseval/convolution equalities are approximate; only index safety would be provable and it does not decide the property",
}
