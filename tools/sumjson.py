#!/usr/bin/env python3
"""Summarise a cbmc --json-ui output: counts by status, first failures (non-instrumentation)."""
import json, sys
d = json.load(open(sys.argv[1]))
lim = int(sys.argv[2]) if len(sys.argv) > 2 else 12
for e in d:
    if 'result' in e:
        rs = e['result']
        c = {}
        for r in rs: c[r['status']] = c.get(r['status'], 0) + 1
        print(len(rs), 'obligations', c)
        n = 0
        for r in rs:
            if r['status'] == 'FAILURE':
                n += 1
                if n <= lim: print('  FAIL', r['property'], '|', r['description'][:120])
    if 'cProverStatus' in e: print(e['cProverStatus'])
    if e.get('messageType') == 'ERROR': print('ERR', e.get('messageText','')[:300])
