#!/usr/bin/env python3
"""trace.py out.json <property> [function-regex]: print assignments of one failing property's trace."""
import json, re, sys
d = json.load(open(sys.argv[1])); prop = sys.argv[2]; fre = re.compile(sys.argv[3] if len(sys.argv) > 3 else ".")
for e in d:
    if 'result' in e:
        for r in e['result']:
            if r['property'] == prop:
                print(r['description'])
                for st in r.get('trace', []):
                    if st.get('stepType') == 'assignment':
                        fn = (st.get('sourceLocation') or {}).get('function') or ''
                        if fre.search(fn) and not st['lhs'].startswith('__') and 'return_value' not in st['lhs']:
                            print(' ', fn, (st.get('sourceLocation') or {}).get('line'), st['lhs'], '=', (st.get('value') or {}).get('data'))
