// Native replay for C08: the REAL thresholding.h templates (header-only, from /repo's working tree) on float sequences,
// compared element by element with clamp(); all sequences of length <= 3 over a list of special values.
// exit 0: as specified; exit 1 + CONFIRMED line otherwise
#include "stir/thresholding.h"
#include <cstdio>
#include <vector>
using namespace stir;
int main()
{
  const float vals[] = { -3.F, -0.F, 0.F, 1e-30F, 0.5F, 1.F, 2.F, 1e30F };
  const int nv = sizeof(vals) / sizeof(vals[0]);
  for (int len = 0; len <= 3; ++len)
    {
      long combos = 1; for (int i = 0; i < len; ++i) combos *= nv;
      for (long c = 0; c < combos; ++c)
        {
          std::vector<float> a(len); long cc = c;
          for (int i = 0; i < len; ++i) { a[i] = vals[cc % nv]; cc /= nv; }
          for (float lo : { 0.F, 0.5F })
            for (float hi : { 0.5F, 1.F, 1e30F })
              {
                if (lo > hi) continue;
                std::vector<float> b = a;
                threshold_upper_lower(b.begin(), b.end(), lo, hi);
                for (int i = 0; i < len; ++i)
                  {
                    const float want = a[i] > hi ? hi : (lo > a[i] ? lo : a[i]);
                    if (b[i] != want) { std::printf("CONFIRMED threshold_upper_lower(%g,%g): element %g became %g, clamp gives %g\n", lo, hi, a[i], b[i], want); return 1; }
                  }
                b = a; threshold_upper(b.begin(), b.end(), hi);
                for (int i = 0; i < len; ++i) if (b[i] != (a[i] > hi ? hi : a[i])) { std::printf("CONFIRMED threshold_upper(%g): element %g became %g\n", hi, a[i], b[i]); return 1; }
                b = a; threshold_lower(b.begin(), b.end(), lo);
                for (int i = 0; i < len; ++i) if (b[i] != (lo > a[i] ? lo : a[i])) { std::printf("CONFIRMED threshold_lower(%g): element %g became %g\n", lo, a[i], b[i]); return 1; }
              }
          std::vector<float> d = a;
          threshold_min_to_small_positive_value(d.begin(), d.end(), 10.E-6F);
          for (int i = 0; i < len; ++i)
            if (!(d[i] > 0) || (a[i] > 0 && d[i] != a[i]))
              { std::printf("CONFIRMED threshold_min_to_small_positive_value: element %g became %g (must be strictly positive, positive elements unchanged)\n", a[i], d[i]); return 1; }
        }
    }
  std::printf("REPLAY ok\n");
  return 0;
}
