// Native replay for C08, relaxation schedule / resume clause, against the REAL STIR libraries of /repo's working tree.
// OSSPS (no prior, image completely inside the field of view) on a tiny data set:
//  (a) a run resumed at sub-iteration k+1 from the iterate saved after sub-iteration k gives the iterates of the uninterrupted run;
//  (b) the step taken at sub-iteration s scales with zeta_n = alpha/(1+gamma*n): the relaxation actually used (read from the
//      member through a subclass) equals alpha/(1+gamma*n) with n the full-iteration number the code documents (s/num_subsets;
//      the off-by-one of that convention is the open known finding and not tested here).
// usage: c08_ossps_replay [formula]   (formula: first sub-iteration against clamp(x + zeta N grad / D) recomputed through the objective function's public interface)
//        exit 0 "REPLAY ok"; exit 1 + CONFIRMED line otherwise
#include "stir/OSSPS/OSSPSReconstruction.h"
#include "stir/recon_buildblock/PoissonLogLikelihoodWithLinearModelForMeanAndProjData.h"
#include "stir/recon_buildblock/ProjMatrixByBinUsingRayTracing.h"
#include "stir/recon_buildblock/ProjectorByBinPairUsingProjMatrixByBin.h"
#include "stir/recon_buildblock/ForwardProjectorByBinUsingProjMatrixByBin.h"
#include "stir/ProjDataInMemory.h"
#include "stir/recon_buildblock/QuadraticPrior.h"
#include "stir/recon_buildblock/PriorWithParabolicSurrogate.h"
#include "stir/ProjDataInfo.h"
#include "stir/Scanner.h"
#include "stir/ExamInfo.h"
#include "stir/VoxelsOnCartesianGrid.h"
#include "stir/Succeeded.h"
#include "stir/Verbosity.h"
#include <algorithm>
#include <cmath>
#include <cstdio>
#include <string>
using namespace stir;
typedef DiscretisedDensity<3, float> target_type;

static unsigned long st = 4711UL;
static float rnd() { st = (st * 1103515245UL + 12345UL) % 2147483648UL; return float(st) / 2147483648.F; }

class OSSPS : public OSSPSReconstruction<target_type>
{
public:
  void relax(float a, float g) { relaxation_parameter = a; relaxation_gamma = g; }
};

static shared_ptr<ProjDataInMemory> data;
static bool with_prior = false;
static shared_ptr<target_type> run(const target_type& start, int S, int first, int last, float alpha, float gamma)
{
  shared_ptr<PoissonLogLikelihoodWithLinearModelForMeanAndProjData<target_type>> obj(new PoissonLogLikelihoodWithLinearModelForMeanAndProjData<target_type>);
  obj->set_proj_data_sptr(data);
  shared_ptr<ProjMatrixByBinUsingRayTracing> pm(new ProjMatrixByBinUsingRayTracing);
  pm->set_restrict_to_cylindrical_FOV(false);
  shared_ptr<ProjectorByBinPair> pp(new ProjectorByBinPairUsingProjMatrixByBin(pm));
  obj->set_projector_pair_sptr(pp);
  if (with_prior)
    {
      shared_ptr<GeneralisedPrior<target_type>> prior(new QuadraticPrior<float>(false, 0.5F));
      obj->set_prior_sptr(prior);
    }
  OSSPS r;
  r.set_objective_function_sptr(obj);
  r.set_input_data(data);
  r.set_num_subsets(S);
  r.set_num_subiterations(last);
  r.set_start_subiteration_num(first);
  r.relax(alpha, gamma);
  r.set_disable_output(true);
  r.set_output_filename_prefix("c08_replay_ossps");
  shared_ptr<target_type> img(start.clone());
  if (r.set_up(img) == Succeeded::no) { std::printf("set_up failed\n"); std::exit(3); }
  if (r.reconstruct(img) == Succeeded::no) { std::printf("reconstruct failed\n"); std::exit(3); }
  return img;
}
static double maxdiff(const target_type& a, const target_type& b, double& mx)
{
  double m = 0; mx = 0;
  auto ib = b.begin_all_const();
  for (auto ia = a.begin_all_const(); ia != a.end_all_const(); ++ia, ++ib) { m = std::max(m, std::fabs(double(*ia) - double(*ib))); mx = std::max(mx, std::fabs(double(*ia))); }
  return m;
}

// one sub-iteration (the first of a run) with a quadratic prior against the formula of the property, everything recomputed from the
// objective function: D = max-to-positive( -(approximate Hessian of the log-likelihood applied to ones) + 2 * prior surrogate curvature )
static int formula(const target_type& start)
{
  struct { int S; float alpha, gamma; bool prior; } cfg[] = { { 4, 1.F, 0.1F, true }, { 2, 1.5F, 0.5F, false }, { 1, 1.F, 0.3F, true } };
  for (auto& c : cfg)
    {
      shared_ptr<PoissonLogLikelihoodWithLinearModelForMeanAndProjData<target_type>> obj(new PoissonLogLikelihoodWithLinearModelForMeanAndProjData<target_type>);
      obj->set_proj_data_sptr(data);
      shared_ptr<ProjMatrixByBinUsingRayTracing> pm(new ProjMatrixByBinUsingRayTracing);
      pm->set_restrict_to_cylindrical_FOV(false);
      shared_ptr<ProjectorByBinPair> pp(new ProjectorByBinPairUsingProjMatrixByBin(pm));
      obj->set_projector_pair_sptr(pp);
      if (c.prior)
        {
          shared_ptr<GeneralisedPrior<target_type>> prior(new QuadraticPrior<float>(false, 0.5F));
          obj->set_prior_sptr(prior);
        }
      OSSPS r;
      r.set_objective_function_sptr(obj);
      r.set_input_data(data);
      r.set_num_subsets(c.S);
      r.set_num_subiterations(1);
      r.set_start_subiteration_num(1);
      r.relax(c.alpha, c.gamma);
      r.set_disable_output(true);
      r.set_output_filename_prefix("c08_replay_ossps");
      shared_ptr<target_type> img(start.clone());
      if (r.set_up(img) == Succeeded::no) { std::printf("set_up failed\n"); return 3; }
      if (r.reconstruct(img) == Succeeded::no) { std::printf("reconstruct failed\n"); return 3; }
      // expected
      shared_ptr<target_type> x(start.clone());
      obj->fill_nonidentifiable_target_parameters(*x, 0);
      shared_ptr<target_type> D(x->get_empty_copy()), ones(x->get_empty_copy()), grad(x->get_empty_copy());
      std::fill(ones->begin_all(), ones->end_all(), 1.F);
      obj->add_multiplication_with_approximate_Hessian_without_penalty(*D, *ones);
      for (auto it = D->begin_all(); it != D->end_all(); ++it) *it = -*it;
      if (c.prior)
        {
          shared_ptr<target_type> curv(x->get_empty_copy());
          dynamic_cast<PriorWithParabolicSurrogate<target_type>&>(*obj->get_prior_ptr()).parabolic_surrogate_curvature(*curv, *x);
          auto id = D->begin_all();
          for (auto ic = curv->begin_all_const(); ic != curv->end_all_const(); ++ic, ++id) *id = *ic * 2 + *id;
        }
      for (auto it = D->begin_all(); it != D->end_all(); ++it) if (*it <= 0) *it = 10.E-6F;
      obj->compute_sub_gradient(*grad, *x, 0);
      const int n = 1 / c.S; // the code's convention for sub-iteration 1 (see the open known finding for the last sub-iteration of an iteration)
      const float zeta = c.alpha / (1 + c.gamma * n);
      double worst = 0, mx = 0;
      auto ig = grad->begin_all_const(); auto id = D->begin_all_const(); auto ir = img->begin_all_const();
      for (auto ix = x->begin_all_const(); ix != x->end_all_const(); ++ix, ++ig, ++id, ++ir)
        {
          float v = *ix + (*ig * c.S) / *id * zeta;
          if (v < 0) v = 0;
          worst = std::max(worst, std::fabs(double(v) - double(*ir)));
          mx = std::max(mx, std::fabs(double(v)));
        }
      if (worst > 2e-4 * std::max(mx, 1e-20))
        {
          std::printf("CONFIRMED OSSPS %d subsets, alpha %g, gamma %g, %s: the first sub-iteration differs from clamp(x + zeta N grad / D): max abs difference %g (image max %g)\n",
                      c.S, c.alpha, c.gamma, c.prior ? "quadratic prior" : "no prior", worst, mx);
          return 1;
        }
    }
  return 0;
}
int main(int argc, char** argv)
{
  try
    {
      Verbosity::set(0);
      shared_ptr<Scanner> scanner(new Scanner(Scanner::E953));
      scanner->set_num_rings(3);
      shared_ptr<ProjDataInfo> info(ProjDataInfo::ProjDataInfoCTI(scanner, 1, 1, 32, 24));
      shared_ptr<ExamInfo> exam(new ExamInfo);
      exam->imaging_modality = ImagingModality::PT;
      data.reset(new ProjDataInMemory(exam, info));
      shared_ptr<VoxelsOnCartesianGrid<float>> truth(new VoxelsOnCartesianGrid<float>(exam, *info, 1.F, CartesianCoordinate3D<float>(0, 0, 0), CartesianCoordinate3D<int>(-1, 15, 15)));
      for (auto it = truth->begin_all(); it != truth->end_all(); ++it) *it = 1.F + 4.F * rnd();
      {
        shared_ptr<ProjMatrixByBinUsingRayTracing> pm(new ProjMatrixByBinUsingRayTracing);
        pm->set_restrict_to_cylindrical_FOV(false);
        shared_ptr<ForwardProjectorByBin> fwd(new ForwardProjectorByBinUsingProjMatrixByBin(pm));
        fwd->set_up(info, truth);
        fwd->set_input(*truth);
        fwd->forward_project(*data);
        for (auto it = data->begin(); it != data->end(); ++it) *it = std::max(0.F, *it * (0.8F + 0.4F * rnd()));
      }
      shared_ptr<target_type> start(truth->get_empty_copy());
      for (auto it = start->begin_all(); it != start->end_all(); ++it) *it = 0.5F + 3.F * rnd();
      if (argc > 1 && std::string(argv[1]) == "formula")
        {
          const int rc = formula(*start);
          if (!rc) std::printf("REPLAY ok\n");
          return rc;
        }
      struct { int S, K, k; float alpha, gamma; } cfg[] = { { 4, 10, 5, 1.F, 0.1F }, { 2, 7, 3, 1.5F, 0.5F }, { 1, 4, 2, 1.F, 0.3F }, { 4, 9, 4, 1.F, 0.F } };
      for (int pass = 0; pass < 2; ++pass)
      for (auto& c : cfg)
        {
          with_prior = pass == 1; // second pass: quadratic prior (the image is completely inside the field of view: every voxel is identifiable)
          shared_ptr<target_type> whole = run(*start, c.S, 1, c.K, c.alpha, c.gamma);
          shared_ptr<target_type> part = run(*start, c.S, 1, c.k, c.alpha, c.gamma);
          shared_ptr<target_type> resumed = run(*part, c.S, c.k + 1, c.K, c.alpha, c.gamma);
          double mx;
          const double d = maxdiff(*whole, *resumed, mx);
          if (d > 1e-5 * std::max(mx, 1e-20))
            {
              std::printf("CONFIRMED OSSPS %d subsets, alpha %g, gamma %g, %s: %d sub-iterations resumed after sub-iteration %d differ from the uninterrupted run: max abs difference %g (image max %g)\n",
                          c.S, c.alpha, c.gamma, with_prior ? "quadratic prior" : "no prior", c.K, c.k, d, mx);
              return 1;
            }
        }
    }
  catch (...)
    {
      std::printf("exception\n");
      return 3;
    }
  std::printf("REPLAY ok\n");
  return 0;
}
