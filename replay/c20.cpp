// Native replay for C20 against the REAL STIR libraries of /repo's working tree.
// usage: c20_replay indata <num_rings> <num_detectors_per_ring> <max_ring_diff> <fan_size>   FanProjData::is_in_data / operator() against the fan geometry (ASan)
//        c20_replay gaps                                                                       the same on a scanner with virtual crystals: gap bins get the gap value
//        c20_replay applyundo                                                                  apply multiplies by the factor of the pair's class, un-apply restores (block factors, efficiencies)
//        c20_replay roundtrip                                                                  proj data -> fan data -> proj data is lossless inside the fan
// exit 0: as specified; exit 1 + CONFIRMED line otherwise
#include "stir/ML_norm.h"
#include "stir/ProjDataInMemory.h"
#include "stir/ProjDataInfo.h"
#include "stir/ProjDataInfoCylindricalNoArcCorr.h"
#include "stir/ExamInfo.h"
#include "stir/Scanner.h"
#include "stir/Bin.h"
#include <algorithm>
#include <cmath>
#include <cstdio>
#include <cstdlib>
#include <cstring>
using namespace stir;

static int indata(int R, int N, int D, int fan)
{
  FanProjData f(R, N, D, fan);
  for (int ra = 0; ra < R; ++ra)
    for (int a = 0; a < N; ++a)
      for (int rb = 0; rb < R; ++rb)
        for (int b = 0; b < N; ++b)
          {
            const bool in = f.is_in_data(ra, a, rb, b);
            const int lo = f.get_min_b(a), hi = f.get_max_b(a);
            const bool really = rb >= ra && rb <= f.get_max_rb(ra) && ((b >= lo && b <= hi) || (b + N >= lo && b + N <= hi));
            if (in != really)
              {
                std::printf("CONFIRMED FanProjData(%d,%d,%d,%d)::is_in_data(%d,%d,%d,%d) = %d but detector %d is %sin the fan [%d,%d] (modulo %d) of detector %d\n",
                            R, N, D, fan, ra, a, rb, b, (int)in, b, really ? "" : "not ", lo, hi, N, a);
                return 1;
              }
            if (in)
              f(ra, a, rb, b) += 1.F; // ASan: must stay inside the array
          }
  std::printf("REPLAY ok\n");
  return 0;
}

static int roundtrip()
{
  shared_ptr<Scanner> scanner(new Scanner(Scanner::E953));
  scanner->set_num_rings(4);
  shared_ptr<ProjDataInfo> info(ProjDataInfo::ProjDataInfoCTI(scanner, 1, 3, scanner->get_num_detectors_per_ring() / 2, 65, false));
  shared_ptr<ExamInfo> exam(new ExamInfo);
  ProjDataInMemory pd(exam, info), back(exam, info);
  float x = 1.F;
  for (int s = info->get_min_segment_num(); s <= info->get_max_segment_num(); ++s)
    for (int a = info->get_min_axial_pos_num(s); a <= info->get_max_axial_pos_num(s); ++a)
      for (int v = 0; v < info->get_num_views(); ++v)
        for (int t = info->get_min_tangential_pos_num(); t <= info->get_max_tangential_pos_num(); ++t)
          { pd.set_bin_value(Bin(s, v, a, t, 0, x)); x += 1.F; }
  FanProjData fan;
  make_fan_data_remove_gaps(fan, pd);
  set_fan_data_add_gaps(back, fan, -7.F);
  for (int s = info->get_min_segment_num(); s <= info->get_max_segment_num(); ++s)
    for (int a = info->get_min_axial_pos_num(s); a <= info->get_max_axial_pos_num(s); ++a)
      for (int v = 0; v < info->get_num_views(); ++v)
        for (int t = info->get_min_tangential_pos_num(); t <= info->get_max_tangential_pos_num(); ++t)
          {
            Bin b1(s, v, a, t), b2(s, v, a, t);
            const float want = pd.get_bin_value(b1), got = back.get_bin_value(b2);
            if (got != want) { std::printf("CONFIRMED proj data -> fan data -> proj data: bin (seg %d, ax %d, view %d, tang %d) was %g, comes back as %g\n", s, a, v, t, want, got); return 1; }
          }
  std::printf("REPLAY ok\n");
  return 0;
}

// "for data generated exactly from a model, the model parameters are a fixed point of the ML iterations": block factors.
// Data = model with block factors applied (one block nearly dead: factor 2e-5, so its block sums are far below 1e-4 of the
// largest one); one iterate_block_norm step from the model must give the generating factors back.
static int mlblock()
{
  shared_ptr<Scanner> scanner(new Scanner(Scanner::E953));
  shared_ptr<ProjDataInfo> info(ProjDataInfo::ProjDataInfoCTI(scanner, 1, scanner->get_num_rings() - 1, scanner->get_num_detectors_per_ring() / 2,
                                                             scanner->get_max_num_non_arccorrected_bins(), false));
  shared_ptr<ExamInfo> exam(new ExamInfo);
  ProjDataInMemory model_pd(exam, info);
  model_pd.fill(50.F);
  FanProjData model;
  make_fan_data_remove_gaps(model, model_pd);
  const int nab = scanner->get_num_axial_blocks(), ntb = scanner->get_num_transaxial_blocks();
  BlockData3D truth(nab, ntb, nab - 1, ntb - 1), measured(nab, ntb, nab - 1, ntb - 1), model_sums(nab, ntb, nab - 1, ntb - 1), est(nab, ntb, nab - 1, ntb - 1);
  unsigned long st = 12345UL;
  for (int ra = truth.get_min_ra(); ra <= truth.get_max_ra(); ++ra)
    for (int a = truth.get_min_a(); a <= truth.get_max_a(); ++a)
      for (int rb = std::max(ra, truth.get_min_rb(ra)); rb <= truth.get_max_rb(ra); ++rb)
        for (int b = truth.get_min_b(a); b <= truth.get_max_b(a); ++b)
          {
            st = st * 6364136223846793005ULL + 1442695040888963407ULL;
            float f = 0.75F + 0.5F * float((st >> 40) & 0xFFFF) / 65536.F;
            if ((ra == 0 && a == 5) || (rb == 0 && b % ntb == 5)) f *= 2.e-5F;
            truth(ra, a, rb, b) = f;
          }
  FanProjData data = model;
  apply_block_norm(data, truth, true);
  make_block_data(measured, data);
  make_block_data(model_sums, model);
  iterate_block_norm(est, measured, model);
  const BlockData3D &T = truth, &E = est, &M = model_sums, &D = measured;
  const float dmax = D.find_max();
  for (int ra = T.get_min_ra(); ra <= T.get_max_ra(); ++ra)
    for (int a = T.get_min_a(); a <= T.get_max_a(); ++a)
      for (int rb = std::max(ra, T.get_min_rb(ra)); rb <= T.get_max_rb(ra); ++rb)
        for (int b = T.get_min_b(a); b <= T.get_max_b(a); ++b)
          {
            if (M(ra, a, rb, b) <= 0) continue;
            const float want = T(ra, a, rb, b), got = E(ra, a, rb, b);
            if (!(got >= want * 0.999F && got <= want * 1.001F))
              {
                std::printf("CONFIRMED iterate_block_norm on data generated from the model: block pair (%d,%d)-(%d,%d) was generated with factor %g, the ML step returns %g (measured block sum %g = %.2g of the largest)\n",
                            ra, a, rb, b % ntb, want, got, D(ra, a, rb, b), D(ra, a, rb, b) / dmax);
                return 1;
              }
          }
  std::printf("REPLAY ok\n");
  return 0;
}

// apply / un-apply of the three factor kinds on the ECAT 953 fan data: apply multiplies every entry by the factor of its class
// (block factor: (ra/Ca, a/Ct, rb/Ca, b/Ct); efficiencies: eff[ra][a]*eff[rb][b]), un-apply restores the data up to rounding
static int applyundo()
{
  shared_ptr<Scanner> scanner(new Scanner(Scanner::E953));
  shared_ptr<ProjDataInfo> info(ProjDataInfo::ProjDataInfoCTI(scanner, 1, scanner->get_num_rings() - 1, scanner->get_num_detectors_per_ring() / 2,
                                                             scanner->get_max_num_non_arccorrected_bins(), false));
  shared_ptr<ExamInfo> exam(new ExamInfo);
  ProjDataInMemory pd(exam, info);
  pd.fill(50.F);
  FanProjData orig;
  make_fan_data_remove_gaps(orig, pd);
  const int nab = scanner->get_num_axial_blocks(), ntb = scanner->get_num_transaxial_blocks();
  const int Ca = scanner->get_num_rings() / nab, Ct = scanner->get_num_detectors_per_ring() / ntb;
  unsigned long st = 4711UL;
  auto rnd = [&st]() { st = st * 6364136223846793005ULL + 1442695040888963407ULL; return 0.75F + 0.5F * float((st >> 40) & 0xFFFF) / 65536.F; };
  BlockData3D blocks(nab, ntb, nab - 1, ntb - 1);
  for (int ra = blocks.get_min_ra(); ra <= blocks.get_max_ra(); ++ra)
    for (int a = blocks.get_min_a(); a <= blocks.get_max_a(); ++a)
      for (int rb = blocks.get_min_rb(ra); rb <= blocks.get_max_rb(ra); ++rb)
        for (int b = blocks.get_min_b(a); b <= blocks.get_max_b(a); ++b)
          blocks(ra, a, rb, b) = rnd();
  DetectorEfficiencies eff(IndexRange2D(scanner->get_num_rings(), scanner->get_num_detectors_per_ring()));
  for (int r = 0; r < scanner->get_num_rings(); ++r)
    for (int d = 0; d < scanner->get_num_detectors_per_ring(); ++d)
      eff[r][d] = rnd();
  const BlockData3D& B = blocks;
  for (int kind = 0; kind < 2; ++kind)
    {
      FanProjData data = orig;
      if (kind == 0) apply_block_norm(data, blocks, true); else apply_efficiencies(data, eff, true);
      FanProjData back = data;
      if (kind == 0) apply_block_norm(back, blocks, false); else apply_efficiencies(back, eff, false);
      const FanProjData &O = orig, &D = data, &K = back;
      for (int ra = O.get_min_ra(); ra <= O.get_max_ra(); ++ra)
        for (int a = O.get_min_a(); a <= O.get_max_a(); ++a)
          for (int rb = std::max(ra, O.get_min_rb(ra)); rb <= O.get_max_rb(ra); ++rb)
            for (int b = O.get_min_b(a); b <= O.get_max_b(a); ++b)
              {
                if (O(ra, a, rb, b) == 0) continue;
                const int bm = b % scanner->get_num_detectors_per_ring();
                const float f = kind == 0 ? B(ra / Ca, a / Ct, rb / Ca, b / Ct) : eff[ra][a] * eff[rb][bm];
                const float want = O(ra, a, rb, b) * f;
                if (!(std::fabs(D(ra, a, rb, b) - want) <= 1e-5F * std::fabs(want)))
                  {
                    std::printf("CONFIRMED %s(apply): entry (%d,%d)-(%d,%d) is %g, the data times the factor of its class is %g\n",
                                kind == 0 ? "apply_block_norm" : "apply_efficiencies", ra, a, rb, bm, D(ra, a, rb, b), want);
                    return 1;
                  }
                if (!(std::fabs(K(ra, a, rb, b) - O(ra, a, rb, b)) <= 1e-5F * std::fabs(O(ra, a, rb, b))))
                  {
                    std::printf("CONFIRMED %s: apply followed by un-apply does not restore entry (%d,%d)-(%d,%d): %g -> %g -> %g\n",
                                kind == 0 ? "apply_block_norm" : "apply_efficiencies", ra, a, rb, bm, O(ra, a, rb, b), D(ra, a, rb, b), K(ra, a, rb, b));
                    return 1;
                  }
              }
    }
  std::printf("REPLAY ok\n");
  return 0;
}

// the range accessors the library's loops iterate over, against the geometry: partner rings of ring ra are max(ra-D,0)..min(ra+D,R-1),
// partner detectors of detector a are a+N/2-h..a+N/2+h
static int ranges(int R, int N, int D, int fan)
{
  FanProjData f(R, N, D, fan);
  const int h = fan / 2;
  if (f.get_min_ra() != 0 || f.get_max_ra() != R - 1 || f.get_min_a() != 0 || f.get_max_a() != N - 1)
    { std::printf("CONFIRMED FanProjData(%d,%d,%d,%d): ring / detector ranges [%d,%d] / [%d,%d]\n", R, N, D, fan, f.get_min_ra(), f.get_max_ra(), f.get_min_a(), f.get_max_a()); return 1; }
  for (int ra = 0; ra < R; ++ra)
    if (f.get_min_rb(ra) != std::max(ra - D, 0) || f.get_max_rb(ra) != std::min(ra + D, R - 1))
      {
        std::printf("CONFIRMED FanProjData(%d,%d,%d,%d): partner rings of ring %d reported as [%d,%d], geometry says [%d,%d]\n", R, N, D, fan, ra, f.get_min_rb(ra), f.get_max_rb(ra),
                    std::max(ra - D, 0), std::min(ra + D, R - 1));
        return 1;
      }
  for (int a = 0; a < N; ++a)
    if (f.get_min_b(a) != a + N / 2 - h || f.get_max_b(a) != a + N / 2 + h)
      { std::printf("CONFIRMED FanProjData(%d,%d,%d,%d): fan of detector %d reported as [%d,%d]\n", R, N, D, fan, a, f.get_min_b(a), f.get_max_b(a)); return 1; }
  std::printf("REPLAY ok\n");
  return 0;
}

// scanner with virtual crystals (ECAT 1080: one virtual crystal per block, axially and transaxially): proj data -> fan data
// -> proj data restores every bin whose four crystals are physical and fills every other bin of the fan with gap_value
static int gaps()
{
  shared_ptr<Scanner> scanner(new Scanner(Scanner::E1080));
  const int N = scanner->get_num_detectors_per_ring();
  shared_ptr<ProjDataInfo> info(ProjDataInfo::ProjDataInfoCTI(scanner, 1, 12, N / 2, 17, false));
  auto cyl = dynamic_pointer_cast<ProjDataInfoCylindricalNoArcCorr>(info);
  shared_ptr<ExamInfo> exam(new ExamInfo);
  ProjDataInMemory pd(exam, info), back(exam, info);
  float x = 1.F;
  for (int s = info->get_min_segment_num(); s <= info->get_max_segment_num(); ++s)
    for (int a = info->get_min_axial_pos_num(s); a <= info->get_max_axial_pos_num(s); ++a)
      for (int v = 0; v < info->get_num_views(); ++v)
        for (int t = info->get_min_tangential_pos_num(); t <= info->get_max_tangential_pos_num(); ++t)
          { pd.set_bin_value(Bin(s, v, a, t, 0, x)); x = x > 60000.F ? 1.F : x + 1.F; }
  FanProjData fan;
  make_fan_data_remove_gaps(fan, pd);
  set_fan_data_add_gaps(back, fan, -7.F);
  const int CT = scanner->get_num_transaxial_crystals_per_block(), VT = scanner->get_num_virtual_transaxial_crystals_per_block();
  const int CA = scanner->get_num_axial_crystals_per_block(), VA = scanner->get_num_virtual_axial_crystals_per_block();
  for (int s = info->get_min_segment_num(); s <= info->get_max_segment_num(); ++s)
    for (int a = info->get_min_axial_pos_num(s); a <= info->get_max_axial_pos_num(s); ++a)
      for (int v = 0; v < info->get_num_views(); ++v)
        for (int t = info->get_min_tangential_pos_num(); t <= info->get_max_tangential_pos_num(); ++t)
          {
            Bin b1(s, v, a, t), b2(s, v, a, t);
            int da, ra, db, rb;
            cyl->get_det_pair_for_bin(da, ra, db, rb, b1);
            const bool physical = da % CT < CT - VT && db % CT < CT - VT && ra % CA < CA - VA && rb % CA < CA - VA;
            const float want = physical ? pd.get_bin_value(b1) : -7.F, got = back.get_bin_value(b2);
            if (got != want)
              { std::printf("CONFIRMED proj data -> fan data -> proj data (ECAT 1080): bin (seg %d, ax %d, view %d, tang %d) = detectors (ring %d, det %d)-(ring %d, det %d) [%s] should come back as %g, is %g\n",
                            s, a, v, t, ra, da, rb, db, physical ? "all physical" : "contains a virtual crystal", want, got); return 1; }
          }
  std::printf("REPLAY ok\n");
  return 0;
}

int main(int argc, char** argv)
{
  try
    {
      if (argc >= 6 && !strcmp(argv[1], "indata")) return indata(atoi(argv[2]), atoi(argv[3]), atoi(argv[4]), atoi(argv[5]));
      if (argc >= 2 && !strcmp(argv[1], "roundtrip")) return roundtrip();
      if (argc >= 2 && !strcmp(argv[1], "gaps")) return gaps();
      if (argc >= 6 && !strcmp(argv[1], "ranges")) return ranges(atoi(argv[2]), atoi(argv[3]), atoi(argv[4]), atoi(argv[5]));
      if (argc >= 2 && !strcmp(argv[1], "mlblock")) return mlblock();
      if (argc >= 2 && !strcmp(argv[1], "applyundo")) return applyundo();
    }
  catch (...)
    {
      std::printf("exception\n");
      return 3;
    }
  return 2;
}
