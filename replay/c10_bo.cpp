// Native replay for C10, byte-order clause: images written as short / int / float in little- and big-endian order read back with the same values.
// usage: c10_bo_replay <dir>
#include "stir/VoxelsOnCartesianGrid.h"
#include "stir/IO/InterfileOutputFileFormat.h"
#include "stir/IO/read_from_file.h"
#include "stir/IndexRange3D.h"
#include "stir/ExamInfo.h"
#include "stir/NumericType.h"
#include "stir/ByteOrder.h"
#include "stir/Succeeded.h"
#include <cmath>
#include <cstdio>
#include <string>
using namespace stir;
int main(int argc, char** argv)
{
  const std::string dir = argc > 1 ? argv[1] : ".";
  try
    {
      const NumericType types[] = { NumericType::SHORT, NumericType::INT, NumericType::FLOAT, NumericType::USHORT };
      const ByteOrder orders[] = { ByteOrder::little_endian, ByteOrder::big_endian };
      int n = 0;
      for (auto t : types)
        for (auto o : orders)
          {
            shared_ptr<ExamInfo> exam(new ExamInfo(ImagingModality::PT));
            VoxelsOnCartesianGrid<float> image(exam, IndexRange3D(0, 1, -2, 2, -2, 2), CartesianCoordinate3D<float>(0, 0, 0), CartesianCoordinate3D<float>(3, 2, 2));
            float x = 1.F;
            for (auto it = image.begin_all(); it != image.end_all(); ++it) { *it = x; x += 3.F; }
            std::string filename = dir + "/c10_bo_" + std::to_string(n++); // write_to_file replaces it by the header name
            InterfileOutputFileFormat format(t, o);
            if (format.write_to_file(filename, image) != Succeeded::yes) { std::printf("write failed\n"); return 3; }
            unique_ptr<DiscretisedDensity<3, float>> back(read_from_file<DiscretisedDensity<3, float>>(filename));
            auto ib = back->begin_all();
            for (auto it = image.begin_all(); it != image.end_all(); ++it, ++ib)
              if (std::fabs(*ib - *it) > 0.01F * std::fabs(*it) + 0.01F)
                {
                  std::printf("CONFIRMED image written as %s in %s byte order: value %g read back as %g\n", t.id == NumericType::SHORT ? "short" : t.id == NumericType::INT ? "int" : t.id == NumericType::FLOAT ? "float" : "unsigned short",
                              o == ByteOrder::big_endian ? "big-endian" : "little-endian", *it, *ib);
                  return 1;
                }
          }
    }
  catch (...)
    {
      std::printf("exception\n");
      return 3;
    }
  std::printf("REPLAY ok\n");
  return 0;
}
