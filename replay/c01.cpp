// Native replay for C01 against the REAL STIR libraries of /repo's working tree.
// usage: c01_replay tables <num_detectors_per_ring> [<view_mashing>]
//        c01_replay stale <num_detectors_per_ring> <view_mashing after the first look-up>
//        c01_replay rings  <num_rings> <span> <max_delta>
//        c01_replay ringsn <scanner name> <span> <max_delta (-1: all)>   the same on a predefined scanner (its own ring spacing)
//        c01_replay setters <num_rings> <span> <max_delta>   histories of ring-difference / axial-range setters after the tables were built
//        c01_replay tof    <tof_mash_factor>
//        c01_replay allpairs <num_detectors_per_ring> <view_mashing> <tof_mash_factor (0: non-TOF scanner)>
// exit 0: property holds on everything enumerated; exit 1 + "CONFIRMED ..." line: violated; other: driver problem
#include "stir/ProjDataInfoCylindricalNoArcCorr.h"
#include "stir/ProjDataInfo.h"
#include "stir/Scanner.h"
#include "stir/Bin.h"
#include "stir/DetectionPositionPair.h"
#include "stir/Succeeded.h"
#include <cstdio>
#include <cstdlib>
#include <cstring>
#include <map>
#include <set>
#include <vector>
using namespace stir;

static int floordiv2(int x) { return x >= 0 ? x / 2 : -((-x + 1) / 2); }
static int wrap(int x, int n) { return x < 0 ? x + n : (x >= n ? x - n : x); }
static int spec_det1(int v, int t, int n) { return wrap(v + floordiv2(t), n); }
static int spec_det2(int v, int t, int n) { return wrap(v - floordiv2(t + 1) + n / 2, n); }

static shared_ptr<ProjDataInfoCylindricalNoArcCorr> make(shared_ptr<Scanner> scanner, int span, int max_delta, int num_views, int num_tang, int tof_mash = 0)
{
  shared_ptr<ProjDataInfo> p(ProjDataInfo::ProjDataInfoCTI(scanner, span, max_delta, num_views, num_tang, false, tof_mash));
  return dynamic_pointer_cast<ProjDataInfoCylindricalNoArcCorr>(p);
}

static int tables(int N, int mash)
{
  shared_ptr<Scanner> scanner(new Scanner(Scanner::E953));
  scanner->set_num_detectors_per_ring(N);
  scanner->set_num_rings(3);
  scanner->set_max_num_non_arccorrected_bins(N - 1);
  scanner->set_default_bin_size(scanner->get_default_bin_size());
  auto pdi = make(scanner, 1, 2, N / 2 / mash, N - 1);
  if (!pdi) { std::printf("cannot construct proj data info\n"); return 3; }
  const int min_t = pdi->get_min_tangential_pos_num(), max_t = pdi->get_max_tangential_pos_num();
  if (mash == 1)
    for (int v = 0; v < N / 2; ++v)
      for (int t = min_t; t <= max_t; ++t)
        {
          int d1, d2;
          pdi->get_det_num_pair_for_view_tangential_pos_num(d1, d2, v, t);
          if (d1 != spec_det1(v, t, N) || d2 != spec_det2(v, t, N))
            { std::printf("CONFIRMED N=%d: bin (view %d, tang %d) -> detectors (%d,%d), geometry says (%d,%d)\n", N, v, t, d1, d2, spec_det1(v, t, N), spec_det2(v, t, N)); return 1; }
        }
  std::map<std::pair<int, int>, int> hits; // (view,tang) -> number of unordered pairs mapped to it
  for (int d1 = 0; d1 < N; ++d1)
    for (int d2 = 0; d2 < N; ++d2)
      {
        if (d1 == d2) continue;
        int v = -99999, t = -99999, v2 = -99999, t2 = -99999;
        const bool pos = pdi->get_view_tangential_pos_num_for_det_num_pair(v, t, d1, d2);
        const bool pos2 = pdi->get_view_tangential_pos_num_for_det_num_pair(v2, t2, d2, d1);
        if (v != v2 || t != t2 || pos == pos2)
          { std::printf("CONFIRMED N=%d mash=%d: pair (%d,%d) -> (view %d, tang %d, %d) but exchanged pair -> (view %d, tang %d, %d)\n", N, mash, d1, d2, v, t, (int)pos, v2, t2, (int)pos2); return 1; }
        if (v < 0 || v >= N / 2 / mash || t < -N / 2 + 1 || t > N / 2)
          { std::printf("CONFIRMED N=%d mash=%d: pair (%d,%d) -> (view %d, tang %d) outside the sinogram\n", N, mash, d1, d2, v, t); return 1; }
        // the bin must contain the pair: some uncompressed view of the mashed view has this detector pair (in the flagged orientation)
        bool found = false;
        for (int u = v * mash; u < (v + 1) * mash && !found; ++u)
          found = pos ? (spec_det1(u, t, N) == d1 && spec_det2(u, t, N) == d2) : (spec_det1(u, t, N) == d2 && spec_det2(u, t, N) == d1);
        if (!found)
          { std::printf("CONFIRMED N=%d mash=%d: pair (%d,%d) assigned to (view %d, tang %d, orientation %d) which does not contain it\n", N, mash, d1, d2, v, t, (int)pos); return 1; }
        if (t >= min_t && t <= max_t && mash == 1 && pos)
          {
            // round trip through the public bin API (non-TOF): bin -> det pos pair -> bin
            Bin b(0, v, 1, t); DetectionPositionPair<> dp; Bin b2;
            pdi->get_det_pos_pair_for_bin(dp, b);
            if (pdi->get_bin_for_det_pos_pair(b2, dp) == Succeeded::no || b2.view_num() != v || b2.tangential_pos_num() != t || b2.segment_num() != 0 || b2.axial_pos_num() != 1 || b2.timing_pos_num() != 0)
              { std::printf("CONFIRMED N=%d: bin (seg 0, view %d, ax 1, tang %d) -> pair -> bin (seg %d, view %d, ax %d, tang %d, tof %d)\n", N, v, t, b2.segment_num(), b2.view_num(), b2.axial_pos_num(), b2.tangential_pos_num(), b2.timing_pos_num()); return 1; }
          }
      }
  std::printf("REPLAY ok\n");
  return 0;
}

// history clause: the lazily built pair -> (view, tang) table must not go stale when the number of views (view mashing) of
// the object, or of a clone of it, is changed AFTER a look-up: every pair is still assigned to a bin that contains it.
static int stale(int N, int mash_after)
{
  shared_ptr<Scanner> scanner(new Scanner(Scanner::E953));
  scanner->set_num_detectors_per_ring(N);
  scanner->set_num_rings(3);
  scanner->set_max_num_non_arccorrected_bins(N - 1);
  scanner->set_default_bin_size(scanner->get_default_bin_size());
  auto pdi = make(scanner, 1, 2, N / 2, N - 1);
  if (!pdi) { std::printf("cannot construct proj data info\n"); return 3; }
  int v0, t0;
  pdi->get_view_tangential_pos_num_for_det_num_pair(v0, t0, 0, N / 2); // builds the table with mashing factor 1
  shared_ptr<ProjDataInfo> cl = pdi->create_shared_clone();
  ProjDataInfoCylindricalNoArcCorr& c = dynamic_cast<ProjDataInfoCylindricalNoArcCorr&>(*cl);
  c.set_num_views(N / 2 / mash_after);
  for (int pass = 0; pass < 2; ++pass)
    {
      ProjDataInfoCylindricalNoArcCorr& q = pass == 0 ? c : *pdi;
      if (pass == 1) q.set_num_views(N / 2 / mash_after); // the same on the original object
      for (int d1 = 0; d1 < N; ++d1)
        for (int d2 = 0; d2 < N; ++d2)
          {
            if (d1 == d2) continue;
            int v = -99999, t = -99999;
            const bool pos = q.get_view_tangential_pos_num_for_det_num_pair(v, t, d1, d2);
            bool found = false;
            if (v >= 0 && v < N / 2 / mash_after)
              for (int u = v * mash_after; u < (v + 1) * mash_after && !found; ++u)
                found = pos ? (spec_det1(u, t, N) == d1 && spec_det2(u, t, N) == d2) : (spec_det1(u, t, N) == d2 && spec_det2(u, t, N) == d1);
            if (!found)
              {
                std::printf("CONFIRMED N=%d: after a look-up with %d views and set_num_views(%d) on %s, pair (%d,%d) is assigned to (view %d, tang %d) which does not contain it\n",
                            N, N / 2, N / 2 / mash_after, pass == 0 ? "a clone" : "the object", d1, d2, v, t);
                return 1;
              }
          }
    }
  std::printf("REPLAY ok\n");
  return 0;
}

static int rings(int R, int span, int max_delta, const char* scanner_name = 0)
{
  shared_ptr<Scanner> scanner(scanner_name ? Scanner::get_scanner_from_name(scanner_name) : new Scanner(Scanner::E953));
  if (scanner_name) { R = scanner->get_num_rings(); if (max_delta < 0) max_delta = R - 1; }
  else scanner->set_num_rings(R);
  auto pdi = make(scanner, span, max_delta, 8, 9);
  if (!pdi) return 3;
  std::map<std::pair<int, int>, std::vector<std::pair<int, int>>> lists; // (seg,ax) -> reported ring pairs
  for (int s = pdi->get_min_segment_num(); s <= pdi->get_max_segment_num(); ++s)
    for (int a = pdi->get_min_axial_pos_num(s); a <= pdi->get_max_axial_pos_num(s); ++a)
      {
        const ProjDataInfoCylindrical::RingNumPairs& rp = pdi->get_all_ring_pairs_for_segment_axial_pos_num(s, a);
        if (rp.size() != pdi->get_num_ring_pairs_for_segment_axial_pos_num(s, a))
          { std::printf("CONFIRMED rings=%d span=%d: (segment %d, axial %d) reports count %u but lists %u pairs\n", R, span, s, a, pdi->get_num_ring_pairs_for_segment_axial_pos_num(s, a), (unsigned)rp.size()); return 1; }
        for (auto& p : rp) lists[std::make_pair(s, a)].push_back(p);
      }
  for (int r1 = 0; r1 < R; ++r1)
    for (int r2 = 0; r2 < R; ++r2)
      {
        int s = -999, a = -999;
        const bool ok = pdi->get_segment_axial_pos_num_for_ring_pair(s, a, r1, r2) == Succeeded::yes;
        int n_in = 0, n_own = 0;
        for (auto& kv : lists)
          for (auto& p : kv.second)
            if (p.first == r1 && p.second == r2) { ++n_in; if (ok && kv.first == std::make_pair(s, a)) ++n_own; }
        const bool covered = std::abs(r2 - r1) <= max_delta;
        if (covered && (!ok || n_in != 1 || n_own != 1))
          { std::printf("CONFIRMED rings=%d span=%d max_delta=%d: ring pair (%d,%d) assigned to (segment %d, axial %d)%s, listed %d times in total and %d times there\n", R, span, max_delta, r1, r2, s, a, ok ? "" : " [not found]", n_in, n_own); return 1; }
        if (!covered && n_in != 0)
          { std::printf("CONFIRMED rings=%d span=%d: ring pair (%d,%d) with uncovered ring difference is listed %d times\n", R, span, r1, r2, n_in); return 1; }
      }
  std::printf("REPLAY ok\n");
  return 0;
}

// consistency of the ring-pair lists with the object's CURRENT ring-difference ranges (no reference to how the object got there)
static int check_rings_current(const ProjDataInfoCylindricalNoArcCorr& pdi, int R, const char* label)
{
  std::map<std::pair<int, int>, std::vector<std::pair<int, int>>> lists;
  for (int s = pdi.get_min_segment_num(); s <= pdi.get_max_segment_num(); ++s)
    for (int a = pdi.get_min_axial_pos_num(s); a <= pdi.get_max_axial_pos_num(s); ++a)
      {
        const ProjDataInfoCylindrical::RingNumPairs& rp = pdi.get_all_ring_pairs_for_segment_axial_pos_num(s, a);
        if (rp.size() != pdi.get_num_ring_pairs_for_segment_axial_pos_num(s, a))
          { std::printf("CONFIRMED %s: (segment %d, axial %d) reports count %u but lists %u pairs\n", label, s, a, pdi.get_num_ring_pairs_for_segment_axial_pos_num(s, a), (unsigned)rp.size()); return 1; }
        for (auto& p : rp)
          {
            const int rd = p.second - p.first;
            if (rd < pdi.get_min_ring_difference(s) || rd > pdi.get_max_ring_difference(s))
              { std::printf("CONFIRMED %s: bin (segment %d, axial %d) lists ring pair (%d,%d) with ring difference %d outside the segment's current range [%d,%d]\n",
                            label, s, a, p.first, p.second, rd, pdi.get_min_ring_difference(s), pdi.get_max_ring_difference(s)); return 1; }
            lists[std::make_pair(s, a)].push_back(p);
          }
      }
  for (int r1 = 0; r1 < R; ++r1)
    for (int r2 = 0; r2 < R; ++r2)
      {
        bool covered = false;
        for (int s = pdi.get_min_segment_num(); s <= pdi.get_max_segment_num(); ++s)
          covered = covered || (r2 - r1 >= pdi.get_min_ring_difference(s) && r2 - r1 <= pdi.get_max_ring_difference(s));
        int s = -999, a = -999;
        const bool ok = pdi.get_segment_axial_pos_num_for_ring_pair(s, a, r1, r2) == Succeeded::yes;
        int n_in = 0, n_own = 0;
        for (auto& kv : lists)
          for (auto& p : kv.second)
            if (p.first == r1 && p.second == r2) { ++n_in; if (ok && kv.first == std::make_pair(s, a)) ++n_own; }
        if (covered && (!ok || n_in != 1 || n_own != 1))
          { std::printf("CONFIRMED %s: ring pair (%d,%d) assigned to (segment %d, axial %d)%s, listed %d times in total and %d times there\n", label, r1, r2, s, a, ok ? "" : " [not found]", n_in, n_own); return 1; }
        if (!covered && n_in != 0)
          { std::printf("CONFIRMED %s: ring pair (%d,%d) with a ring difference in no segment's current range is listed %d times\n", label, r1, r2, n_in); return 1; }
      }
  return 0;
}

// histories of setters on an object whose tables were already built: shrink the ring-difference range of the outermost segments,
// setting both ends (one of them to the value it already has) in either order; then all queries must agree with the current ranges
static int setters(int R, int span, int max_delta)
{
  for (int order = 0; order < 2; ++order)
    {
      shared_ptr<Scanner> scanner(new Scanner(Scanner::E953));
      scanner->set_num_rings(R);
      auto pdi = make(scanner, span, max_delta, 8, 9);
      if (!pdi) return 3;
      int dummy_s, dummy_a;
      pdi->get_segment_axial_pos_num_for_ring_pair(dummy_s, dummy_a, 0, 0); // builds the tables
      for (int sign = 1; sign >= -1; sign -= 2)
        {
          const int s = sign > 0 ? pdi->get_max_segment_num() : pdi->get_min_segment_num();
          if (s == 0) continue;
          const int lo = pdi->get_min_ring_difference(s), hi = pdi->get_max_ring_difference(s);
          if (lo == hi) continue;
          // drop the outermost ring difference of the segment
          const int nlo = s < 0 ? lo + 1 : lo, nhi = s < 0 ? hi : hi - 1;
          if (order & 1) { pdi->set_max_ring_difference(nhi, s); pdi->set_min_ring_difference(nlo, s); }
          else { pdi->set_min_ring_difference(nlo, s); pdi->set_max_ring_difference(nhi, s); }
        }
      char label[300];
      std::snprintf(label, sizeof label, "rings=%d span=%d max_delta=%d, tables built, then set_%s_ring_difference + set_%s_ring_difference on the outermost segments (largest ring difference dropped, other end set to the value it has)",
                    R, span, max_delta, (order & 1) ? "max" : "min", (order & 1) ? "min" : "max");
      if (const int rc = check_rings_current(*pdi, R, label)) return rc;
    }
  std::printf("REPLAY ok\n");
  return 0;
}

static int tof(int f)
{
  shared_ptr<Scanner> scanner(new Scanner(Scanner::PETMR_Signa));
  auto pdi = make(scanner, 1, 1, scanner->get_num_detectors_per_ring() / 2, 51, f);
  if (!pdi) return 3;
  const int maxt = scanner->get_max_num_timing_poss() / 2;
  for (int t = 0; t <= maxt; ++t)
    {
      DetectionPositionPair<> dp(DetectionPosition<>(10, 1), DetectionPosition<>(200, 1), t);
      Bin b;
      if (pdi->get_bin_for_det_pos_pair(b, dp) == Succeeded::no) continue;
      const int want = f == 0 ? 0 : (2 * t + f) / (2 * f);
      if (std::abs(b.timing_pos_num()) != want)
        { std::printf("CONFIRMED tof_mash=%d: unmashed TOF index %d -> bin TOF index %d, nearest-multiple rule says +-%d\n", f, t, b.timing_pos_num(), want); return 1; }
      DetectionPositionPair<> dq(DetectionPosition<>(200, 1), DetectionPosition<>(10, 1), t);
      Bin c;
      pdi->get_bin_for_det_pos_pair(c, dq);
      if (c.timing_pos_num() != -b.timing_pos_num() || c.view_num() != b.view_num() || c.tangential_pos_num() != b.tangential_pos_num() || c.segment_num() != b.segment_num() || c.axial_pos_num() != b.axial_pos_num())
        { std::printf("CONFIRMED tof_mash=%d: exchanging the detectors of TOF index %d does not give the same bin with negated TOF index\n", f, t); return 1; }
    }
  std::printf("REPLAY ok\n");
  return 0;
}


// every bin of a (small) data set: the pairs it reports == the pairs assigned to it, with the reported count
static int allpairs(int N, int mash, int f)
{
  shared_ptr<Scanner> scanner(new Scanner(f > 0 ? Scanner::PETMR_Signa : Scanner::E953));
  if (f == 0) { scanner->set_num_detectors_per_ring(N); scanner->set_max_num_non_arccorrected_bins(N - 1); }
  else N = scanner->get_num_detectors_per_ring();
  scanner->set_num_rings(4);
  auto pdi = make(scanner, 3, 3, N / 2 / mash, f > 0 ? 5 : N - 1, f);
  if (!pdi) return 3;
  long total = 0;
  for (int s = pdi->get_min_segment_num(); s <= pdi->get_max_segment_num(); ++s)
    for (int a = pdi->get_min_axial_pos_num(s); a <= pdi->get_max_axial_pos_num(s); ++a)
      for (int v = 0; v < pdi->get_num_views(); v += (f > 0 ? 37 : 1))
        for (int t = pdi->get_min_tangential_pos_num(); t <= pdi->get_max_tangential_pos_num(); ++t)
          for (int k = pdi->get_min_tof_pos_num(); k <= pdi->get_max_tof_pos_num(); k += (f > 0 ? std::max(1, pdi->get_num_tof_poss() / 5) : 1))
            {
              Bin b(s, v, a, t); b.timing_pos_num() = k;
              std::vector<DetectionPositionPair<>> dps;
              try { pdi->get_all_det_pos_pairs_for_bin(dps, b, false); }
              catch (...)
                {
                  if (f > 0 && f % 2 == 0) { std::printf("REPLAY ok (even TOF mashing factor reported as an error)\n"); return 0; }
                  throw;
                }
              if (dps.size() != pdi->get_num_det_pos_pairs_for_bin(b, false))
                { std::printf("CONFIRMED bin (seg %d, view %d, ax %d, tang %d, tof %d): %u pairs listed, count reported %u\n", s, v, a, t, k, (unsigned)dps.size(), pdi->get_num_det_pos_pairs_for_bin(b, false)); return 1; }
              std::set<std::vector<int>> seen;
              for (auto& dp : dps)
                {
                  if (dp.pos1().tangential_coord() == dp.pos2().tangential_coord()) continue; // singular column
                  Bin b2;
                  if (pdi->get_bin_for_det_pos_pair(b2, dp) == Succeeded::no || !(b2.segment_num() == s && b2.view_num() == v && b2.axial_pos_num() == a && b2.tangential_pos_num() == t && b2.timing_pos_num() == k))
                    { std::printf("CONFIRMED bin (seg %d, view %d, ax %d, tang %d, tof %d) lists pair (%u,%u)-(%u,%u) tof %d which is assigned to bin (seg %d, view %d, ax %d, tang %d, tof %d)\n", s, v, a, t, k,
                                  dp.pos1().tangential_coord(), dp.pos1().axial_coord(), dp.pos2().tangential_coord(), dp.pos2().axial_coord(), dp.timing_pos(), b2.segment_num(), b2.view_num(), b2.axial_pos_num(), b2.tangential_pos_num(), b2.timing_pos_num()); return 1; }
                  std::vector<int> key = { (int)dp.pos1().tangential_coord(), (int)dp.pos1().axial_coord(), (int)dp.pos2().tangential_coord(), (int)dp.pos2().axial_coord(), dp.timing_pos() };
                  if (!seen.insert(key).second) { std::printf("CONFIRMED bin (seg %d, view %d, ax %d, tang %d, tof %d) lists a pair twice\n", s, v, a, t, k); return 1; }
                  ++total;
                }
            }
  std::printf("REPLAY ok (%ld pairs)\n", total);
  return 0;
}

int main(int argc, char** argv)
{
  try
    {
      if (argc >= 3 && !strcmp(argv[1], "tables")) return tables(atoi(argv[2]), argc > 3 ? atoi(argv[3]) : 1);
      if (argc >= 4 && !strcmp(argv[1], "stale")) return stale(atoi(argv[2]), atoi(argv[3]));
      if (argc >= 5 && !strcmp(argv[1], "rings")) return rings(atoi(argv[2]), atoi(argv[3]), atoi(argv[4]));
      if (argc >= 5 && !strcmp(argv[1], "ringsn")) return rings(0, atoi(argv[3]), atoi(argv[4]), argv[2]);
      if (argc >= 5 && !strcmp(argv[1], "setters")) return setters(atoi(argv[2]), atoi(argv[3]), atoi(argv[4]));
      if (argc >= 3 && !strcmp(argv[1], "tof")) return tof(atoi(argv[2]));
      if (argc >= 5 && !strcmp(argv[1], "allpairs")) return allpairs(atoi(argv[2]), atoi(argv[3]), atoi(argv[4]));
    }
  catch (...)
    {
      std::printf("exception\n");
      return 3;
    }
  return 2;
}
