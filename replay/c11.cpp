// Native replay for C11: run the REAL stir::VectorWithOffset<T> (header-only, from /repo's working tree) on the
// verifier's counterexample state and compare against a reference index->value map.  Built with ASan.
// usage: c11_replay <op> <a_min> <a_len> <b_min> <b_len> <x> [a_cap_extra_left a_cap_extra_right]
// exit 0: behaviour matches the property; exit 1: property violated natively (CONFIRMED line); other: sanitizer abort
#include "stir/VectorWithOffset.h"
#include "stir/Array.h"
#include "stir/IndexRange.h"
#include "stir/IndexRange2D.h"
#include "stir/IndexRange3D.h"
#include <cstdio>
#include <cstdlib>
#include <cstring>
#include <map>
#include <memory>
#include <vector>
#include <string>
using stir::VectorWithOffset;
typedef std::map<int, int> Ref;
static void mk(VectorWithOffset<int>& v, Ref& r, int mn, int len, int seed, int extraL, int extraR)
{
  if (len <= 0) return;
  // create spare capacity on both sides the way the library does: grow then shrink
  v.resize(mn - extraL, mn + len - 1 + extraR);
  v.resize(mn, mn + len - 1);
  for (int i = mn; i < mn + len; ++i) { v[i] = seed + 3 * i; r[i] = seed + 3 * i; }
}
static bool same(const VectorWithOffset<int>& v, const Ref& r, const char* what)
{
  if ((int)v.size() != (int)r.size()) { std::printf("CONFIRMED %s: size %d vs reference %d\n", what, (int)v.size(), (int)r.size()); return false; }
  if (r.empty()) return true;
  if (v.get_min_index() != r.begin()->first || v.get_max_index() != r.rbegin()->first) { std::printf("CONFIRMED %s: index range [%d,%d] vs reference [%d,%d]\n", what, v.get_min_index(), v.get_max_index(), r.begin()->first, r.rbegin()->first); return false; }
  for (auto& kv : r) if (v[kv.first] != kv.second) { std::printf("CONFIRMED %s: element %d is %d, reference %d\n", what, kv.first, v[kv.first], kv.second); return false; }
  return true;
}
int main(int argc, char** argv)
{
  if (argc < 7) return 2;
  std::string op = argv[1];
  int amin = atoi(argv[2]), alen = atoi(argv[3]), bmin = atoi(argv[4]), blen = atoi(argv[5]), x = atoi(argv[6]);
  int eL = argc > 7 ? atoi(argv[7]) : 0, eR = argc > 8 ? atoi(argv[8]) : 0;
  if (op == "contig")
    {
      // Array<3>: after a row got its own storage (resize), the array must not be reported as one contiguous block
      for (int s = 0; s < 2; ++s)
        for (int r = 0; r < 2; ++r)
          {
            stir::Array<3, float> arr(stir::IndexRange3D(0, 1, 0, 1, 0, 2));
            if (!arr.is_contiguous()) { std::printf("CONFIRMED freshly constructed Array<3> is reported as not contiguous\n"); return 1; }
            arr[s][r].resize(1, 3 + x);
            if (arr.is_contiguous()) { std::printf("CONFIRMED Array<3> 2x2x3 with row [%d][%d] resized (own storage) is still reported as contiguous\n", s, r); return 1; }
          }
      std::printf("REPLAY ok\n");
      return 0;
    }
  if (op == "arrn")
    {
      // Array<2>/Array<3>::init on a preallocated block (irregular sub-ranges) and ::resize with an irregular range:
      // init: element (i,j) lives at data + (number of elements before it in row-major order), the array is contiguous;
      // resize: every row gets exactly the sub-range of its own index
      for (int variant = 0; variant < 3; ++variant)
        {
          stir::VectorWithOffset<stir::IndexRange<1>> rows(amin, amin + 2);
          rows[amin] = stir::IndexRange<1>(bmin, bmin + 1 + variant);
          rows[amin + 1] = stir::IndexRange<1>(bmin - 1, bmin + 3);
          rows[amin + 2] = stir::IndexRange<1>(bmin + 2, bmin + 2 + x % 3);
          stir::IndexRange<2> range(rows);
          std::vector<float> block(range.size_all() + 8, -7.F);
          for (std::size_t k = 0; k < range.size_all(); ++k) block[4 + k] = float(k);
          stir::shared_ptr<float[]> view(&block[4], [](float*) {}); // the array views the block, does not own it
          stir::Array<2, float> arr(range, view);
          if (!arr.is_contiguous()) { std::printf("CONFIRMED Array<2>(range, data) on a preallocated block (Array::init) gives an array reported as not contiguous\n"); return 1; }
          std::size_t k = 0;
          for (int i = amin; i <= amin + 2; ++i)
            {
              if (arr[i].get_min_index() != rows[i].get_min_index() || arr[i].get_max_index() != rows[i].get_max_index())
                { std::printf("CONFIRMED Array<2>::init: row %d has range [%d,%d], requested [%d,%d]\n", i, arr[i].get_min_index(), arr[i].get_max_index(), rows[i].get_min_index(), rows[i].get_max_index()); return 1; }
              for (int j = rows[i].get_min_index(); j <= rows[i].get_max_index(); ++j, ++k)
                if (&arr[i][j] != &block[4 + k])
                  { std::printf("CONFIRMED Array<2>::init: element (%d,%d) is at offset %ld of the block, row-major position is %lu\n", i, j, long(&arr[i][j] - &block[4]), (unsigned long)k); return 1; }
            }
          stir::Array<2, float> r2(stir::IndexRange2D(amin - 1, amin + 1, 0, 3));
          r2.resize(range);
          for (int i = amin; i <= amin + 2; ++i)
            if (r2[i].get_min_index() != rows[i].get_min_index() || r2[i].get_max_index() != rows[i].get_max_index())
              { std::printf("CONFIRMED Array<2>::resize: row %d has range [%d,%d], requested [%d,%d]\n", i, r2[i].get_min_index(), r2[i].get_max_index(), rows[i].get_min_index(), rows[i].get_max_index()); return 1; }
          if (r2.get_min_index() != amin || r2.get_max_index() != amin + 2) { std::printf("CONFIRMED Array<2>::resize: outer range [%d,%d], requested [%d,%d]\n", r2.get_min_index(), r2.get_max_index(), amin, amin + 2); return 1; }
        }
      std::printf("REPLAY ok\n");
      return 0;
    }
  VectorWithOffset<int> a, b; Ref ra, rb;
  mk(a, ra, amin, alen, 7, eL, eR); mk(b, rb, bmin, blen, 1000, 0, 0);
  const Ref ra0 = ra;
  bool threw = false;
  const bool ranges_differ = !(alen <= 0 && blen <= 0) && (alen != blen || (alen > 0 && amin != bmin));
  try
    {
      if (op == "plus") { a += b; for (auto& kv : ra) if (rb.count(kv.first)) kv.second += rb[kv.first]; }
      else if (op == "minus") { a -= b; for (auto& kv : ra) if (rb.count(kv.first)) kv.second -= rb[kv.first]; }
      else if (op == "mult") { a *= b; for (auto& kv : ra) if (rb.count(kv.first)) kv.second *= rb[kv.first]; }
      else if (op == "div") { a /= b; for (auto& kv : ra) if (rb.count(kv.first)) kv.second /= rb[kv.first]; }
      else if (op == "at") { int got = a.at(x); if (!ra.count(x)) { std::printf("CONFIRMED at(%d) outside [%d,%d] returned %d without error\n", x, amin, amin + alen - 1, got); return 1; } }
      else if (op == "set_offset") { a.set_offset(x); Ref n; for (auto& kv : ra) n[kv.first - amin + x] = kv.second; ra = n; }
      else if (op == "fill") { a.fill(x); for (auto& kv : ra) kv.second = x; }
      else if (op == "assign") { a = b; ra = rb; }
      else if (op == "resize" || op == "grow") { if (op == "resize") a.resize(bmin, bmin + blen - 1); else a.grow(bmin, bmin + blen - 1);
          Ref n; for (int i = bmin; i < bmin + blen; ++i) n[i] = ra.count(i) ? ra[i] : a[i]; ra = n; }
      else if (op == "array_resize") { stir::Array<1, int> arr(stir::IndexRange<1>(amin, amin + alen - 1)); for (int i = amin; i < amin + alen; ++i) arr[i] = ra[i];
          arr.resize(bmin, bmin + blen - 1); Ref n; for (int i = bmin; i < bmin + blen; ++i) n[i] = ra.count(i) ? ra[i] : 0;
          if (blen > 0) for (int i = bmin; i < bmin + blen; ++i) if (arr[i] != n[i]) { std::printf("CONFIRMED Array<1>::resize: element %d is %d, reference %d\n", i, arr[i], n[i]); return 1; }
          std::printf("REPLAY ok\n"); return 0; }
      else if (op == "equals") { bool e = (a == b); bool re = (ra == rb) && (ra.empty() || true); if (e != re) { std::printf("CONFIRMED operator== returned %d, reference %d\n", (int)e, (int)re); return 1; } }
      else return 2;
    }
  catch (...)
    {
      threw = true;
    }
  if (op == "plus" || op == "minus" || op == "mult" || op == "div")
    {
      if (ranges_differ && !threw) { std::printf("CONFIRMED operator %s= on ranges [%d,%d] and [%d,%d]: no error reported\n", op.c_str(), amin, amin + alen - 1, bmin, bmin + blen - 1); return 1; }
      if (threw) ra = ra0;
      if (!ranges_differ && threw) { std::printf("CONFIRMED operator %s= on equal ranges reported an error\n", op.c_str()); return 1; }
    }
  if (op == "at" && threw && ra.count(x)) { std::printf("CONFIRMED at(%d) inside the range reported an error\n", x); return 1; }
  if (op != "at" && op != "equals" && !same(a, ra, op.c_str())) return 1;
  std::printf("REPLAY ok\n");
  return 0;
}
