// Native replay for C10, exam-information clause: the radionuclide of an image survives writing to and reading from Interfile.
// usage: c10_rn_replay <dir>     (needs STIR_CONFIG_DIR for the radionuclide data base)
#include "stir/VoxelsOnCartesianGrid.h"
#include "stir/IO/InterfileOutputFileFormat.h"
#include "stir/IO/read_from_file.h"
#include "stir/ExamInfo.h"
#include "stir/Radionuclide.h"
#include "stir/IndexRange3D.h"
#include "stir/Succeeded.h"
#include <cstdio>
#include <cmath>
#include <string>
using namespace stir;
static bool close_enough(float a, float b) { return std::fabs(a - b) <= 1e-4F * std::fabs(b); }
int main(int argc, char** argv)
{
  const std::string dir = argc > 1 ? argv[1] : ".";
  struct { const char* name; float energy, br, half_life; } nuclides[] = { { "^89^Zirconium", 511.F, 0.2275F, 282276.F }, { "^18^Fluorine", 511.F, 0.9686F, 6584.04F }, { "^124^Iodine", 511.F, 0.229F, 360806.F } };
  int n = 0;
  try
    {
      for (auto& nu : nuclides)
        {
          shared_ptr<ExamInfo> exam(new ExamInfo(ImagingModality::PT));
          exam->set_radionuclide(Radionuclide(nu.name, nu.energy, nu.br, nu.half_life, ImagingModality::PT));
          VoxelsOnCartesianGrid<float> image(exam, IndexRange3D(0, 1, -2, 2, -2, 2), CartesianCoordinate3D<float>(0, 0, 0), CartesianCoordinate3D<float>(3, 2, 2));
          image.fill(1.F);
          std::string filename = dir + "/c10_rn_" + std::to_string(n++);
          InterfileOutputFileFormat format;
          if (format.write_to_file(filename, image) != Succeeded::yes) { std::printf("write failed\n"); return 3; }
          unique_ptr<DiscretisedDensity<3, float>> back(read_from_file<DiscretisedDensity<3, float>>(filename));
          const Radionuclide r = back->get_exam_info().get_radionuclide();
          const Radionuclide w = exam->get_radionuclide();
          if (!close_enough(r.get_half_life(false), w.get_half_life(false)) || !close_enough(r.get_branching_ratio(false), w.get_branching_ratio(false)))
            {
              std::printf("CONFIRMED radionuclide %s written with half life %g s and branching ratio %g, read back with half life %g s and branching ratio %g\n", nu.name,
                          w.get_half_life(false), w.get_branching_ratio(false), r.get_half_life(false), r.get_branching_ratio(false));
              return 1;
            }
        }
    }
  catch (...)
    {
      std::printf("exception\n");
      return 3;
    }
  std::printf("REPLAY ok\n");
  return 0;
}
