// Native replay for C10: the REAL stir::convert_range / find_scale_factor templates (header-only, from /repo's working tree)
// usage: c10_replay <type: schar|uchar|short|ushort|int|uint> <mn> <x> <mx>      (floats; data = {mn, x, mx})
//        c10_replay <type> sweep                                                 (a fixed list of magnitudes incl. huge and tiny)
// exit 0: every value is read back within half a quantisation step (+ float rounding); exit 1 + CONFIRMED line otherwise.
// Built with -fsanitize=float-cast-overflow,signed-integer-overflow: an overflowing conversion aborts (also CONFIRMED by the caller).
#include "stir/convert_range.h"
#include "stir/NumericInfo.h"
#include <cmath>
#include <cstdio>
#include <cstdlib>
#include <cstring>
#include <limits>
#include <vector>
using namespace stir;
static float g_preferred_scale = 0.F; // 0: automatic; > 0: preferred scale factor (scale_to_write_data)
template <class OutT>
static int run(const char* name, const std::vector<float>& in)
{
  std::vector<OutT> out(in.size());
  float scale = g_preferred_scale;
  convert_range(out.begin(), scale, in.begin(), in.end());
  for (size_t i = 0; i < in.size(); ++i)
    {
      const double want = (in[i] < 0 && !std::numeric_limits<OutT>::is_signed) ? 0. : in[i];
      const double back = (double)out[i] * scale;
      const double err = std::fabs(back - want);
      if (err > 0.5 * std::fabs((double)scale) * 1.000001 + std::fabs(want) * 2.4e-7)
        {
          std::printf("CONFIRMED convert_range to %s: data {%g .. %g}: value %g written as %.0f with scale factor %g, read back as %g (error %g, half a step is %g)\n",
                      name, in.front(), in.back(), in[i], (double)out[i], scale, back, err, 0.5 * scale);
          return 1;
        }
    }
  return 0;
}
static int dispatch(const char* t, const std::vector<float>& v)
{
  if (!strcmp(t, "schar")) return run<signed char>(t, v);
  if (!strcmp(t, "uchar")) return run<unsigned char>(t, v);
  if (!strcmp(t, "short")) return run<short>(t, v);
  if (!strcmp(t, "ushort")) return run<unsigned short>(t, v);
  if (!strcmp(t, "int")) return run<int>(t, v);
  if (!strcmp(t, "uint")) return run<unsigned int>(t, v);
  return 2;
}
int main(int argc, char** argv)
{
  if (argc < 3) return 2;
  if (!strcmp(argv[2], "sweep"))
    {
      const float mags[] = { 1.F, 1000.F, 3.e38F, 1.e30F, 1.e-20F, 1.e-30F, 1.e-36F, 3.e-38F, 1.e-40F, 3.36e-42F, 1.e-44F };
      for (float pref : { 0.F, 1.F, 1.e-3F })
        for (float m : mags)
          for (int neg = 0; neg < 3; ++neg)
            {
              g_preferred_scale = pref;
              // neg == 2: negative-dominant data (largest magnitude on the negative side)
              std::vector<float> v = { neg == 2 ? -m : (neg ? -m * 0.7F : 0.F), m * (neg == 2 ? 0.001F : 0.5F), m * (neg == 2 ? 0.0015F : 0.96F), neg == 2 ? m * 0.002F : m };
              const int rc = dispatch(argv[1], v);
              if (rc) { std::printf("  (preferred scale factor %g)\n", pref); return rc; }
            }
      std::printf("REPLAY ok\n");
      return 0;
    }
  if (argc < 5) return 2;
  std::vector<float> v = { (float)atof(argv[2]), (float)atof(argv[3]), (float)atof(argv[4]) };
  if (argc > 5) g_preferred_scale = (float)atof(argv[5]);
  const int rc = dispatch(argv[1], v);
  if (!rc) std::printf("REPLAY ok\n");
  return rc;
}
