// Native replay for C02 against the REAL STIR libraries of /repo's working tree.
// usage: c02_replay range            out-of-range requests must be reported as errors and touch no bin
//        c02_replay header <dir>     header + data written with several segment orders read back with equal geometry and values (needs STIR_CONFIG_DIR)
//        c02_replay visible <dir>    file-backed data, writer kept open: after every write call an independent reader of the file sees the values
//        c02_replay scale <dir>      on-disk SHORT with scale factor 0.5: every write path stores with the factor the readers multiply with
//        c02_replay asym             in-memory data with an asymmetric segment range: unique values written bin by bin are all read back
//        c02_replay paths            values written through one access path are read back through the others, nothing else changes
// exit 0: property holds on everything tried; exit 1 + "CONFIRMED ..." line: violated
#include "stir/ProjDataInMemory.h"
#include "stir/ProjDataFromStream.h"
#include "stir/ProjDataInterfile.h"
#include "stir/ProjData.h"
#include "stir/ProjDataInfo.h"
#include "stir/ExamInfo.h"
#include "stir/Scanner.h"
#include "stir/Bin.h"
#include "stir/Viewgram.h"
#include "stir/Sinogram.h"
#include "stir/SegmentByView.h"
#include "stir/SegmentBySinogram.h"
#include "stir/Succeeded.h"
#include <cstdio>
#include <algorithm>
#include <cstring>
#include <map>
#include <sstream>
#include <vector>
using namespace stir;

typedef std::map<std::vector<int>, float> Ref;
static std::vector<int> key(const Bin& b) { return { b.segment_num(), b.axial_pos_num(), b.view_num(), b.tangential_pos_num(), b.timing_pos_num() }; }

static shared_ptr<ProjDataInfo> make_info()
{
  shared_ptr<Scanner> scanner(new Scanner(Scanner::E953));
  return shared_ptr<ProjDataInfo>(ProjDataInfo::ProjDataInfoCTI(scanner, 1, 2, 8, 16, false));
}
template <class PD>
static bool snapshot_equal(PD& pd, const Ref& ref, const char* what)
{
  const ProjDataInfo& pi = *pd.get_proj_data_info_sptr();
  for (int s = pi.get_min_segment_num(); s <= pi.get_max_segment_num(); ++s)
    for (int a = pi.get_min_axial_pos_num(s); a <= pi.get_max_axial_pos_num(s); ++a)
      for (int v = pi.get_min_view_num(); v <= pi.get_max_view_num(); ++v)
        for (int t = pi.get_min_tangential_pos_num(); t <= pi.get_max_tangential_pos_num(); ++t)
          {
            Bin b(s, v, a, t);
            const float got = pd.get_bin_value(b);
            const float want = ref.at(key(b));
            if (got != want)
              { std::printf("CONFIRMED %s: bin (seg %d, ax %d, view %d, tang %d) holds %g, reference map says %g\n", what, s, a, v, t, got, want); return false; }
          }
  return true;
}
template <class PD>
static Ref fill(PD& pd)
{
  Ref ref;
  const ProjDataInfo& pi = *pd.get_proj_data_info_sptr();
  float x = 1.F;
  for (int s = pi.get_min_segment_num(); s <= pi.get_max_segment_num(); ++s)
    for (int a = pi.get_min_axial_pos_num(s); a <= pi.get_max_axial_pos_num(s); ++a)
      for (int v = pi.get_min_view_num(); v <= pi.get_max_view_num(); ++v)
        for (int t = pi.get_min_tangential_pos_num(); t <= pi.get_max_tangential_pos_num(); ++t)
          {
            Bin b(s, v, a, t, 0, x);
            pd.set_bin_value(b);
            ref[key(b)] = x;
            x += 1.F;
          }
  return ref;
}
template <class PD>
static int range_checks(PD& pd, const char* cls)
{
  Ref ref = fill(pd);
  const ProjDataInfo& pi = *pd.get_proj_data_info_sptr();
  const int s0 = 0, a0 = pi.get_min_axial_pos_num(0);
  struct { const char* what; Bin b; } bad[] = {
    { "view above range", Bin(s0, pi.get_max_view_num() + 1, a0, pi.get_min_tangential_pos_num(), 0, 7777.F) },
    { "view below range", Bin(s0, pi.get_min_view_num() - 1, a0 + 1, pi.get_min_tangential_pos_num(), 0, 7777.F) },
    { "tangential position above range", Bin(s0, pi.get_min_view_num(), a0, pi.get_max_tangential_pos_num() + 1, 0, 7777.F) },
    { "tangential position below range", Bin(s0, pi.get_min_view_num() + 1, a0, pi.get_min_tangential_pos_num() - 1, 0, 7777.F) },
    { "axial position above range", Bin(s0, pi.get_min_view_num(), pi.get_max_axial_pos_num(0) + 1, pi.get_min_tangential_pos_num(), 0, 7777.F) },
    { "segment above range", Bin(pi.get_max_segment_num() + 1, pi.get_min_view_num(), 0, pi.get_min_tangential_pos_num(), 0, 7777.F) },
  };
  for (auto& c : bad)
    {
      bool threw = false;
      try { pd.set_bin_value(c.b); } catch (...) { threw = true; }
      if (!threw)
        {
          std::printf("CONFIRMED %s::set_bin_value with %s (seg %d, ax %d, view %d, tang %d): no error reported\n", cls, c.what,
                      c.b.segment_num(), c.b.axial_pos_num(), c.b.view_num(), c.b.tangential_pos_num());
          snapshot_equal(pd, ref, "  and another bin was overwritten");
          return 1;
        }
      if (!snapshot_equal(pd, ref, "after a rejected out-of-range write")) return 1;
      threw = false;
      try { (void)pd.get_bin_value(c.b); } catch (...) { threw = true; }
      if (!threw) { std::printf("CONFIRMED %s::get_bin_value with %s: no error reported\n", cls, c.what); return 1; }
    }
  return 0;
}
template <class PD>
static int paths(PD& pd, const char* cls)
{
  Ref ref = fill(pd);
  const ProjDataInfo& pi = *pd.get_proj_data_info_sptr();
  // viewgram path
  {
    const int s = 1, v = 3;
    Viewgram<float> vg = pd.get_viewgram(v, s);
    for (int a = vg.get_min_axial_pos_num(); a <= vg.get_max_axial_pos_num(); ++a)
      for (int t = vg.get_min_tangential_pos_num(); t <= vg.get_max_tangential_pos_num(); ++t)
        {
          if (vg[a][t] != ref[key(Bin(s, v, a, t))]) { std::printf("CONFIRMED %s::get_viewgram(view %d, seg %d)[%d][%d] = %g, reference %g\n", cls, v, s, a, t, vg[a][t], ref[key(Bin(s, v, a, t))]); return 1; }
          vg[a][t] = -vg[a][t]; ref[key(Bin(s, v, a, t))] = vg[a][t];
        }
    pd.set_viewgram(vg);
    if (!snapshot_equal(pd, ref, "after set_viewgram")) return 1;
  }
  // sinogram path
  {
    const int s = -2, a = pi.get_max_axial_pos_num(-2);
    Sinogram<float> sg = pd.get_sinogram(a, s);
    for (int v = sg.get_min_view_num(); v <= sg.get_max_view_num(); ++v)
      for (int t = sg.get_min_tangential_pos_num(); t <= sg.get_max_tangential_pos_num(); ++t)
        {
          if (sg[v][t] != ref[key(Bin(s, v, a, t))]) { std::printf("CONFIRMED %s::get_sinogram(ax %d, seg %d)[%d][%d] = %g, reference %g\n", cls, a, s, v, t, sg[v][t], ref[key(Bin(s, v, a, t))]); return 1; }
          sg[v][t] = sg[v][t] * 2 + 0.5F; ref[key(Bin(s, v, a, t))] = sg[v][t];
        }
    pd.set_sinogram(sg);
    if (!snapshot_equal(pd, ref, "after set_sinogram")) return 1;
  }
  // segment paths
  {
    const int s = 2;
    SegmentByView<float> sv = pd.get_segment_by_view(s);
    SegmentBySinogram<float> ss = pd.get_segment_by_sinogram(s);
    for (int a = pi.get_min_axial_pos_num(s); a <= pi.get_max_axial_pos_num(s); ++a)
      for (int v = pi.get_min_view_num(); v <= pi.get_max_view_num(); ++v)
        for (int t = pi.get_min_tangential_pos_num(); t <= pi.get_max_tangential_pos_num(); ++t)
          {
            const float want = ref[key(Bin(s, v, a, t))];
            if (sv[v][a][t] != want || ss[a][v][t] != want) { std::printf("CONFIRMED %s: segment %d by view / by sinogram at (ax %d, view %d, tang %d) = %g / %g, reference %g\n", cls, s, a, v, t, sv[v][a][t], ss[a][v][t], want); return 1; }
            sv[v][a][t] = want + 1000; ref[key(Bin(s, v, a, t))] = want + 1000;
          }
    pd.set_segment(sv);
    if (!snapshot_equal(pd, ref, "after set_segment(by view)")) return 1;
  }
  return 0;
}

// header + data written through ProjDataInterfile with a given segment order in the stream read back with equal geometry and values
static int header(const char* dir)
{
  shared_ptr<ProjDataInfo> info = make_info();
  shared_ptr<ExamInfo> exam(new ExamInfo);
  exam->imaging_modality = ImagingModality::PT;
  const std::vector<std::vector<int>> seqs = { { -2, -1, 0, 1, 2 }, { 0, 1, -1, 2, -2 }, { 1, -2, 0, 2, -1 }, { 2, 1, 0, -1, -2 } };
  int n = 0;
  for (auto& seq : seqs)
    for (int order = 0; order < 2; ++order)
      {
        const std::string filename = std::string(dir) + "/c02_hdr_" + std::to_string(n++);
        Ref ref;
        {
          ProjDataInterfile out(exam, info, filename, std::ios::in | std::ios::out | std::ios::trunc, seq,
                                order ? ProjDataFromStream::Segment_View_AxialPos_TangPos : ProjDataFromStream::Segment_AxialPos_View_TangPos);
          ref = fill(out);
        }
        shared_ptr<ProjData> in = ProjData::read_from_file(filename + ".hs");
        const ProjDataInfo& pi = *in->get_proj_data_info_sptr();
        for (int s = info->get_min_segment_num(); s <= info->get_max_segment_num(); ++s)
          if (pi.get_num_axial_poss(s) != info->get_num_axial_poss(s))
            {
              std::printf("CONFIRMED segment order {%d,%d,%d,%d,%d} in the stream: segment %d was written with %d axial positions and has %d after reading the header back\n",
                          seq[0], seq[1], seq[2], seq[3], seq[4], s, info->get_num_axial_poss(s), pi.get_num_axial_poss(s));
              return 1;
            }
        if (!(pi == *info)) { std::printf("CONFIRMED segment order {%d,...}: geometry read back differs from the one written\n", seq[0]); return 1; }
        ProjDataInMemory mem(*in);
        if (!snapshot_equal(mem, ref, "values read back from file")) return 1;
      }
  return 0;
}

// "written values are visible to an independent reader of the file as soon as each write call returns":
// file-backed data, the writer stays open; after each write call the file is read by a second, independent reader
static bool reader_sees(const std::string& filename, const Ref& ref, const char* after)
{
  shared_ptr<ProjData> in = ProjData::read_from_file(filename + ".hs");
  ProjDataInMemory mem(*in);
  const ProjDataInfo& pi = *mem.get_proj_data_info_sptr();
  for (int s = pi.get_min_segment_num(); s <= pi.get_max_segment_num(); ++s)
    for (int a = pi.get_min_axial_pos_num(s); a <= pi.get_max_axial_pos_num(s); ++a)
      for (int v = pi.get_min_view_num(); v <= pi.get_max_view_num(); ++v)
        for (int t = pi.get_min_tangential_pos_num(); t <= pi.get_max_tangential_pos_num(); ++t)
          {
            Bin b(s, v, a, t);
            const float got = mem.get_bin_value(b);
            Ref::const_iterator it = ref.find(key(b));
            const float want = it == ref.end() ? 0.F : it->second;
            if (got != want)
              {
                std::printf("CONFIRMED ProjDataInterfile (writer still open) after %s returned: independent reader of the file sees %g in bin (seg %d, ax %d, view %d, tang %d), written value %g\n",
                            after, got, s, a, v, t, want);
                return false;
              }
          }
  return true;
}
static int visible(const char* dir)
{
  shared_ptr<ProjDataInfo> info = make_info();
  shared_ptr<ExamInfo> exam(new ExamInfo);
  exam->imaging_modality = ImagingModality::PT;
  const std::vector<int> seq = { 1, -2, 0, 2, -1 };
  for (int order = 0; order < 2; ++order)
    {
      const std::string filename = std::string(dir) + "/c02_vis_" + std::to_string(order);
      ProjDataInterfile out(exam, info, filename, std::ios::in | std::ios::out | std::ios::trunc, seq,
                            order ? ProjDataFromStream::Segment_View_AxialPos_TangPos : ProjDataFromStream::Segment_AxialPos_View_TangPos);
      const ProjDataInfo& pi = *info;
      Ref ref;
      float x = 1.F;
      // whole data set through set_segment so that the file has its full size
      for (int s = pi.get_min_segment_num(); s <= pi.get_max_segment_num(); ++s)
        {
          SegmentBySinogram<float> seg = info->get_empty_segment_by_sinogram(s);
          for (int a = pi.get_min_axial_pos_num(s); a <= pi.get_max_axial_pos_num(s); ++a)
            for (int v = pi.get_min_view_num(); v <= pi.get_max_view_num(); ++v)
              for (int t = pi.get_min_tangential_pos_num(); t <= pi.get_max_tangential_pos_num(); ++t)
                { seg[a][v][t] = x; ref[key(Bin(s, v, a, t))] = x; x += 1.F; }
          if (s % 2 == 0) out.set_segment(seg); else out.set_segment(SegmentByView<float>(seg));
          // only complete once all segments are written: compare the segments written so far
        }
      if (!reader_sees(filename, ref, order ? "set_segment (view order)" : "set_segment (sinogram order)")) return 1;
      for (int s = pi.get_min_segment_num(); s <= pi.get_max_segment_num(); ++s)
        {
          // one viewgram, one sinogram, one bin: each observed straight after the call
          const int v0 = pi.get_max_view_num() - 1, a0 = pi.get_max_axial_pos_num(s);
          Viewgram<float> vg = info->get_empty_viewgram(v0, s);
          for (int a = pi.get_min_axial_pos_num(s); a <= pi.get_max_axial_pos_num(s); ++a)
            for (int t = pi.get_min_tangential_pos_num(); t <= pi.get_max_tangential_pos_num(); ++t)
              { vg[a][t] = x; ref[key(Bin(s, v0, a, t))] = x; x += 1.F; }
          out.set_viewgram(vg);
          if (!reader_sees(filename, ref, "set_viewgram")) return 1;
          Sinogram<float> sg = info->get_empty_sinogram(a0, s);
          for (int v = pi.get_min_view_num(); v <= pi.get_max_view_num(); ++v)
            for (int t = pi.get_min_tangential_pos_num(); t <= pi.get_max_tangential_pos_num(); ++t)
              { sg[v][t] = x; ref[key(Bin(s, v, a0, t))] = x; x += 1.F; }
          out.set_sinogram(sg);
          if (!reader_sees(filename, ref, "set_sinogram")) return 1;
          Bin b(s, pi.get_min_view_num() + 1, pi.get_min_axial_pos_num(s), pi.get_max_tangential_pos_num(), 0, x);
          ref[key(b)] = x; x += 1.F;
          out.set_bin_value(b);
          if (!reader_sees(filename, ref, "set_bin_value")) return 1;
        }
    }
  return 0;
}

// "read back unchanged ... whatever the ... on-disk number type": file of shorts with a scale factor != 1; values are
// multiples of the scale factor (exactly representable), written through each path and read back through get_bin_value
static int scale_paths(const char* dir)
{
  shared_ptr<ProjDataInfo> info = make_info();
  shared_ptr<ExamInfo> exam(new ExamInfo);
  exam->imaging_modality = ImagingModality::PT;
  const ProjDataInfo& pi = *info;
  for (int order = 0; order < 2; ++order)
    {
      ProjDataInterfile pd(exam, info, std::string(dir) + "/c02_scale_" + std::to_string(order), std::ios::in | std::ios::out | std::ios::trunc,
                           order ? ProjDataFromStream::Segment_View_AxialPos_TangPos : ProjDataFromStream::Segment_AxialPos_View_TangPos,
                           NumericType::SHORT, ByteOrder::native, 0.5F);
      Ref ref;
      for (int s = pi.get_min_segment_num(); s <= pi.get_max_segment_num(); ++s)
        {
          SegmentByView<float> seg = info->get_empty_segment_by_view(s);
          for (int v = pi.get_min_view_num(); v <= pi.get_max_view_num(); ++v)
            for (int a = pi.get_min_axial_pos_num(s); a <= pi.get_max_axial_pos_num(s); ++a)
              for (int t = pi.get_min_tangential_pos_num(); t <= pi.get_max_tangential_pos_num(); ++t)
                { seg[v][a][t] = 4.F; ref[key(Bin(s, v, a, t))] = 4.F; }
          pd.set_segment(seg);
        }
      if (!snapshot_equal(pd, ref, "shorts with scale factor 0.5 after set_segment")) return 1;
      const int s = 1, v0 = pi.get_min_view_num() + 2, a0 = pi.get_min_axial_pos_num(s) + 1;
      Viewgram<float> vg = info->get_empty_viewgram(v0, s);
      for (int a = pi.get_min_axial_pos_num(s); a <= pi.get_max_axial_pos_num(s); ++a)
        for (int t = pi.get_min_tangential_pos_num(); t <= pi.get_max_tangential_pos_num(); ++t)
          { vg[a][t] = 7.5F; ref[key(Bin(s, v0, a, t))] = 7.5F; }
      pd.set_viewgram(vg);
      if (!snapshot_equal(pd, ref, "shorts with scale factor 0.5 after set_viewgram")) return 1;
      Sinogram<float> sg = info->get_empty_sinogram(a0, s);
      for (int v = pi.get_min_view_num(); v <= pi.get_max_view_num(); ++v)
        for (int t = pi.get_min_tangential_pos_num(); t <= pi.get_max_tangential_pos_num(); ++t)
          { sg[v][t] = 12.F; ref[key(Bin(s, v, a0, t))] = 12.F; }
      pd.set_sinogram(sg);
      if (!snapshot_equal(pd, ref, "shorts with scale factor 0.5 after set_sinogram")) return 1;
      Bin b(0, pi.get_min_view_num() + 1, pi.get_min_axial_pos_num(0) + 2, 3, 0, 10.F);
      ref[key(b)] = 10.F;
      pd.set_bin_value(b);
      if (!snapshot_equal(pd, ref, "shorts with scale factor 0.5 after set_bin_value(10)")) return 1;
    }
  return 0;
}

// asymmetric segment ranges (after reduce_segment_range): every bin written with its own value is read back with that value
static int asym()
{
  shared_ptr<ExamInfo> exam(new ExamInfo);
  const int ranges[][2] = { { -2, 1 }, { 0, 2 }, { -1, 2 }, { -2, 0 } };
  for (auto& r : ranges)
    {
      shared_ptr<ProjDataInfo> info(make_info()->clone());
      info->reduce_segment_range(r[0], r[1]);
      ProjDataInMemory pd(exam, info);
      Ref ref = fill(pd);
      char what[100];
      std::snprintf(what, sizeof(what), "ProjDataInMemory with segments [%d,%d] after writing every bin with its own value", r[0], r[1]);
      if (!snapshot_equal(pd, ref, what)) return 1;
    }
  return 0;
}

// TOF data in a stream whose TOF blocks are in a given order (element i of the order = TOF bin of block i): every bin read through
// get_bin_value / get_viewgram / get_sinogram is the raw element at block(tof) * block_size + offset inside the block, and a value written
// through set_bin_value lands there
static int tofstream()
{
  shared_ptr<ExamInfo> exam(new ExamInfo);
  exam->imaging_modality = ImagingModality::PT;
  shared_ptr<Scanner> scanner(new Scanner(Scanner::Discovery690));
  shared_ptr<ProjDataInfo> info(ProjDataInfo::construct_proj_data_info(scanner, 2, 2, 8, 6, false, 11));
  if (info->get_num_tof_poss() != 5) { std::printf("unexpected number of TOF bins %d\n", info->get_num_tof_poss()); return 3; }
  const ProjDataInfo& pi = *info;
  const std::vector<std::vector<int>> orders = { { -2, -1, 0, 1, 2 }, { 0, 1, -1, 2, -2 }, { 1, 2, -2, 0, -1 }, { 2, 1, 0, -1, -2 } };
  const std::vector<int> segseq = { 0, 1, -1 }; // default order of the segments in the stream for this constructor
  for (int order = 0; order < 2; ++order)
    for (auto& tof_order : orders)
      {
        long block = 0;
        for (int sg = pi.get_min_segment_num(); sg <= pi.get_max_segment_num(); ++sg)
          block += long(pi.get_num_axial_poss(sg)) * pi.get_num_views() * pi.get_num_tangential_poss();
        std::vector<float> raw(block * 5);
        for (std::size_t k = 0; k < raw.size(); ++k) raw[k] = float(k);
        shared_ptr<std::stringstream> stream(new std::stringstream(std::string(reinterpret_cast<const char*>(raw.data()), raw.size() * sizeof(float)),
                                                                   std::ios::in | std::ios::out | std::ios::binary));
        ProjDataFromStream pd(exam, info, stream, 0, order == 0 ? ProjDataFromStream::Segment_View_AxialPos_TangPos : ProjDataFromStream::Segment_AxialPos_View_TangPos);
        pd.set_timing_poss_sequence_in_stream(tof_order);
        const std::vector<int> seq = pd.get_segment_sequence_in_stream();
        auto index = [&](int sg, int ax, int vw, int tg, int tof) {
          long k = (std::find(tof_order.begin(), tof_order.end(), tof) - tof_order.begin()) * block;
          for (int q : seq) { if (q == sg) break; k += long(pi.get_num_axial_poss(q)) * pi.get_num_views() * pi.get_num_tangential_poss(); }
          const long a = ax - pi.get_min_axial_pos_num(sg), v = vw - pi.get_min_view_num(), t = tg - pi.get_min_tangential_pos_num();
          return order == 0 ? k + (v * pi.get_num_axial_poss(sg) + a) * pi.get_num_tangential_poss() + t : k + (a * pi.get_num_views() + v) * pi.get_num_tangential_poss() + t;
        };
        for (int tof = pi.get_min_tof_pos_num(); tof <= pi.get_max_tof_pos_num(); ++tof)
          for (int sg = pi.get_min_segment_num(); sg <= pi.get_max_segment_num(); ++sg)
            for (int vw = pi.get_min_view_num(); vw <= pi.get_max_view_num(); ++vw)
              {
                const Viewgram<float> vg = pd.get_viewgram(vw, sg, false, tof);
                for (int ax = pi.get_min_axial_pos_num(sg); ax <= pi.get_max_axial_pos_num(sg); ++ax)
                  for (int tg = pi.get_min_tangential_pos_num(); tg <= pi.get_max_tangential_pos_num(); ++tg)
                    {
                      const float want = raw[index(sg, ax, vw, tg, tof)], got = vg[ax][tg], got2 = pd.get_bin_value(Bin(sg, vw, ax, tg, tof));
                      if (got != want || got2 != want)
                        {
                          std::printf("CONFIRMED ProjDataFromStream (%s order, TOF bin order {%d,%d,%d,%d,%d}): bin (seg %d, ax %d, view %d, tang %d, TOF %d) is raw element %ld = %g; get_viewgram gives %g, get_bin_value %g\n",
                                      order == 0 ? "view" : "sinogram", tof_order[0], tof_order[1], tof_order[2], tof_order[3], tof_order[4], sg, ax, vw, tg, tof, index(sg, ax, vw, tg, tof), want, got, got2);
                          return 1;
                        }
                    }
              }
        // a write lands in the element of its own bin
        const Bin b(pi.get_max_segment_num(), 3, 0, -1, pi.get_max_tof_pos_num(), -5.F);
        pd.set_bin_value(b);
        const std::string bytes = stream->str();
        float back;
        std::memcpy(&back, bytes.data() + index(b.segment_num(), b.axial_pos_num(), b.view_num(), b.tangential_pos_num(), b.timing_pos_num()) * sizeof(float), sizeof(float));
        if (back != -5.F)
          { std::printf("CONFIRMED ProjDataFromStream::set_bin_value with TOF bin order {%d,%d,%d,%d,%d}: the value is not at the element of its bin in the stream\n", tof_order[0], tof_order[1], tof_order[2], tof_order[3], tof_order[4]); return 1; }
      }
  std::printf("REPLAY ok\n");
  return 0;
}

int main(int argc, char** argv)
{
  if (argc < 2) return 2;
  if (!strcmp(argv[1], "tofstream")) return tofstream();
  if (!strcmp(argv[1], "header"))
    {
      try { const int rc = header(argc > 2 ? argv[2] : "."); if (!rc) std::printf("REPLAY ok\n"); return rc; }
      catch (...) { std::printf("exception\n"); return 3; }
    }
  if (!strcmp(argv[1], "asym"))
    {
      try { const int rc = asym(); if (!rc) std::printf("REPLAY ok\n"); return rc; }
      catch (...) { std::printf("exception\n"); return 3; }
    }
  if (!strcmp(argv[1], "scale"))
    {
      try { const int rc = scale_paths(argc > 2 ? argv[2] : "."); if (!rc) std::printf("REPLAY ok\n"); return rc; }
      catch (...) { std::printf("exception\n"); return 3; }
    }
  if (!strcmp(argv[1], "visible"))
    {
      try { const int rc = visible(argc > 2 ? argv[2] : "."); if (!rc) std::printf("REPLAY ok\n"); return rc; }
      catch (...) { std::printf("exception\n"); return 3; }
    }
  try
    {
      shared_ptr<ProjDataInfo> info = make_info();
      shared_ptr<ExamInfo> exam(new ExamInfo);
      for (int store = 0; store < 3; ++store)
        {
          int rc;
          if (store == 0)
            {
              ProjDataInMemory pd(exam, info);
              rc = !strcmp(argv[1], "range") ? range_checks(pd, "ProjDataInMemory") : paths(pd, "ProjDataInMemory");
            }
          else
            {
              shared_ptr<std::iostream> str(new std::stringstream(std::ios::in | std::ios::out | std::ios::binary));
              // a permuted segment sequence and both storage orders
              std::vector<int> seq = { 1, -2, 0, 2, -1 };
              ProjDataFromStream pd(exam, info, str, std::streamoff(16), seq,
                                    store == 1 ? ProjDataFromStream::Segment_View_AxialPos_TangPos : ProjDataFromStream::Segment_AxialPos_View_TangPos);
              // make the stream big enough
              { const std::string zeros(16 + 4 * pd.size_all(), '\0'); str->write(zeros.data(), zeros.size()); }
              rc = !strcmp(argv[1], "range") ? range_checks(pd, "ProjDataFromStream") : paths(pd, "ProjDataFromStream");
            }
          if (rc) return rc;
        }
    }
  catch (...)
    {
      std::printf("exception\n");
      return 3;
    }
  std::printf("REPLAY ok\n");
  return 0;
}
