// Native replay for C06 against the real STIR libraries.
// usage: c06_replay subset_num <num_subsets> <start_subiteration> <start_subset> <randomise> <n_calls>
//        c06_replay symop <num_views> <unused> <max_segment> <do90> <do180> <swapseg> [<swap_s> <shift_z>]   (C03)
//        c06_replay partition <num_views> <num_subsets> <max_segment> <do90> <do180> <swapseg>
#include "stir/OSMAPOSL/OSMAPOSLReconstruction.h"
#include "stir/DiscretisedDensity.h"
#include "stir/recon_buildblock/find_basic_vs_nums_in_subsets.h"
#include "stir/recon_buildblock/DataSymmetriesForBins_PET_CartesianGrid.h"
#include "stir/recon_buildblock/SymmetryOperation.h"
#include "stir/Bin.h"
#include "stir/ProjDataInfoCylindricalNoArcCorr.h"
#include "stir/VoxelsOnCartesianGrid.h"
#include "stir/Scanner.h"
#include "stir/recon_buildblock/PoissonLogLikelihoodWithLinearModelForMeanAndProjData.h"
#include "stir/recon_buildblock/ProjMatrixByBinUsingRayTracing.h"
#include "stir/recon_buildblock/ProjectorByBinPairUsingProjMatrixByBin.h"
#include "stir/ProjDataInMemory.h"
#include "stir/ExamInfo.h"
#include "stir/Verbosity.h"
#include <cstdio>
#include <cstdlib>
#include <cstring>
#include <map>
#include <set>
using namespace stir;
int main(int argc, char** argv)
{
  if (argc < 2) return 2;
  if (!strcmp(argv[1], "subset_num") && argc >= 7)
    {
      const int S = atoi(argv[2]), start_sub = atoi(argv[3]), start_subset = atoi(argv[4]), rnd = atoi(argv[5]), n = atoi(argv[6]);
      OSMAPOSLReconstruction<DiscretisedDensity<3, float>> r;
      r.num_subsets = S; r.start_subset_num = start_subset; r.randomise_subset_order = rnd; r.start_subiteration_num = start_sub;
      std::map<int, std::set<int>> used; // full iteration -> subsets used
      for (r.subiteration_num = start_sub; r.subiteration_num < start_sub + n; ++r.subiteration_num)
        {
          const int s = r.get_subset_num(); // the real function; crashes / ASan if it reads outside _current_subset_array
          if (s < 0 || s >= S) { std::printf("CONFIRMED get_subset_num()=%d outside [0,%d) at sub-iteration %d\n", s, S, r.subiteration_num); return 1; }
          const int it = (r.subiteration_num - 1) / S;
          if (!used[it].insert(s).second) { std::printf("CONFIRMED subset %d used twice in full iteration %d\n", s, it); return 1; }
        }
      std::printf("REPLAY ok\n");
      return 0;
    }
  if (!strcmp(argv[1], "partition") && argc >= 8)
    {
      const int nv = atoi(argv[2]), S = atoi(argv[3]), maxseg = atoi(argv[4]);
      const bool d90 = atoi(argv[5]), d180 = atoi(argv[6]), sw = atoi(argv[7]);
      shared_ptr<Scanner> scanner(new Scanner(Scanner::E931)); // no intrinsic tilt (a tilted scanner such as E953 switches the view symmetries off)
      scanner->set_num_detectors_per_ring(2 * nv);
      scanner->set_num_rings(maxseg + 2);
      shared_ptr<ProjDataInfo> pdi(ProjDataInfo::ProjDataInfoCTI(scanner, 1, maxseg, nv, 8, false));
      shared_ptr<DiscretisedDensity<3, float>> img(new VoxelsOnCartesianGrid<float>(*pdi));
      DataSymmetriesForBins_PET_CartesianGrid sym(pdi, img, d90, d180, sw, true, true);
      // the requested view symmetries must really be in effect (fields read with -fno-access-control)
      if ((d90 && nv % 4 == 0 && !sym.do_symmetry_90degrees_min_phi) || ((d90 || d180) && nv % 2 == 0 && !sym.do_symmetry_180degrees_min_phi))
        { std::printf("requested view symmetries were switched off by the constructor\n"); return 3; }
      std::map<std::pair<int, int>, int> seen;
      for (int s = 0; s < S; ++s)
        {
          std::vector<ViewSegmentNumbers> basics = detail::find_basic_vs_nums_in_subset(*pdi, sym, -maxseg, maxseg, s, S);
          for (auto& b : basics)
            {
              std::vector<ViewSegmentNumbers> rel;
              sym.get_related_view_segment_numbers(rel, b);
              if ((int)rel.size() != sym.num_related_view_segment_numbers(b)) { std::printf("CONFIRMED num_related %d != list size %d for view %d segment %d\n", sym.num_related_view_segment_numbers(b), (int)rel.size(), b.view_num(), b.segment_num()); return 1; }
              for (auto& v : rel) seen[std::make_pair(v.segment_num(), v.view_num())]++;
            }
        }
      for (int seg = -maxseg; seg <= maxseg; ++seg)
        for (int v = 0; v < nv; ++v)
          if (seen[std::make_pair(seg, v)] != 1) { std::printf("CONFIRMED (segment %d, view %d) processed %d times over all %d subsets\n", seg, v, seen[std::make_pair(seg, v)], S); return 1; }
      if ((int)seen.size() != (2 * maxseg + 1) * nv) { std::printf("CONFIRMED view-segments outside the data were processed\n"); return 1; }
      std::printf("REPLAY ok\n");
      return 0;
    }
  if (!strcmp(argv[1], "balanced") && argc >= 7)
    {
      // "Subsets are reported as balanced exactly when all subsets process the same number of viewgrams":
      // recount what each subset really processes and compare with the verdict of the objective function
      const int nv = atoi(argv[2]), S = atoi(argv[3]);
      const bool d90 = atoi(argv[4]), d180 = atoi(argv[5]), sw = atoi(argv[6]);
      Verbosity::set(0);
      shared_ptr<Scanner> scanner(new Scanner(Scanner::E931));
      scanner->set_num_detectors_per_ring(2 * nv);
      scanner->set_num_rings(3);
      shared_ptr<ProjDataInfo> pdi(ProjDataInfo::ProjDataInfoCTI(scanner, 1, 1, nv, 5, false));
      shared_ptr<ExamInfo> exam(new ExamInfo(ImagingModality::PT));
      shared_ptr<ProjData> pd(new ProjDataInMemory(exam, pdi));
      pd->fill(1.F);
      shared_ptr<DiscretisedDensity<3, float>> img(new VoxelsOnCartesianGrid<float>(exam, *pdi, 1.F, CartesianCoordinate3D<float>(0, 0, 0)));
      img->fill(1.F);
      shared_ptr<ProjMatrixByBinUsingRayTracing> pm(new ProjMatrixByBinUsingRayTracing());
      pm->set_do_symmetry_90degrees_min_phi(d90);
      pm->set_do_symmetry_180degrees_min_phi(d180);
      pm->set_do_symmetry_swap_segment(sw);
      shared_ptr<ProjectorByBinPair> pp(new ProjectorByBinPairUsingProjMatrixByBin(pm));
      PoissonLogLikelihoodWithLinearModelForMeanAndProjData<DiscretisedDensity<3, float>> obj;
      obj.set_proj_data_sptr(pd);
      obj.set_projector_pair_sptr(pp);
      obj.set_use_subset_sensitivities(true); // set_up accepts unbalanced subsets in this mode; the verdict can be asked afterwards
      obj.set_num_subsets(S);
      if (obj.set_up(img) != Succeeded::yes) { std::printf("set_up failed\n"); return 3; }
      const DataSymmetriesForViewSegmentNumbers& sym = *pp->get_symmetries_used();
      const int maxseg = obj.get_max_segment_num_to_process();
      std::vector<int> n(S, 0);
      for (int s = 0; s < S; ++s)
        for (auto& b : detail::find_basic_vs_nums_in_subset(*pdi, sym, -maxseg, maxseg, s, S))
          {
            std::vector<ViewSegmentNumbers> rel;
            sym.get_related_view_segment_numbers(rel, b);
            n[s] += (int)rel.size();
          }
      bool same = true;
      for (int s = 1; s < S; ++s) same = same && n[s] == n[0];
      const bool reported = obj.subsets_are_approximately_balanced();
      if (same != reported)
        {
          std::printf("CONFIRMED %d views, %d subsets (sym90=%d sym180=%d swap=%d): viewgrams per subset", nv, S, (int)d90, (int)d180, (int)sw);
          for (int s = 0; s < S; ++s) std::printf(" %d", n[s]);
          std::printf(" -> %s, but subsets_are_approximately_balanced() reports %s\n", same ? "balanced" : "NOT balanced", reported ? "balanced" : "NOT balanced");
          return 1;
        }
      std::printf("REPLAY ok\n");
      return 0;
    }
  if (!strcmp(argv[1], "symop") && argc >= 8)
    {
      // C03: for every bin, the symmetry operation applied to the basic bin gives back the bin (all five coordinates)
      const int nv = atoi(argv[2]), maxseg = atoi(argv[4]);
      const bool d90 = atoi(argv[5]), d180 = atoi(argv[6]), sw = atoi(argv[7]);
      const bool sws = argc > 8 ? atoi(argv[8]) : true, shz = argc > 9 ? atoi(argv[9]) : true;
      shared_ptr<Scanner> scanner(new Scanner(Scanner::E931));
      scanner->set_num_detectors_per_ring(2 * nv);
      scanner->set_num_rings(maxseg + 2);
      shared_ptr<ProjDataInfo> pdi(ProjDataInfo::ProjDataInfoCTI(scanner, 1, maxseg, nv, 8, false));
      shared_ptr<DiscretisedDensity<3, float>> img(new VoxelsOnCartesianGrid<float>(*pdi));
      DataSymmetriesForBins_PET_CartesianGrid sym(pdi, img, d90, d180, sw, sws, shz);
      if ((d90 && nv % 4 == 0 && !sym.do_symmetry_90degrees_min_phi) || ((d90 || d180) && nv % 2 == 0 && !sym.do_symmetry_180degrees_min_phi))
        { std::printf("requested view symmetries were switched off by the constructor\n"); return 3; }
      for (int seg = -maxseg; seg <= maxseg; ++seg)
        for (int ax = pdi->get_min_axial_pos_num(seg); ax <= pdi->get_max_axial_pos_num(seg); ++ax)
          for (int v = 0; v < nv; ++v)
            for (int t = pdi->get_min_tangential_pos_num(); t <= pdi->get_max_tangential_pos_num(); ++t)
              {
                const Bin b0(seg, v, ax, t);
                Bin b = b0;
                unique_ptr<SymmetryOperation> op = sym.find_symmetry_operation_from_basic_bin(b);
                Bin again = b;
                if (sym.find_basic_bin(again) || !(again == b))
                  { std::printf("CONFIRMED basic bin of (seg %d, view %d, ax %d, tang %d) is not a fixed point of find_basic_bin\n", seg, v, ax, t); return 1; }
                Bin back = b;
                op->transform_bin_coordinates(back);
                if (!(back == b0))
                  { std::printf("CONFIRMED bin (seg %d, view %d, ax %d, tang %d): operation applied to its basic bin (seg %d, view %d, ax %d, tang %d) gives (seg %d, view %d, ax %d, tang %d)\n",
                                seg, v, ax, t, b.segment_num(), b.view_num(), b.axial_pos_num(), b.tangential_pos_num(), back.segment_num(), back.view_num(), back.axial_pos_num(), back.tangential_pos_num()); return 1; }
              }
      std::printf("REPLAY ok\n");
      return 0;
    }
  return 2;
}
