// Native replay for C10, header clauses: voxel positions (anisotropic voxel sizes, shifted origin, odd/even sizes) and values written as scaled
// integers with small scale factors, with and without a calibration factor in the exam information, survive Interfile write + read.
// usage: c10_hdr_replay <dir>
#include "stir/VoxelsOnCartesianGrid.h"
#include "stir/IO/InterfileOutputFileFormat.h"
#include "stir/IO/read_from_file.h"
#include "stir/IndexRange3D.h"
#include "stir/ExamInfo.h"
#include "stir/NumericType.h"
#include "stir/ByteOrder.h"
#include "stir/Succeeded.h"
#include <cmath>
#include <cstdio>
#include <string>
using namespace stir;
int main(int argc, char** argv)
{
  const std::string dir = argc > 1 ? argv[1] : ".";
  try
    {
      int n = 0;
      const NumericType types[] = { NumericType::SHORT, NumericType::INT };
      for (int geom = 0; geom < 3; ++geom)
        for (int calib = 0; calib < 2; ++calib)
          for (auto t : types)
            for (int small = 0; small < 2; ++small)
              {
                shared_ptr<ExamInfo> exam(new ExamInfo(ImagingModality::PT));
                if (calib) exam->set_calibration_factor(123456.789F);
                const IndexRange3D range = geom == 0 ? IndexRange3D(0, 3, -2, 2, -3, 3) : geom == 1 ? IndexRange3D(0, 2, -3, 2, -2, 1) : IndexRange3D(0, 4, -1, 1, -4, 3);
                const CartesianCoordinate3D<float> origin = geom == 0 ? CartesianCoordinate3D<float>(0, 0, 0) : CartesianCoordinate3D<float>(7.5F, -3.25F, 11.F);
                const CartesianCoordinate3D<float> vs(3.F, 2.F + geom, 1.5F);
                VoxelsOnCartesianGrid<float> image(exam, range, origin, vs);
                float x = small ? 1.e-6F : 1.F;
                for (auto it = image.begin_all(); it != image.end_all(); ++it) { *it = x; x *= 1.07F; }
                const float maxv = x;
                std::string filename = dir + "/c10_hdr_" + std::to_string(n++);
                InterfileOutputFileFormat format(t, ByteOrder::native);
                if (format.write_to_file(filename, image) != Succeeded::yes) { std::printf("write failed\n"); return 3; }
                unique_ptr<DiscretisedDensity<3, float>> back(read_from_file<DiscretisedDensity<3, float>>(filename));
                const VoxelsOnCartesianGrid<float>* vb = dynamic_cast<const VoxelsOnCartesianGrid<float>*>(back.get());
                if (!vb) { std::printf("read back something else\n"); return 3; }
                // geometry: voxel sizes, and the physical position of the first and the last voxel
                const CartesianCoordinate3D<float> vs2 = vb->get_voxel_size();
                if (std::fabs(vs2.x() - vs.x()) > 1e-4F || std::fabs(vs2.y() - vs.y()) > 1e-4F || std::fabs(vs2.z() - vs.z()) > 1e-4F)
                  { std::printf("CONFIRMED voxel size (z,y,x) = (%g,%g,%g) read back as (%g,%g,%g)\n", vs.z(), vs.y(), vs.x(), vs2.z(), vs2.y(), vs2.x()); return 1; }
                BasicCoordinate<3, int> mn, mn2, mx, mx2;
                if (!image.get_regular_range(mn, mx) || !back->get_regular_range(mn2, mx2)) { std::printf("irregular range\n"); return 3; }
                const CartesianCoordinate3D<float> p1 = image.get_physical_coordinates_for_indices(mn), q1 = back->get_physical_coordinates_for_indices(mn2);
                const CartesianCoordinate3D<float> p2 = image.get_physical_coordinates_for_indices(mx), q2 = back->get_physical_coordinates_for_indices(mx2);
                if (norm(p1 - q1) > 1e-3F || norm(p2 - q2) > 1e-3F)
                  { std::printf("CONFIRMED first voxel at (%g,%g,%g) mm read back at (%g,%g,%g) mm; last voxel (%g,%g,%g) -> (%g,%g,%g)\n", p1.z(), p1.y(), p1.x(), q1.z(), q1.y(), q1.x(), p2.z(), p2.y(), p2.x(), q2.z(), q2.y(), q2.x()); return 1; }
                // values: within one quantisation step of the type plus the 6 significant digits of the scale factor in the header
                const float step = maxv / (t.id == NumericType::SHORT ? 32767.F : 2147483647.F);
                auto ib = back->begin_all();
                for (auto it = image.begin_all(); it != image.end_all(); ++it, ++ib)
                  if (std::fabs(*ib - *it) > step + 2e-5F * std::fabs(*it))
                    {
                      std::printf("CONFIRMED image (max %g%s) written as %s: value %g read back as %g (quantisation step %g)\n", maxv, calib ? ", calibration factor set" : "",
                                  t.id == NumericType::SHORT ? "short" : "int", *it, *ib, step);
                      return 1;
                    }
              }
    }
  catch (...)
    {
      std::printf("exception\n");
      return 3;
    }
  std::printf("REPLAY ok\n");
  return 0;
}
