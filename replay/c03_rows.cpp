// Native replay for C03 (row values): a system-matrix row derived from a symmetry-related row equals the row computed
// without symmetries - same voxels, values equal up to rounding - for 1..4 tangential rays per bin and several symmetry sets.
// usage: c03_rows_replay      exit 0 "REPLAY ok"; exit 1 + CONFIRMED line otherwise
#include "stir/recon_buildblock/ProjMatrixByBinUsingRayTracing.h"
#include "stir/recon_buildblock/ProjMatrixElemsForOneBin.h"
#include "stir/ProjDataInfo.h"
#include "stir/Scanner.h"
#include "stir/VoxelsOnCartesianGrid.h"
#include "stir/Bin.h"
#include "stir/Verbosity.h"
#include <algorithm>
#include <cmath>
#include <cstdio>
using namespace stir;
struct Sw { const char* name; bool s90, s180, seg, s, z; };
static shared_ptr<ProjMatrixByBinUsingRayTracing> mk(const Sw& w, int rays, bool cache, const shared_ptr<const ProjDataInfo>& pdi, const shared_ptr<const DiscretisedDensity<3, float>>& img)
{
  shared_ptr<ProjMatrixByBinUsingRayTracing> pm(new ProjMatrixByBinUsingRayTracing);
  pm->set_restrict_to_cylindrical_FOV(true);
  pm->set_use_actual_detector_boundaries(false);
  pm->set_num_tangential_LORs(rays);
  pm->set_do_symmetry_90degrees_min_phi(w.s90);
  pm->set_do_symmetry_180degrees_min_phi(w.s180);
  pm->set_do_symmetry_swap_segment(w.seg);
  pm->set_do_symmetry_swap_s(w.s);
  pm->set_do_symmetry_shift_z(w.z);
  pm->enable_cache(cache);
  pm->set_up(pdi, img);
  return pm;
}
int main()
{
  try
    {
      Verbosity::set(0);
      shared_ptr<Scanner> scanner(new Scanner(Scanner::E931)); // no intrinsic tilt: the view symmetries stay enabled
      shared_ptr<ProjDataInfo> pdi(ProjDataInfo::ProjDataInfoCTI(scanner, 1, 2, scanner->get_num_detectors_per_ring() / 2, 16));
      shared_ptr<DiscretisedDensity<3, float>> img(new VoxelsOnCartesianGrid<float>(*pdi, 1.F, CartesianCoordinate3D<float>(0, 0, 0)));
      const Sw none = { "none", false, false, false, false, false };
      const Sw cfg[] = { { "all", true, true, true, true, true }, { "swap_s", false, false, false, true, false }, { "180 degrees", false, true, false, false, false },
                         { "swap_segment", false, false, true, false, false }, { "shift_z", false, false, false, false, true } };
      for (int rays = 1; rays <= 4; ++rays)
        {
          auto direct = mk(none, rays, false, pdi, img);
          for (auto& w : cfg)
            {
              auto derived = mk(w, rays, true, pdi, img);
              for (int seg = pdi->get_min_segment_num(); seg <= pdi->get_max_segment_num(); ++seg)
                for (int view = 0; view < pdi->get_num_views(); view += 7)
                  for (int ax = pdi->get_min_axial_pos_num(seg); ax <= pdi->get_max_axial_pos_num(seg); ax += 3)
                    for (int tang = pdi->get_min_tangential_pos_num(); tang <= pdi->get_max_tangential_pos_num(); ++tang)
                      {
                        const Bin bin(seg, view, ax, tang);
                        ProjMatrixElemsForOneBin a, b;
                        direct->get_proj_matrix_elems_for_one_bin(a, bin);
                        derived->get_proj_matrix_elems_for_one_bin(b, bin);
                        a.sort(); b.sort();
                        // compare as maps voxel -> value: a voxel missing from one row counts as value 0 there; tolerance relative to the
                        // largest element of the row (a ray through a voxel edge may give a tiny element in one computation only)
                        float mx = 0;
                        for (auto it = a.begin(); it != a.end(); ++it) mx = std::max(mx, it->get_value());
                        bool same = true;
                        float worst = 0;
                        auto ia = a.begin(); auto ib = b.begin();
                        while (ia != a.end() || ib != b.end())
                          {
                            float d;
                            if (ib == b.end() || (ia != a.end() && ia->get_coords() < ib->get_coords())) { d = ia->get_value(); ++ia; }
                            else if (ia == a.end() || ib->get_coords() < ia->get_coords()) { d = ib->get_value(); ++ib; }
                            else { d = std::fabs(ia->get_value() - ib->get_value()); ++ia; ++ib; }
                            worst = std::max(worst, d);
                          }
                        same = worst <= 2e-3F * mx + 1e-6F;
                        for (auto it = b.begin(); it != b.end(); ++it)
                          if (it->get_value() < 0)
                            { std::printf("CONFIRMED %d rays, symmetries [%s], bin (seg %d, view %d, ax %d, tang %d): negative element in the row\n", rays, w.name, seg, view, ax, tang); return 1; }
                        if (!same)
                          {
                            std::printf("CONFIRMED %d tangential rays, symmetries [%s], bin (seg %d, view %d, ax %d, tang %d): row derived from the symmetry-related row (%d elements) differs from the directly computed row (%d elements): largest element difference %g, largest element %g\n",
                                        rays, w.name, seg, view, ax, tang, (int)b.size(), (int)a.size(), worst, mx);
                            return 1;
                          }
                      }
            }
        }
    }
  catch (...)
    {
      std::printf("exception\n");
      return 3;
    }
  std::printf("REPLAY ok\n");
  return 0;
}
