// Native replay for C03 (row values): a system-matrix row derived from a symmetry-related row equals the row computed
// without symmetries - same voxels, values equal up to rounding - for 1..4 tangential rays per bin and several symmetry sets.
// usage: c03_rows_replay [setup]   (setup: histories of set_up calls for different images: rows must equal those of a freshly set-up matrix)
//        exit 0 "REPLAY ok"; exit 1 + CONFIRMED line otherwise
#include "stir/recon_buildblock/ProjMatrixByBinUsingRayTracing.h"
#include "stir/recon_buildblock/ProjMatrixElemsForOneBin.h"
#include "stir/ProjDataInfo.h"
#include "stir/Scanner.h"
#include "stir/VoxelsOnCartesianGrid.h"
#include "stir/Bin.h"
#include "stir/Verbosity.h"
#include <algorithm>
#include <cmath>
#include <cstdio>
using namespace stir;
struct Sw { const char* name; bool s90, s180, seg, s, z; };
static shared_ptr<ProjMatrixByBinUsingRayTracing> mk(const Sw& w, int rays, bool cache, const shared_ptr<const ProjDataInfo>& pdi, const shared_ptr<const DiscretisedDensity<3, float>>& img)
{
  shared_ptr<ProjMatrixByBinUsingRayTracing> pm(new ProjMatrixByBinUsingRayTracing);
  pm->set_restrict_to_cylindrical_FOV(true);
  pm->set_use_actual_detector_boundaries(false);
  pm->set_num_tangential_LORs(rays);
  pm->set_do_symmetry_90degrees_min_phi(w.s90);
  pm->set_do_symmetry_180degrees_min_phi(w.s180);
  pm->set_do_symmetry_swap_segment(w.seg);
  pm->set_do_symmetry_swap_s(w.s);
  pm->set_do_symmetry_shift_z(w.z);
  pm->enable_cache(cache);
  pm->set_up(pdi, img);
  return pm;
}

// histories: set_up(A) -> rows requested -> [a symmetry switch changed] -> set_up(B): rows for B must be those of a fresh matrix set up for B
static bool rows_as_fresh(ProjMatrixByBinUsingRayTracing& pm, const Sw& w, const shared_ptr<const ProjDataInfo>& pdi, const shared_ptr<const DiscretisedDensity<3, float>>& B, const char* history)
{
  auto fresh = mk(w, 1, false, pdi, B);
  CartesianCoordinate3D<int> lo, hi;
  dynamic_cast<const VoxelsOnCartesianGrid<float>&>(*B).get_regular_range(lo, hi);
  for (int seg = pdi->get_min_segment_num(); seg <= pdi->get_max_segment_num(); ++seg)
    for (int view = 0; view < pdi->get_num_views(); view += 5)
      for (int tang = pdi->get_min_tangential_pos_num(); tang <= pdi->get_max_tangential_pos_num(); ++tang)
        {
          const Bin bin(seg, view, pdi->get_min_axial_pos_num(seg) + 1, tang);
          ProjMatrixElemsForOneBin a, b;
          fresh->get_proj_matrix_elems_for_one_bin(a, bin);
          pm.get_proj_matrix_elems_for_one_bin(b, bin);
          for (auto it = b.begin(); it != b.end(); ++it)
            if (it->coord1() < lo[1] || it->coord1() > hi[1] || it->coord2() < lo[2] || it->coord2() > hi[2] || it->coord3() < lo[3] || it->coord3() > hi[3])
              {
                std::printf("CONFIRMED %s: row of bin (seg %d, view %d, tang %d) refers to voxel (%d,%d,%d) outside the image the matrix was last set up for\n", history, seg, view, tang,
                            it->coord1(), it->coord2(), it->coord3());
                return false;
              }
          a.sort(); b.sort();
          if (a.size() != b.size())
            {
              std::printf("CONFIRMED %s: row of bin (seg %d, view %d, tang %d) has %d elements, a freshly set-up matrix gives %d\n", history, seg, view, tang, (int)b.size(), (int)a.size());
              return false;
            }
        }
  return true;
}
static int setup_histories()
{
  Verbosity::set(0);
  shared_ptr<Scanner> scanner(new Scanner(Scanner::E931));
  shared_ptr<ProjDataInfo> pdi(ProjDataInfo::ProjDataInfoCTI(scanner, 1, 1, scanner->get_num_detectors_per_ring() / 2, 32));
  shared_ptr<DiscretisedDensity<3, float>> A(new VoxelsOnCartesianGrid<float>(*pdi, 1.F, CartesianCoordinate3D<float>(0, 0, 0), CartesianCoordinate3D<int>(-1, 41, 41)));
  shared_ptr<DiscretisedDensity<3, float>> Bsmall(new VoxelsOnCartesianGrid<float>(*pdi, 1.F, CartesianCoordinate3D<float>(0, 0, 0), CartesianCoordinate3D<int>(-1, 15, 15)));
  shared_ptr<DiscretisedDensity<3, float>> Bzoom(new VoxelsOnCartesianGrid<float>(*pdi, 0.5F, CartesianCoordinate3D<float>(0, 0, 0), CartesianCoordinate3D<int>(-1, 21, 21)));
  const Sw all = { "all", true, true, true, true, true };
  for (int cache = 0; cache < 2; ++cache)
    {
      {
        auto pm = mk(all, 1, cache, pdi, A);
        ProjMatrixElemsForOneBin r;
        for (int t = -10; t <= 10; ++t) pm->get_proj_matrix_elems_for_one_bin(r, Bin(0, 3, 2, t));
        pm->set_up(pdi, Bsmall);
        if (!rows_as_fresh(*pm, all, pdi, Bsmall, cache ? "set_up(41x41 image), rows requested, set_up(15x15 image, same voxel size), cache on" : "set_up(41x41 image), set_up(15x15 image, same voxel size), cache off")) return 1;
      }
      {
        auto pm = mk(all, 1, cache, pdi, A);
        ProjMatrixElemsForOneBin r;
        for (int seg = -1; seg <= 1; ++seg) for (int v = 0; v < pdi->get_num_views(); v += 5) for (int t = -16; t <= 15; ++t) pm->get_proj_matrix_elems_for_one_bin(r, Bin(seg, v, 2, t));
        pm->set_do_symmetry_swap_s(false);
        pm->set_up(pdi, Bzoom);
        Sw w = all; w.s = false;
        if (!rows_as_fresh(*pm, w, pdi, Bzoom, cache ? "set_up(A), rows requested, set_do_symmetry_swap_s(false), set_up(image with another voxel size), cache on" : "set_up(A), switch changed, set_up(other voxel size), cache off")) return 1;
      }
    }
  return 0;
}
int main(int argc, char** argv)
{
  if (argc > 1) { try { const int rc = setup_histories(); if (!rc) std::printf("REPLAY ok\n"); return rc; } catch (...) { std::printf("exception\n"); return 3; } }
  try
    {
      Verbosity::set(0);
      shared_ptr<Scanner> scanner(new Scanner(Scanner::E931)); // no intrinsic tilt: the view symmetries stay enabled
      shared_ptr<ProjDataInfo> pdi(ProjDataInfo::ProjDataInfoCTI(scanner, 1, 2, scanner->get_num_detectors_per_ring() / 2, 16));
      shared_ptr<DiscretisedDensity<3, float>> img(new VoxelsOnCartesianGrid<float>(*pdi, 1.F, CartesianCoordinate3D<float>(0, 0, 0)));
      const Sw none = { "none", false, false, false, false, false };
      const Sw cfg[] = { { "all", true, true, true, true, true }, { "swap_s", false, false, false, true, false }, { "180 degrees", false, true, false, false, false },
                         { "swap_segment", false, false, true, false, false }, { "shift_z", false, false, false, false, true } };
      for (int rays = 1; rays <= 4; ++rays)
        {
          auto direct = mk(none, rays, false, pdi, img);
          for (auto& w : cfg)
            {
              auto derived = mk(w, rays, true, pdi, img);
              for (int seg = pdi->get_min_segment_num(); seg <= pdi->get_max_segment_num(); ++seg)
                for (int view = 0; view < pdi->get_num_views(); view += 7)
                  for (int ax = pdi->get_min_axial_pos_num(seg); ax <= pdi->get_max_axial_pos_num(seg); ax += 3)
                    for (int tang = pdi->get_min_tangential_pos_num(); tang <= pdi->get_max_tangential_pos_num(); ++tang)
                      {
                        const Bin bin(seg, view, ax, tang);
                        ProjMatrixElemsForOneBin a, b;
                        direct->get_proj_matrix_elems_for_one_bin(a, bin);
                        derived->get_proj_matrix_elems_for_one_bin(b, bin);
                        a.sort(); b.sort();
                        // compare as maps voxel -> value: a voxel missing from one row counts as value 0 there; tolerance relative to the
                        // largest element of the row (a ray through a voxel edge may give a tiny element in one computation only)
                        float mx = 0;
                        for (auto it = a.begin(); it != a.end(); ++it) mx = std::max(mx, it->get_value());
                        bool same = true;
                        float worst = 0;
                        auto ia = a.begin(); auto ib = b.begin();
                        while (ia != a.end() || ib != b.end())
                          {
                            float d;
                            if (ib == b.end() || (ia != a.end() && ia->get_coords() < ib->get_coords())) { d = ia->get_value(); ++ia; }
                            else if (ia == a.end() || ib->get_coords() < ia->get_coords()) { d = ib->get_value(); ++ib; }
                            else { d = std::fabs(ia->get_value() - ib->get_value()); ++ia; ++ib; }
                            worst = std::max(worst, d);
                          }
                        same = worst <= 2e-3F * mx + 1e-6F;
                        for (auto it = b.begin(); it != b.end(); ++it)
                          if (it->get_value() < 0)
                            { std::printf("CONFIRMED %d rays, symmetries [%s], bin (seg %d, view %d, ax %d, tang %d): negative element in the row\n", rays, w.name, seg, view, ax, tang); return 1; }
                        if (!same)
                          {
                            std::printf("CONFIRMED %d tangential rays, symmetries [%s], bin (seg %d, view %d, ax %d, tang %d): row derived from the symmetry-related row (%d elements) differs from the directly computed row (%d elements): largest element difference %g, largest element %g\n",
                                        rays, w.name, seg, view, ax, tang, (int)b.size(), (int)a.size(), worst, mx);
                            return 1;
                          }
                      }
            }
        }
    }
  catch (...)
    {
      std::printf("exception\n");
      return 3;
    }
  std::printf("REPLAY ok\n");
  return 0;
}
