// Native replay for C09 against the REAL STIR libraries of /repo's working tree (ASan):
// for Quadratic / RelativeDifference / Logcosh priors, on small images incl. 'only 2D' and non-cubic weights:
//   (1) compute_gradient equals the central finite difference of compute_value,
//   (2) accumulate_Hessian_times_input(out, x, d) equals the central finite difference of compute_gradient along d,
// both of which fail when one of the functions visits a different neighbourhood at the image border (or reads weights /
// voxels out of range: ASan).  exit 0: consistent; exit 1 + CONFIRMED line otherwise.
#include "stir/VoxelsOnCartesianGrid.h"
#include "stir/recon_buildblock/QuadraticPrior.h"
#include "stir/recon_buildblock/RelativeDifferencePrior.h"
#include "stir/recon_buildblock/LogcoshPrior.h"
#include "stir/IndexRange3D.h"
#include "stir/Verbosity.h"
#include "stir/Succeeded.h"
#include "stir/ExamInfo.h"
#include <cmath>
#include <cstdio>
#include <string>
using namespace stir;
typedef DiscretisedDensity<3, float> target_type;

static shared_ptr<target_type> make_image(const IndexRange3D& range, unsigned seed)
{
  shared_ptr<ExamInfo> exam(new ExamInfo);
  exam->imaging_modality = ImagingModality::PT;
  shared_ptr<target_type> im(new VoxelsOnCartesianGrid<float>(exam, range, CartesianCoordinate3D<float>(0, 0, 0), CartesianCoordinate3D<float>(2.F, 3.F, 4.F)));
  unsigned s = seed * 2654435761u + 12345u;
  for (target_type::full_iterator it = im->begin_all(); it != im->end_all(); ++it)
    { s = s * 1664525u + 1013904223u; *it = 1.F + ((s >> 16) % 64) / 8.F; }
  return im;
}
template <class Prior>
static int check(const char* name, Prior& prior, const shared_ptr<target_type>& image_sptr, double tol_rel, float h)
{
  if (prior.set_up(image_sptr) != Succeeded::yes) { std::printf("%s: set_up failed\n", name); return 3; }
  target_type& image = *image_sptr;
  shared_ptr<target_type> grad(image.get_empty_copy()), gp(image.get_empty_copy()), gm(image.get_empty_copy()), Hd(image.get_empty_copy()), dir(image.get_empty_copy());
  prior.compute_gradient(*grad, image);
  double scale = 1e-6;
  for (target_type::full_iterator it = grad->begin_all(); it != grad->end_all(); ++it) scale = std::max(scale, (double)std::fabs(*it));
  for (int z = image.get_min_index(); z <= image.get_max_index(); ++z)
    for (int y = image[z].get_min_index(); y <= image[z].get_max_index(); ++y)
      for (int x = image[z][y].get_min_index(); x <= image[z][y].get_max_index(); ++x)
        {
          const float org = image[z][y][x];
          image[z][y][x] = org + h; const double vp = prior.compute_value(image);
          image[z][y][x] = org - h; const double vm = prior.compute_value(image);
          image[z][y][x] = org;
          const double fd = (vp - vm) / (2 * h), g = (*grad)[z][y][x];
          if (std::fabs(fd - g) > tol_rel * scale)
            { std::printf("CONFIRMED %s: gradient is not the derivative of the value at voxel (z %d, y %d, x %d): finite difference %g, compute_gradient %g\n", name, z, y, x, fd, g); return 1; }
          // Hessian times unit vector at this voxel against the finite difference of the gradient
          dir->fill(0.F); (*dir)[z][y][x] = 1.F; Hd->fill(0.F);
          prior.accumulate_Hessian_times_input(*Hd, image, *dir);
          image[z][y][x] = org + h; prior.compute_gradient(*gp, image);
          image[z][y][x] = org - h; prior.compute_gradient(*gm, image);
          image[z][y][x] = org;
          // the single-row API: compute_Hessian gives the row of this voxel = (symmetric Hessian) the Hessian times its unit vector
          {
            shared_ptr<target_type> row(image.get_empty_copy());
            row->fill(0.F);
            prior.compute_Hessian(*row, make_coordinate(z, y, x), image);
            target_type::full_iterator irow = row->begin_all(), ih2 = Hd->begin_all();
            for (; ih2 != Hd->end_all(); ++ih2, ++irow)
              if (std::fabs((double)*irow - (double)*ih2) > tol_rel * scale)
                { std::printf("CONFIRMED %s: compute_Hessian row of voxel (z %d, y %d, x %d) differs from the Hessian times its unit vector: %g vs %g\n", name, z, y, x, (double)*irow, (double)*ih2); return 1; }
          }
          target_type::full_iterator ip = gp->begin_all(), im_ = gm->begin_all(), ih = Hd->begin_all();
          for (; ih != Hd->end_all(); ++ih, ++ip, ++im_)
            {
              const double fdg = ((double)*ip - (double)*im_) / (2 * h);
              if (std::fabs(fdg - *ih) > tol_rel * scale)
                { std::printf("CONFIRMED %s: Hessian times the unit vector at voxel (z %d, y %d, x %d) differs from the finite difference of the gradient: %g vs %g\n", name, z, y, x, (double)*ih, fdg); return 1; }
            }
        }
  return 0;
}
template <class Prior>
static int configs(const char* cls, Prior (*mk)(bool), double tol, float h)
{
  struct { const char* what; bool only2d; IndexRange3D range; int wz, wy, wx; } cfg[] = {
    { "3D default weights 4x5x6", false, IndexRange3D(0, 3, -2, 2, -3, 2), 0, 0, 0 },
    { "only 2D 3x4x5", true, IndexRange3D(0, 2, -2, 1, -2, 2), 0, 0, 0 },
    { "only 2D 1x3x3", true, IndexRange3D(0, 0, 0, 2, 0, 2), 0, 0, 0 },
    { "user weights 3x5x5 on 3x6x6", false, IndexRange3D(0, 2, -3, 2, -3, 2), 1, 2, 2 },
    { "user weights 1x5x3 on 2x4x4", false, IndexRange3D(0, 1, 0, 3, 0, 3), 0, 2, 1 },
    { "user weights 3x3x5 (x wider than y) on 3x5x6", false, IndexRange3D(0, 2, -2, 2, -3, 2), 1, 1, 2 },
    { "user weights 1x1x3 on 2x3x5", false, IndexRange3D(0, 1, 0, 2, -2, 2), 0, 0, 1 },
    { "user weights 5x3x1 (z wider than y wider than x) on 5x4x3", false, IndexRange3D(-2, 2, 0, 3, 0, 2), 2, 1, 0 },
  };
  int n = 0;
  for (auto& c : cfg)
    {
      Prior prior = mk(c.only2d);
      if (c.wz || c.wy || c.wx)
        {
          const int wx = c.wx;
          Array<3, float> w(IndexRange3D(-c.wz, c.wz, -c.wy, c.wy, -wx, wx));
          for (int dz = -c.wz; dz <= c.wz; ++dz) for (int dy = -c.wy; dy <= c.wy; ++dy) for (int dx = -wx; dx <= wx; ++dx)
            w[dz][dy][dx] = (dz == 0 && dy == 0 && dx == 0) ? 0.F : 1.F / (1 + dz * dz + dy * dy + dx * dx);
          prior.set_weights(w);
        }
      for (int with_kappa = 0; with_kappa < 2; ++with_kappa)
        {
          shared_ptr<target_type> image = make_image(c.range, ++n);
          if (with_kappa)
            {
              // a kappa image that varies along every axis
              shared_ptr<target_type> kappa(image->get_empty_copy());
              for (int z = kappa->get_min_index(); z <= kappa->get_max_index(); ++z)
                for (int y = (*kappa)[z].get_min_index(); y <= (*kappa)[z].get_max_index(); ++y)
                  for (int x = (*kappa)[z][y].get_min_index(); x <= (*kappa)[z][y].get_max_index(); ++x)
                    (*kappa)[z][y][x] = 1.F + 0.25F * (x - (*kappa)[z][y].get_min_index()) + 0.125F * (y - (*kappa)[z].get_min_index()) + 0.0625F * (z - kappa->get_min_index());
              prior.set_kappa_sptr(kappa);
            }
          const std::string name = std::string(cls) + " [" + c.what + (with_kappa ? ", kappa varying along x, y, z]" : "]");
          const int rc = check(name.c_str(), prior, image, tol, h);
          if (rc) return rc;
        }
    }
  return 0;
}
static QuadraticPrior<float> mkq(bool o) { return QuadraticPrior<float>(o, 1.5F); }
static RelativeDifferencePrior<float> mkr(bool o) { return RelativeDifferencePrior<float>(o, 1.5F, 2.F, 0.1F); }
static LogcoshPrior<float> mkl(bool o) { return LogcoshPrior<float>(o, 1.5F, 0.5F); }
int main()
{
  Verbosity::set(0);
  try
    {
      int rc = configs<QuadraticPrior<float>>("QuadraticPrior", mkq, 2e-3, 0.25F);
      if (!rc) rc = configs<RelativeDifferencePrior<float>>("RelativeDifferencePrior", mkr, 2e-2, 0.02F);
      if (!rc) rc = configs<LogcoshPrior<float>>("LogcoshPrior", mkl, 2e-2, 0.02F);
      if (rc) return rc;
    }
  catch (...) { std::printf("exception\n"); return 3; }
  std::printf("REPLAY ok\n");
  return 0;
}
