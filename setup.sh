#!/bin/bash
# Offline setup: nothing is built persistently; verify the tools the checks need are present.
set -e
cd "$(dirname "$0")"
for t in cbmc goto-cc goto-instrument python3 g++; do command -v $t >/dev/null || { echo "missing tool: $t"; exit 1; }; done
cbmc --version | head -1
python3 -c "import sys; sys.path.insert(0,'.'); from vlib import extract, runner, driver; print('framework imports ok')"
true
echo setup ok
