/* Contracts for C11: stir::VectorWithOffset<T> (VectorWithOffset.inl), Array<1,T>::resize (Array.inl).
   Keyed by kernel name (CONTRACT_<kernel>) and loop ordinal (LC_<kernel>_<n>).
   T is the job parameter T_ELEM. */
#ifndef C11_CONTRACTS_H
#define C11_CONTRACTS_H
#include "contracts/prelude.h"
#include <stdlib.h>

#ifndef T_ELEM
#define T_ELEM unsigned
#endif
typedef T_ELEM T;

/* the member list of VectorWithOffset<T> (VectorWithOffset.h, checked against the header on every run by
   props/c11.py: a changed member list is exit 2). shared_ptr<T[]> allocated_memory_sptr is modelled as an owning
   raw pointer (TRUSTED: sole ownership; reset == free). */
struct VWO
{
  T* num;
  unsigned length;
  int start;
  T* begin_allocated_memory;
  T* end_allocated_memory;
  T* allocated_memory_sptr;
  _Bool pointer_access;
};

int g_error; /* ghost: error()/throw happened */
int g_i;     /* ghost index: stands for "every index" (chosen nondeterministically by the harness) */
int g_j;     /* second ghost index */
const void* g_p_; /* (see g_p) */
#define g_p ((const T*)g_p_)
long g_cap0, g_off0; /* ghosts: capacity and offset of the pre-state, set by the harness and tied by requires */

#define K_THROW(val)                                                                                                  \
  do                                                                                                                  \
    {                                                                                                                 \
      g_error = 1;                                                                                                    \
      return val;                                                                                                     \
    }                                                                                                                 \
  while (0)

#ifndef VWO_MAXLEN
#define VWO_MAXLEN 65536
#endif
#define VWO_MAXIDX 1000000

/* capacity in elements */
#define VWO_CAP(v) (((long)__CPROVER_POINTER_OFFSET((v)->end_allocated_memory)) / (long)sizeof(T))
/* offset (in elements) of element `start` inside the allocation */
/* CBMC keeps pointer offsets in 56 bits (default --object-bits 8); an offset computed through the out-of-block base
   pointer `num` carries into bit 56, so the offset of the in-block pointer num+start is taken modulo 2^56 */
#define VWO_POFF(p) ((long)__CPROVER_POINTER_OFFSET(p) & 0x00FFFFFFFFFFFFFFL)
#define VWO_OFF(v) (VWO_POFF((v)->num + (v)->start) / (long)sizeof(T))
/* element i of the abstract view, addressed through the in-block pointer (CBMC's history variables do not follow the
   out-of-block base pointer `num` reliably, probe P13); the kernel bodies themselves keep using num[i] */
#define VWO_ELEM(v, i) ((v)->begin_allocated_memory[VWO_OFF(v) + ((long)(i) - (long)(v)->start)])
#define VWO_AT(v, i) VWO_ELEM(v, i)
#define VWO_MIN(v) ((long)(v)->start)
#define VWO_MAX(v) ((long)(v)->start + (long)(v)->length - 1)
#define VWO_IN_RANGE(v, i) ((v)->length > 0 && (long)(i) >= VWO_MIN(v) && (long)(i) <= VWO_MAX(v))

/* The representation invariant (stronger than check_state(): also the empty-vector normal form the code relies on
   in get_capacity_min_index()). Pure relation over assigned pointers: usable in requires and ensures. */
#define VWO_VALID(v)                                                                                                  \
  ((v)->start > -VWO_MAXIDX && (v)->start < VWO_MAXIDX && (v)->length <= VWO_MAXLEN && (long)(v)->start + (long)(v)->length <= VWO_MAXIDX                                   \
   && ((v)->begin_allocated_memory == NULL                                                                            \
           ? ((v)->end_allocated_memory == NULL && (v)->num == NULL && (v)->length == 0 && (v)->start == 0             \
              && (v)->allocated_memory_sptr == NULL)                                                                  \
           : (__CPROVER_same_object((v)->begin_allocated_memory, (v)->end_allocated_memory)                           \
              && __CPROVER_same_object((v)->begin_allocated_memory, (v)->num)                                        \
              && __CPROVER_POINTER_OFFSET((v)->begin_allocated_memory) == 0                                          \
              && VWO_POFF((v)->num + (v)->start) % (long)sizeof(T) == 0                                           \
              && (long)__CPROVER_POINTER_OFFSET((v)->end_allocated_memory) % (long)sizeof(T) == 0                          \
              && VWO_CAP(v) >= 0 && VWO_CAP(v) <= VWO_MAXLEN                                                          \
              && __CPROVER_OBJECT_SIZE((v)->begin_allocated_memory) == (size_t)VWO_CAP(v) * sizeof(T)                 \
              && VWO_OFF(v) >= 0 && VWO_OFF(v) + (long)(v)->length <= VWO_CAP(v)                                       \
              && ((v)->length > 0 || ((v)->start == 0 && (v)->num == (v)->begin_allocated_memory))                    \
              && ((v)->allocated_memory_sptr == NULL || (v)->allocated_memory_sptr == (v)->begin_allocated_memory))))

/* ---- models of the std:: algorithms the kernels call (TRUSTED to describe libstdc++; each is itself verified
        against the contract below, so callers only see the contract) ---- */
/* ghost g_p: a pointer to "any" source element (chosen by the harness); the copy contract speaks about that element,
   so callers need no knowledge of the offsets used inside the caller */
#define PTR_IN(p, first, last)                                                                                        \
  (__CPROVER_same_object(p, first) && VWO_POFF(p) >= VWO_POFF(first) && VWO_POFF(p) < VWO_POFF(last))
T* K_std_copy(const T* first, const T* last, T* out, const T* gp)
__CPROVER_requires(first == last || (__CPROVER_same_object(first, last) && VWO_POFF(last) >= VWO_POFF(first)
                   && (VWO_POFF(last) - VWO_POFF(first)) / (long)sizeof(T) <= VWO_MAXLEN
                   && __CPROVER_r_ok(first, VWO_POFF(last) - VWO_POFF(first)) && __CPROVER_w_ok(out, VWO_POFF(last) - VWO_POFF(first))
                   && !__CPROVER_same_object(first, out)))
__CPROVER_assigns(first != last : __CPROVER_object_upto(out, VWO_POFF(last) - VWO_POFF(first)))
/* gp: ghost parameter supplied by the caller, a pointer to "any" source element: that element arrives at the same
   distance from out as it has from first */
__CPROVER_ensures((first != last && PTR_IN(gp, first, last)) ==> out[(VWO_POFF(gp) - VWO_POFF(first)) / (long)sizeof(T)] == *gp)
__CPROVER_ensures(first == last ? __CPROVER_return_value == out : __CPROVER_return_value == out + (VWO_POFF(last) - VWO_POFF(first)) / (long)sizeof(T))
{
  long n = first == last ? 0 : (VWO_POFF(last) - VWO_POFF(first)) / (long)sizeof(T);
  for (long k = 0; k < n; ++k)
    __CPROVER_assigns(k, __CPROVER_object_upto(out, n * sizeof(T)))
    __CPROVER_loop_invariant(0 <= k && k <= n)
    __CPROVER_loop_invariant((PTR_IN(gp, first, last) && (VWO_POFF(gp) - VWO_POFF(first)) / (long)sizeof(T) < k) ==> out[(VWO_POFF(gp) - VWO_POFF(first)) / (long)sizeof(T)] == *gp)
    __CPROVER_decreases(n - k)
    out[k] = first[k];
  return out + n;
}

void K_std_fill(T* first, T* last, T value)
__CPROVER_requires(first == last || (__CPROVER_same_object(first, last) && last - first >= 0 && last - first <= VWO_MAXLEN
                   && __CPROVER_w_ok(first, (last - first) * sizeof(T))))
__CPROVER_assigns(first != last : __CPROVER_object_upto(first, (last - first) * sizeof(T)))
__CPROVER_ensures((first != last && g_j >= 0 && g_j < last - first) ==> first[g_j] == value)
{
  long n = first == last ? 0 : last - first;
  for (long k = 0; k < n; ++k)
    __CPROVER_assigns(k, __CPROVER_object_upto(first, n * sizeof(T)))
    __CPROVER_loop_invariant(0 <= k && k <= n && ((0 <= g_j && g_j < k) ==> first[g_j] == value))
    __CPROVER_decreases(n - k)
    first[k] = value;
}

_Bool K_std_equal(const T* first, const T* last, const T* other)
__CPROVER_requires(first == last || (__CPROVER_same_object(first, last) && last - first >= 0 && last - first <= VWO_MAXLEN
                   && __CPROVER_r_ok(first, (last - first) * sizeof(T)) && __CPROVER_r_ok(other, (last - first) * sizeof(T))))
__CPROVER_assigns()
__CPROVER_ensures(first == last ==> __CPROVER_return_value)
/* true => every (ghost) element equal; false => some element differs (witness not exposed: stated as
   "not all equal" through the ghost only in the true direction; the false direction is proved in the body by the
   explicit mismatch return) */
__CPROVER_ensures((first != last && __CPROVER_return_value && g_j >= 0 && g_j < last - first) ==> first[g_j] == other[g_j])
{
  long n = first == last ? 0 : last - first;
  for (long k = 0; k < n; ++k)
    __CPROVER_assigns(k)
    __CPROVER_loop_invariant(0 <= k && k <= n && ((0 <= g_j && g_j < k) ==> first[g_j] == other[g_j]))
    __CPROVER_decreases(n - k)
    {
      if (!(first[k] == other[k]))
        return 0;
    }
  return 1;
}

/* new T[n]: fresh block, indeterminate contents (T is int/unsigned/float: no default initialisation) */
static inline T* K_new_T(unsigned n) { return (T*)malloc((size_t)n * sizeof(T)); }
/* shared_ptr<T[]>::operator=(nullptr) / reset: releases the block if this object owns one (sole owner: TRUSTED) */
static inline void K_sptr_reset(T** p)
{
  if (*p)
    free(*p);
  *p = NULL;
}

/* ================= contracts, one per kernel ================= */

#define FRAME_ELEMS(v) __CPROVER_object_upto((v)->num + (v)->start, (size_t)(v)->length * sizeof(T))

#define CONTRACT_K_vwo_get_min_index __CPROVER_requires(VWO_VALID(self)) __CPROVER_assigns() __CPROVER_ensures(__CPROVER_return_value == self->start)
#define CONTRACT_K_vwo_get_max_index                                                                                 \
  __CPROVER_requires(VWO_VALID(self)) __CPROVER_assigns()                                                              \
  __CPROVER_ensures((long)__CPROVER_return_value == VWO_MAX(self))
#define CONTRACT_K_vwo_get_length __CPROVER_requires(VWO_VALID(self)) __CPROVER_assigns() __CPROVER_ensures(__CPROVER_return_value == (int)self->length)
#define CONTRACT_K_vwo_size __CPROVER_requires(VWO_VALID(self)) __CPROVER_assigns() __CPROVER_ensures(__CPROVER_return_value == (size_t)self->length)
#define CONTRACT_K_vwo_empty __CPROVER_requires(VWO_VALID(self)) __CPROVER_assigns() __CPROVER_ensures(__CPROVER_return_value == (self->length == 0))
#define CONTRACT_K_vwo_capacity                                                                                      \
  __CPROVER_requires(VWO_VALID(self)) __CPROVER_assigns()                                                              \
  __CPROVER_ensures(__CPROVER_return_value == (self->begin_allocated_memory == NULL ? 0 : (size_t)VWO_CAP(self)))
#define CONTRACT_K_vwo_get_capacity_min_index                                                                        \
  __CPROVER_requires(VWO_VALID(self) && self->begin_allocated_memory != NULL) __CPROVER_assigns()                      \
  __CPROVER_ensures((long)__CPROVER_return_value == VWO_MIN(self) - VWO_OFF(self))
#define CONTRACT_K_vwo_get_capacity_max_index                                                                        \
  __CPROVER_requires(VWO_VALID(self) && self->begin_allocated_memory != NULL) __CPROVER_assigns()                      \
  __CPROVER_ensures((long)__CPROVER_return_value == VWO_MIN(self) - VWO_OFF(self) + VWO_CAP(self) - 1)
#define CONTRACT_K_vwo_begin                                                                                         \
  __CPROVER_requires(VWO_VALID(self)) __CPROVER_assigns()                                                              \
  __CPROVER_ensures(__CPROVER_return_value == self->num + self->start)
#define CONTRACT_K_vwo_end                                                                                           \
  __CPROVER_requires(VWO_VALID(self)) __CPROVER_assigns()                                                              \
  __CPROVER_ensures(__CPROVER_return_value == self->num + self->start + self->length)

/* operator[]: in-range index -> address of that element, nothing written */
#define CONTRACT_K_vwo_index                                                                                         \
  __CPROVER_requires(VWO_VALID(self) && VWO_IN_RANGE(self, i)) __CPROVER_assigns()                                     \
  __CPROVER_ensures(__CPROVER_return_value == self->begin_allocated_memory + (VWO_OFF(self) + ((long)i - VWO_MIN(self))))
/* at(): checked access. "checked accesses outside the range are reported as errors" */
#define CONTRACT_K_vwo_at                                                                                            \
  __CPROVER_requires(VWO_VALID(self) && g_error == 0) __CPROVER_assigns(g_error)                                       \
  __CPROVER_ensures(!VWO_IN_RANGE(self, i) ==> g_error)                                                                \
  __CPROVER_ensures(VWO_IN_RANGE(self, i) ==> (!g_error && __CPROVER_return_value == self->begin_allocated_memory + (VWO_OFF(self) + ((long)i - VWO_MIN(self)))))

/* set_offset: index range shifts, elements keep their values: new[min_index + k] == old[start + k] */
#define CONTRACT_K_vwo_set_offset                                                                                    \
  __CPROVER_requires(VWO_VALID(self) && min_index > -VWO_MAXIDX && (long)min_index + (long)self->length <= VWO_MAXIDX && min_index < VWO_MAXIDX)                             \
  __CPROVER_requires(self->length == 0 || (g_j >= 0 && g_j < (long)self->length))                                      \
  __CPROVER_assigns(self->num, self->start)                                                                            \
  __CPROVER_ensures(VWO_VALID(self))                                                                                   \
  __CPROVER_ensures(self->length == __CPROVER_old(self->length))                                                       \
  __CPROVER_ensures(self->length > 0 ==> self->start == min_index)                                                     \
  __CPROVER_ensures(self->length > 0 ==> self->num + self->start == __CPROVER_old(self->num) + __CPROVER_old(self->start))            \
  __CPROVER_ensures(self->length == 0 ==> (self->start == 0 && self->num == __CPROVER_old(self->num)))

#define CONTRACT_K_vwo_fill                                                                                          \
  __CPROVER_requires(VWO_VALID(self)) __CPROVER_requires(self->length == 0 || (VWO_IN_RANGE(self, g_i) && (long)g_j == (long)g_i - VWO_MIN(self))) \
  __CPROVER_assigns(self->length > 0 : FRAME_ELEMS(self))                                                              \
  __CPROVER_ensures(self->length == 0 || VWO_ELEM(self, g_i) == n)

/* operator==: true iff same index range and all elements equal */
#define CONTRACT_K_vwo_equals                                                                                        \
  __CPROVER_requires(VWO_VALID(self) && VWO_VALID(iv))                                                                 \
  __CPROVER_requires(self->length == 0 || (VWO_IN_RANGE(self, g_i) && (long)g_j == (long)g_i - VWO_MIN(self)))        \
  __CPROVER_assigns()                                                                                                  \
  __CPROVER_ensures((self->length != iv->length || self->start != iv->start) ==> !__CPROVER_return_value)              \
  __CPROVER_ensures((__CPROVER_return_value && self->length > 0) ==> VWO_ELEM(self, g_i) == VWO_ELEM(iv, g_i))

/* VectorWithOffset arithmetic: "operations whose operands have incompatible index ranges are reported as errors",
   nothing is written in that case, and (frame) nothing outside this vector's own elements is ever written. */
#ifdef SELF_EMPTY
/* sub-domain 1: *this is empty (no element to speak about) */
#define ARITH_CONTRACT(OPEXPR)                                                                                        \
  __CPROVER_requires(VWO_VALID(self) && VWO_VALID(v) && g_error == 0 && self->length == 0)                             \
  __CPROVER_assigns(g_error)                                                                                           \
  __CPROVER_ensures((self->start != v->start || self->length != v->length) ==> g_error)                                \
  __CPROVER_ensures((self->start == v->start && self->length == v->length) ==> !g_error)                               \
  __CPROVER_ensures(__CPROVER_return_value == self)
#define ARITH_LOOP(OPEXPR)                                                                                            \
  __CPROVER_assigns(i)                                                                                                 \
  __CPROVER_loop_invariant((long)i >= VWO_MIN(v) && (long)i <= VWO_MAX(v) + 1)                                         \
  __CPROVER_decreases(VWO_MAX(v) + 1 - (long)i)
#else
/* sub-domain 2: *this non-empty; g_i stands for every index of *this */
#define ARITH_CONTRACT(OPEXPR)                                                                                        \
  __CPROVER_requires(VWO_VALID(self) && VWO_VALID(v) && g_error == 0 && self->length > 0)                              \
  __CPROVER_requires(v->begin_allocated_memory == NULL                                                                \
                     || !__CPROVER_same_object(self->begin_allocated_memory, v->begin_allocated_memory))               \
  __CPROVER_requires(VWO_IN_RANGE(self, g_i))                                                                          \
  __CPROVER_assigns(g_error; FRAME_ELEMS(self))                                                                        \
  __CPROVER_ensures((self->start != v->start || self->length != v->length) ==> g_error)                                \
  __CPROVER_ensures((self->start == v->start && self->length == v->length) ==> !g_error)                               \
  __CPROVER_ensures(g_error ==> VWO_ELEM(self, g_i) == __CPROVER_old(VWO_ELEM(self, g_i)))                                       \
  __CPROVER_ensures(!g_error ==> VWO_ELEM(self, g_i) == (T)(OPEXPR))                                                        \
  __CPROVER_ensures(__CPROVER_return_value == self)
#define ARITH_LOOP(OPEXPR)                                                                                            \
  __CPROVER_assigns(i, FRAME_ELEMS(self))                                                                              \
  __CPROVER_loop_invariant((long)i >= VWO_MIN(v) && (long)i <= VWO_MAX(v) + 1)                                         \
  __CPROVER_loop_invariant(VWO_ELEM(self, g_i) == (g_i < i ? (T)(OPEXPR) : __CPROVER_loop_entry(VWO_ELEM(self, g_i))))           \
  __CPROVER_decreases(VWO_MAX(v) + 1 - (long)i)
#endif

#define CONTRACT_K_vwo_plus_assign ARITH_CONTRACT(__CPROVER_old(VWO_ELEM(self, g_i)) + VWO_ELEM(v, g_i))
#define LC_K_vwo_plus_assign_0 ARITH_LOOP(__CPROVER_loop_entry(VWO_ELEM(self, g_i)) + VWO_ELEM(v, g_i))
#define CONTRACT_K_vwo_minus_assign ARITH_CONTRACT(__CPROVER_old(VWO_ELEM(self, g_i)) - VWO_ELEM(v, g_i))
#define LC_K_vwo_minus_assign_0 ARITH_LOOP(__CPROVER_loop_entry(VWO_ELEM(self, g_i)) - VWO_ELEM(v, g_i))
#define CONTRACT_K_vwo_mult_assign ARITH_CONTRACT(__CPROVER_old(VWO_ELEM(self, g_i)) * VWO_ELEM(v, g_i))
#define LC_K_vwo_mult_assign_0 ARITH_LOOP(__CPROVER_loop_entry(VWO_ELEM(self, g_i)) * VWO_ELEM(v, g_i))
/* division: requires the ghost divisor non-zero only for the value clause; the div-by-zero check is off for this job
   (element values are the caller's business), see props/c11.py */
#define CONTRACT_K_vwo_div_assign ARITH_CONTRACT(VWO_ELEM(v, g_i) == 0 ? VWO_ELEM(self, g_i) : __CPROVER_old(VWO_ELEM(self, g_i)) / VWO_ELEM(v, g_i))
#define LC_K_vwo_div_assign_0 ARITH_LOOP(VWO_ELEM(v, g_i) == 0 ? VWO_ELEM(self, g_i) : __CPROVER_loop_entry(VWO_ELEM(self, g_i)) / VWO_ELEM(v, g_i))


/* ---------------- allocating operations ---------------- */
#define MAXL(a, b) ((long)(a) < (long)(b) ? (long)(b) : (long)(a))
#define MINL(a, b) ((long)(b) < (long)(a) ? (long)(b) : (long)(a))
#define CAPMIN(v) (VWO_MIN(v) - VWO_OFF(v))
#define CAPMAX(v) (CAPMIN(v) + VWO_CAP(v) - 1)
#define IDX_OK(x) ((x) > -VWO_MAXIDX && (x) < VWO_MAXIDX)
#define GHOSTS_TIED(v)                                                                                                \
  ((v)->begin_allocated_memory == NULL ? (g_cap0 == 0 && g_off0 == 0) : (g_cap0 == VWO_CAP(v) && g_off0 == VWO_OFF(v)))
/* pre-state quantities (CBMC's history variables accept member/pointer expressions only, so old() is applied to the fields) */
#define OLD_CAP(v) (__CPROVER_old((v)->begin_allocated_memory) == NULL ? 0L : ((long)__CPROVER_POINTER_OFFSET(__CPROVER_old((v)->end_allocated_memory))) / (long)sizeof(T))
#define OLD_OFF(v) (VWO_POFF(__CPROVER_old((v)->num) + __CPROVER_old((v)->start)) / (long)sizeof(T))
#define OLD_IN_RANGE(v, i) (__CPROVER_old((v)->length) > 0 && (long)(i) >= (long)__CPROVER_old((v)->start) && (long)(i) <= (long)__CPROVER_old((v)->start) + (long)__CPROVER_old((v)->length) - 1)
#define GK_K_vwo_reserve (VWO_IN_RANGE(self, g_i) ? &VWO_ELEM(self, g_i) : (const T*)NULL)
#define GK_K_vwo_assign (VWO_IN_RANGE(il, g_i) ? &VWO_ELEM(il, g_i) : (const T*)NULL)
#define ELEM_GHOST(v) ((v)->length == 0 || (VWO_IN_RANGE(v, g_i) && g_p == &VWO_ELEM(v, g_i)))
#define VWO_FIELDS(v) (v)->num, (v)->length, (v)->start, (v)->begin_allocated_memory, (v)->end_allocated_memory, (v)->allocated_memory_sptr

/* the block after the call is a live object of its own (must be the first ensures clause: when the contract REPLACES a
   call this is what gives the caller a block it can read and write; when the contract is ENFORCED it is checked) */
#define BLOCK_IS_OBJECT(v)                                                                                            \
  __CPROVER_ensures((v)->begin_allocated_memory == NULL                                                                \
                    || (VWO_POFF((v)->end_allocated_memory) <= (long)(VWO_MAXLEN * sizeof(T))                          \
                        && __CPROVER_is_fresh((v)->begin_allocated_memory, VWO_POFF((v)->end_allocated_memory))))

/* reserve(lo,hi): capacity grows to cover [lo,hi] as well as the old capacity range; index range and every element unchanged */
#define CONTRACT_K_vwo_reserve                                                                                       \
  __CPROVER_requires(VWO_VALID(self) && !self->pointer_access && IDX_OK(new_capacity_min_index) && IDX_OK(new_capacity_max_index)) \
  __CPROVER_requires(self->length == 0 ? (long)new_capacity_max_index - new_capacity_min_index + 1 <= VWO_MAXLEN       \
                     : MAXL(CAPMAX(self), new_capacity_max_index) - MINL(CAPMIN(self), new_capacity_min_index) + 1 <= VWO_MAXLEN) \
  __CPROVER_assigns(self->num, self->begin_allocated_memory, self->end_allocated_memory, self->allocated_memory_sptr)  \
  __CPROVER_frees(self->allocated_memory_sptr)                                                                         \
  BLOCK_IS_OBJECT(self)                                                                                                \
  __CPROVER_ensures(VWO_VALID(self) && self->length == __CPROVER_old(self->length) && self->start == __CPROVER_old(self->start)) \
  __CPROVER_ensures(VWO_IN_RANGE(self, g_i) ==> VWO_ELEM(self, g_i) == __CPROVER_old(VWO_ELEM(self, g_i)))             \
  __CPROVER_ensures((new_capacity_min_index <= new_capacity_max_index && self->length == 0)                            \
                    ==> VWO_CAP(self) >= (long)new_capacity_max_index - new_capacity_min_index + 1)                    \
  __CPROVER_ensures((self->length > 0)                                                                                 \
                    ==> (CAPMIN(self) <= new_capacity_min_index && CAPMAX(self) >= new_capacity_max_index              \
                         && CAPMIN(self) <= VWO_MIN(self) - OLD_OFF(self) && CAPMAX(self) >= VWO_MIN(self) - OLD_OFF(self) + OLD_CAP(self) - 1)) \
  __CPROVER_ensures(VWO_CAP(self) >= OLD_CAP(self))

/* resize(lo,hi): new index range exactly [lo,hi] (empty if lo>hi); surviving elements keep their values */
#define RESIZE_CONTRACT                                                                                               \
  __CPROVER_requires(VWO_VALID(self) && !self->pointer_access && IDX_OK(min_index) && IDX_OK(max_index))               \
  __CPROVER_requires(min_index > max_index                                                                             \
                     || (self->length == 0 ? (long)max_index - min_index + 1 <= VWO_MAXLEN                             \
                         : MAXL(CAPMAX(self), max_index) - MINL(CAPMIN(self), min_index) + 1 <= VWO_MAXLEN)) \
  __CPROVER_assigns(VWO_FIELDS(self))                                                                                  \
  __CPROVER_frees(self->allocated_memory_sptr)                                                                         \
  BLOCK_IS_OBJECT(self)                                                                                                \
  __CPROVER_ensures(VWO_VALID(self))                                                                                   \
  __CPROVER_ensures(min_index > max_index ? self->length == 0                                                          \
                                          : (self->start == min_index && (long)self->length == (long)max_index - min_index + 1)) \
  __CPROVER_ensures((OLD_IN_RANGE(self, g_i) && min_index <= g_i && g_i <= max_index)                  \
                    ==> VWO_ELEM(self, g_i) == __CPROVER_old(VWO_ELEM(self, g_i)))
#define CONTRACT_K_vwo_resize RESIZE_CONTRACT
#define CONTRACT_K_vwo_grow RESIZE_CONTRACT

/* Array<1,T>::resize: as above, and "elements newly exposed by growing a numeric array are zero" (ghost g_j: any new index) */
#define CONTRACT_K_arr1_resize                                                                                       \
  RESIZE_CONTRACT                                                                                                      \
  __CPROVER_ensures((min_index <= g_j && g_j <= max_index                                                              \
                     && !(__CPROVER_old(self->length) > 0 && (long)g_j >= (long)__CPROVER_old(self->start)             \
                          && (long)g_j <= (long)__CPROVER_old(self->start) + (long)__CPROVER_old(self->length) - 1))   \
                    ==> VWO_ELEM(self, g_j) == 0)
#define ZERO_INV(lo)                                                                                                  \
  __CPROVER_assigns(i; self->begin_allocated_memory != NULL : __CPROVER_object_whole(self->begin_allocated_memory))                                                                              \
  __CPROVER_loop_invariant((long)i >= VWO_MIN(self) && (long)i <= VWO_MAX(self) + 1)
/* loop 0: old vector empty: everything zeroed */
#define LC_K_arr1_resize_0                                                                                           \
  ZERO_INV(0)                                                                                                          \
  __CPROVER_loop_invariant((VWO_IN_RANGE(self, g_j) && g_j < i) ==> VWO_ELEM(self, g_j) == 0)                          \
  __CPROVER_decreases(VWO_MAX(self) + 1 - (long)i)
/* loop 1: new elements to the left of the old range */
#define LC_K_arr1_resize_1                                                                                           \
  ZERO_INV(1)                                                                                                          \
  __CPROVER_loop_invariant((long)i <= MAXL((long)oldstart, VWO_MIN(self)))                                       \
  __CPROVER_loop_invariant((VWO_IN_RANGE(self, g_j) && g_j < i && g_j < oldstart) ==> VWO_ELEM(self, g_j) == 0)        \
  __CPROVER_loop_invariant((VWO_IN_RANGE(self, g_i) && g_i >= oldstart) ==> VWO_ELEM(self, g_i) == __CPROVER_loop_entry(VWO_ELEM(self, g_i))) \
  __CPROVER_decreases(VWO_MAX(self) + 1 - (long)i)
/* loop 2: new elements to the right of the old range */
#define LC_K_arr1_resize_2                                                                                           \
  ZERO_INV(2)                                                                                                          \
  __CPROVER_loop_invariant((long)i >= (long)oldstart + (long)oldlength)                                                \
  __CPROVER_loop_invariant((VWO_IN_RANGE(self, g_j) && g_j < i && (long)g_j >= (long)oldstart + (long)oldlength) ==> VWO_ELEM(self, g_j) == 0) \
  __CPROVER_loop_invariant((VWO_IN_RANGE(self, g_j) && g_j < oldstart) ==> VWO_ELEM(self, g_j) == __CPROVER_loop_entry(VWO_ELEM(self, g_j))) \
  __CPROVER_loop_invariant((VWO_IN_RANGE(self, g_i) && (long)g_i < (long)oldstart + (long)oldlength) ==> VWO_ELEM(self, g_i) == __CPROVER_loop_entry(VWO_ELEM(self, g_i))) \
  __CPROVER_decreases(VWO_MAX(self) + 1 - (long)i)

/* operator=: *this becomes an equal copy of il: same index range, same elements; il untouched */
#define CONTRACT_K_vwo_assign                                                                                        \
  __CPROVER_requires(VWO_VALID(self) && VWO_VALID(il) && !self->pointer_access)                                        \
  __CPROVER_requires(self == il || self->begin_allocated_memory == NULL || il->begin_allocated_memory == NULL         \
                     || !__CPROVER_same_object(self->begin_allocated_memory, il->begin_allocated_memory))              \
  __CPROVER_assigns(VWO_FIELDS(self); self->begin_allocated_memory != NULL : __CPROVER_object_whole(self->begin_allocated_memory))    \
  __CPROVER_frees(self->allocated_memory_sptr)                                                                         \
  __CPROVER_ensures(VWO_VALID(self) && __CPROVER_return_value == self)                                                 \
  __CPROVER_ensures(self->length == il->length && self->start == il->start)                                           \
  __CPROVER_ensures(VWO_IN_RANGE(il, g_i) ==> VWO_ELEM(self, g_i) == VWO_ELEM(il, g_i))

#define CONTRACT_K_vwo_init0 __CPROVER_assigns(VWO_FIELDS(self)) __CPROVER_ensures(VWO_VALID(self) && self->length == 0 && self->begin_allocated_memory == NULL)
#define CONTRACT_K_vwo__destruct_and_deallocate __CPROVER_requires(VWO_VALID(self)) __CPROVER_assigns(self->allocated_memory_sptr) __CPROVER_frees(self->allocated_memory_sptr) __CPROVER_ensures(self->allocated_memory_sptr == NULL)
#define CONTRACT_K_vwo_recycle __CPROVER_requires(VWO_VALID(self)) __CPROVER_assigns(VWO_FIELDS(self)) __CPROVER_frees(self->allocated_memory_sptr) __CPROVER_ensures(VWO_VALID(self) && self->length == 0 && self->begin_allocated_memory == NULL)

#endif
