/* Contracts for C11: stir::VectorWithOffset<T> (VectorWithOffset.inl), Array<1,T>::resize (Array.inl).
   Keyed by kernel name (CONTRACT_<kernel>) and loop ordinal (LC_<kernel>_<n>).
   T is the job parameter T_ELEM. */
#ifndef C11_CONTRACTS_H
#define C11_CONTRACTS_H
#include "contracts/prelude.h"
#include <stdlib.h>

#ifndef T_ELEM
#define T_ELEM unsigned
#endif
typedef T_ELEM T;

/* the member list of VectorWithOffset<T> (VectorWithOffset.h, checked against the header on every run by
   props/c11.py: a changed member list is exit 2). shared_ptr<T[]> allocated_memory_sptr is modelled as an owning
   raw pointer (TRUSTED: sole ownership; reset == free). */
struct VWO
{
  T* num;
  unsigned length;
  int start;
  T* begin_allocated_memory;
  T* end_allocated_memory;
  T* allocated_memory_sptr;
  _Bool pointer_access;
};

int g_error; /* ghost: error()/throw happened */
int g_i;     /* ghost index: stands for "every index" (chosen nondeterministically by the harness) */
int g_j;     /* second ghost index */

#define K_THROW(val)                                                                                                  \
  do                                                                                                                  \
    {                                                                                                                 \
      g_error = 1;                                                                                                    \
      return val;                                                                                                     \
    }                                                                                                                 \
  while (0)

#define VWO_MAXLEN 65536
#define VWO_MAXIDX 1000000

/* capacity in elements */
#define VWO_CAP(v) (((long)__CPROVER_POINTER_OFFSET((v)->end_allocated_memory)) / (long)sizeof(T))
/* offset (in elements) of element `start` inside the allocation */
/* CBMC keeps pointer offsets in 56 bits (default --object-bits 8); an offset computed through the out-of-block base
   pointer `num` carries into bit 56, so the offset of the in-block pointer num+start is taken modulo 2^56 */
#define VWO_POFF(p) ((long)__CPROVER_POINTER_OFFSET(p) & 0x00FFFFFFFFFFFFFFL)
#define VWO_OFF(v) (VWO_POFF((v)->num + (v)->start) / (long)sizeof(T))
/* element i of the abstract view, addressed through the in-block pointer (CBMC's history variables do not follow the
   out-of-block base pointer `num` reliably, probe P13); the kernel bodies themselves keep using num[i] */
#define VWO_ELEM(v, i) ((v)->begin_allocated_memory[VWO_OFF(v) + ((long)(i) - (long)(v)->start)])
#define VWO_AT(v, i) VWO_ELEM(v, i)
#define VWO_MIN(v) ((long)(v)->start)
#define VWO_MAX(v) ((long)(v)->start + (long)(v)->length - 1)
#define VWO_IN_RANGE(v, i) ((v)->length > 0 && (long)(i) >= VWO_MIN(v) && (long)(i) <= VWO_MAX(v))

/* The representation invariant (stronger than check_state(): also the empty-vector normal form the code relies on
   in get_capacity_min_index()). Pure relation over assigned pointers: usable in requires and ensures. */
#define VWO_VALID(v)                                                                                                  \
  ((v)->start > -VWO_MAXIDX && (v)->start < VWO_MAXIDX && (v)->length <= VWO_MAXLEN                                    \
   && ((v)->begin_allocated_memory == NULL                                                                            \
           ? ((v)->end_allocated_memory == NULL && (v)->num == NULL && (v)->length == 0 && (v)->start == 0             \
              && (v)->allocated_memory_sptr == NULL)                                                                  \
           : (__CPROVER_same_object((v)->begin_allocated_memory, (v)->end_allocated_memory)                           \
              && __CPROVER_same_object((v)->begin_allocated_memory, (v)->num)                                        \
              && __CPROVER_POINTER_OFFSET((v)->begin_allocated_memory) == 0                                          \
              && VWO_POFF((v)->num + (v)->start) % (long)sizeof(T) == 0                                           \
              && (long)__CPROVER_POINTER_OFFSET((v)->end_allocated_memory) % (long)sizeof(T) == 0                          \
              && VWO_CAP(v) >= 0 && VWO_CAP(v) <= VWO_MAXLEN                                                          \
              && __CPROVER_OBJECT_SIZE((v)->begin_allocated_memory) == (size_t)VWO_CAP(v) * sizeof(T)                 \
              && VWO_OFF(v) >= 0 && VWO_OFF(v) + (long)(v)->length <= VWO_CAP(v)                                       \
              && ((v)->length > 0 || ((v)->start == 0 && (v)->num == (v)->begin_allocated_memory))                    \
              && ((v)->allocated_memory_sptr == NULL || (v)->allocated_memory_sptr == (v)->begin_allocated_memory))))

/* ---- models of the std:: algorithms the kernels call (TRUSTED to describe libstdc++; each is itself verified
        against the contract below, so callers only see the contract) ---- */
T* K_std_copy(const T* first, const T* last, T* out)
__CPROVER_requires(first == last || (__CPROVER_same_object(first, last) && last - first >= 0 && last - first <= VWO_MAXLEN
                   && __CPROVER_r_ok(first, (last - first) * sizeof(T)) && __CPROVER_w_ok(out, (last - first) * sizeof(T))
                   && !__CPROVER_same_object(first, out)))
__CPROVER_assigns(first != last : __CPROVER_object_upto(out, (last - first) * sizeof(T)))
__CPROVER_ensures((first != last && g_j >= 0 && g_j < last - first) ==> out[g_j] == first[g_j])
__CPROVER_ensures(first == last ? __CPROVER_return_value == out : __CPROVER_return_value == out + (last - first))
{
  long n = first == last ? 0 : last - first;
  for (long k = 0; k < n; ++k)
    __CPROVER_assigns(k, __CPROVER_object_upto(out, n * sizeof(T)))
    __CPROVER_loop_invariant(0 <= k && k <= n && ((0 <= g_j && g_j < k) ==> out[g_j] == first[g_j]))
    __CPROVER_decreases(n - k)
    out[k] = first[k];
  return out + n;
}

void K_std_fill(T* first, T* last, T value)
__CPROVER_requires(first == last || (__CPROVER_same_object(first, last) && last - first >= 0 && last - first <= VWO_MAXLEN
                   && __CPROVER_w_ok(first, (last - first) * sizeof(T))))
__CPROVER_assigns(first != last : __CPROVER_object_upto(first, (last - first) * sizeof(T)))
__CPROVER_ensures((first != last && g_j >= 0 && g_j < last - first) ==> first[g_j] == value)
{
  long n = first == last ? 0 : last - first;
  for (long k = 0; k < n; ++k)
    __CPROVER_assigns(k, __CPROVER_object_upto(first, n * sizeof(T)))
    __CPROVER_loop_invariant(0 <= k && k <= n && ((0 <= g_j && g_j < k) ==> first[g_j] == value))
    __CPROVER_decreases(n - k)
    first[k] = value;
}

_Bool K_std_equal(const T* first, const T* last, const T* other)
__CPROVER_requires(first == last || (__CPROVER_same_object(first, last) && last - first >= 0 && last - first <= VWO_MAXLEN
                   && __CPROVER_r_ok(first, (last - first) * sizeof(T)) && __CPROVER_r_ok(other, (last - first) * sizeof(T))))
__CPROVER_assigns()
__CPROVER_ensures(first == last ==> __CPROVER_return_value)
/* true => every (ghost) element equal; false => some element differs (witness not exposed: stated as
   "not all equal" through the ghost only in the true direction; the false direction is proved in the body by the
   explicit mismatch return) */
__CPROVER_ensures((first != last && __CPROVER_return_value && g_j >= 0 && g_j < last - first) ==> first[g_j] == other[g_j])
{
  long n = first == last ? 0 : last - first;
  for (long k = 0; k < n; ++k)
    __CPROVER_assigns(k)
    __CPROVER_loop_invariant(0 <= k && k <= n && ((0 <= g_j && g_j < k) ==> first[g_j] == other[g_j]))
    __CPROVER_decreases(n - k)
    {
      if (!(first[k] == other[k]))
        return 0;
    }
  return 1;
}

/* new T[n]: fresh block, indeterminate contents (T is int/unsigned/float: no default initialisation) */
static inline T* K_new_T(unsigned n) { return (T*)malloc((size_t)n * sizeof(T)); }
/* shared_ptr<T[]>::operator=(nullptr) / reset: releases the block if this object owns one (sole owner: TRUSTED) */
static inline void K_sptr_reset(T** p)
{
  if (*p)
    free(*p);
  *p = NULL;
}

/* ================= contracts, one per kernel ================= */

#define FRAME_ELEMS(v) __CPROVER_object_upto((v)->num + (v)->start, (size_t)(v)->length * sizeof(T))

#define CONTRACT_K_vwo_get_min_index __CPROVER_requires(VWO_VALID(self)) __CPROVER_assigns() __CPROVER_ensures(__CPROVER_return_value == self->start)
#define CONTRACT_K_vwo_get_max_index                                                                                 \
  __CPROVER_requires(VWO_VALID(self)) __CPROVER_assigns()                                                              \
  __CPROVER_ensures((long)__CPROVER_return_value == VWO_MAX(self))
#define CONTRACT_K_vwo_get_length __CPROVER_requires(VWO_VALID(self)) __CPROVER_assigns() __CPROVER_ensures(__CPROVER_return_value == (int)self->length)
#define CONTRACT_K_vwo_size __CPROVER_requires(VWO_VALID(self)) __CPROVER_assigns() __CPROVER_ensures(__CPROVER_return_value == (size_t)self->length)
#define CONTRACT_K_vwo_empty __CPROVER_requires(VWO_VALID(self)) __CPROVER_assigns() __CPROVER_ensures(__CPROVER_return_value == (self->length == 0))
#define CONTRACT_K_vwo_capacity                                                                                      \
  __CPROVER_requires(VWO_VALID(self)) __CPROVER_assigns()                                                              \
  __CPROVER_ensures(__CPROVER_return_value == (self->begin_allocated_memory == NULL ? 0 : (size_t)VWO_CAP(self)))
#define CONTRACT_K_vwo_get_capacity_min_index                                                                        \
  __CPROVER_requires(VWO_VALID(self) && self->begin_allocated_memory != NULL) __CPROVER_assigns()                      \
  __CPROVER_ensures((long)__CPROVER_return_value == VWO_MIN(self) - VWO_OFF(self))
#define CONTRACT_K_vwo_get_capacity_max_index                                                                        \
  __CPROVER_requires(VWO_VALID(self) && self->begin_allocated_memory != NULL) __CPROVER_assigns()                      \
  __CPROVER_ensures((long)__CPROVER_return_value == VWO_MIN(self) - VWO_OFF(self) + VWO_CAP(self) - 1)
#define CONTRACT_K_vwo_begin                                                                                         \
  __CPROVER_requires(VWO_VALID(self)) __CPROVER_assigns()                                                              \
  __CPROVER_ensures(__CPROVER_return_value == self->num + self->start)
#define CONTRACT_K_vwo_end                                                                                           \
  __CPROVER_requires(VWO_VALID(self)) __CPROVER_assigns()                                                              \
  __CPROVER_ensures(__CPROVER_return_value == self->num + self->start + self->length)

/* operator[]: in-range index -> address of that element, nothing written */
#define CONTRACT_K_vwo_index                                                                                         \
  __CPROVER_requires(VWO_VALID(self) && VWO_IN_RANGE(self, i)) __CPROVER_assigns()                                     \
  __CPROVER_ensures(__CPROVER_return_value == self->begin_allocated_memory + (VWO_OFF(self) + ((long)i - VWO_MIN(self))))
/* at(): checked access. "checked accesses outside the range are reported as errors" */
#define CONTRACT_K_vwo_at                                                                                            \
  __CPROVER_requires(VWO_VALID(self) && g_error == 0) __CPROVER_assigns(g_error)                                       \
  __CPROVER_ensures(!VWO_IN_RANGE(self, i) ==> g_error)                                                                \
  __CPROVER_ensures(VWO_IN_RANGE(self, i) ==> (!g_error && __CPROVER_return_value == self->begin_allocated_memory + (VWO_OFF(self) + ((long)i - VWO_MIN(self)))))

/* set_offset: index range shifts, elements keep their values: new[min_index + k] == old[start + k] */
#define CONTRACT_K_vwo_set_offset                                                                                    \
  __CPROVER_requires(VWO_VALID(self) && min_index > -VWO_MAXIDX && min_index < VWO_MAXIDX)                             \
  __CPROVER_requires(self->length == 0 || (g_j >= 0 && g_j < (long)self->length))                                      \
  __CPROVER_assigns(self->num, self->start)                                                                            \
  __CPROVER_ensures(VWO_VALID(self))                                                                                   \
  __CPROVER_ensures(self->length == __CPROVER_old(self->length))                                                       \
  __CPROVER_ensures(self->length > 0 ==> self->start == min_index)                                                     \
  __CPROVER_ensures(self->length > 0 ==> self->num + self->start == __CPROVER_old(self->num) + __CPROVER_old(self->start))            \
  __CPROVER_ensures(self->length == 0 ==> (self->start == 0 && self->num == __CPROVER_old(self->num)))

#define CONTRACT_K_vwo_fill                                                                                          \
  __CPROVER_requires(VWO_VALID(self)) __CPROVER_requires(self->length == 0 || (VWO_IN_RANGE(self, g_i) && (long)g_j == (long)g_i - VWO_MIN(self))) \
  __CPROVER_assigns(self->length > 0 : FRAME_ELEMS(self))                                                              \
  __CPROVER_ensures(self->length == 0 || VWO_ELEM(self, g_i) == n)

/* operator==: true iff same index range and all elements equal */
#define CONTRACT_K_vwo_equals                                                                                        \
  __CPROVER_requires(VWO_VALID(self) && VWO_VALID(iv))                                                                 \
  __CPROVER_requires(self->length == 0 || (VWO_IN_RANGE(self, g_i) && (long)g_j == (long)g_i - VWO_MIN(self)))        \
  __CPROVER_assigns()                                                                                                  \
  __CPROVER_ensures((self->length != iv->length || self->start != iv->start) ==> !__CPROVER_return_value)              \
  __CPROVER_ensures((__CPROVER_return_value && self->length > 0) ==> VWO_ELEM(self, g_i) == VWO_ELEM(iv, g_i))

/* VectorWithOffset arithmetic: "operations whose operands have incompatible index ranges are reported as errors",
   nothing is written in that case, and (frame) nothing outside this vector's own elements is ever written. */
#ifdef SELF_EMPTY
/* sub-domain 1: *this is empty (no element to speak about) */
#define ARITH_CONTRACT(OPEXPR)                                                                                        \
  __CPROVER_requires(VWO_VALID(self) && VWO_VALID(v) && g_error == 0 && self->length == 0)                             \
  __CPROVER_assigns(g_error)                                                                                           \
  __CPROVER_ensures((self->start != v->start || self->length != v->length) ==> g_error)                                \
  __CPROVER_ensures((self->start == v->start && self->length == v->length) ==> !g_error)                               \
  __CPROVER_ensures(__CPROVER_return_value == self)
#define ARITH_LOOP(OPEXPR)                                                                                            \
  __CPROVER_assigns(i)                                                                                                 \
  __CPROVER_loop_invariant((long)i >= VWO_MIN(v) && (long)i <= VWO_MAX(v) + 1)                                         \
  __CPROVER_decreases(VWO_MAX(v) + 1 - (long)i)
#else
/* sub-domain 2: *this non-empty; g_i stands for every index of *this */
#define ARITH_CONTRACT(OPEXPR)                                                                                        \
  __CPROVER_requires(VWO_VALID(self) && VWO_VALID(v) && g_error == 0 && self->length > 0)                              \
  __CPROVER_requires(v->begin_allocated_memory == NULL                                                                \
                     || !__CPROVER_same_object(self->begin_allocated_memory, v->begin_allocated_memory))               \
  __CPROVER_requires(VWO_IN_RANGE(self, g_i))                                                                          \
  __CPROVER_assigns(g_error; FRAME_ELEMS(self))                                                                        \
  __CPROVER_ensures((self->start != v->start || self->length != v->length) ==> g_error)                                \
  __CPROVER_ensures((self->start == v->start && self->length == v->length) ==> !g_error)                               \
  __CPROVER_ensures(g_error ==> VWO_ELEM(self, g_i) == __CPROVER_old(VWO_ELEM(self, g_i)))                                       \
  __CPROVER_ensures(!g_error ==> VWO_ELEM(self, g_i) == (T)(OPEXPR))                                                        \
  __CPROVER_ensures(__CPROVER_return_value == self)
#define ARITH_LOOP(OPEXPR)                                                                                            \
  __CPROVER_assigns(i, FRAME_ELEMS(self))                                                                              \
  __CPROVER_loop_invariant((long)i >= VWO_MIN(v) && (long)i <= VWO_MAX(v) + 1)                                         \
  __CPROVER_loop_invariant(VWO_ELEM(self, g_i) == (g_i < i ? (T)(OPEXPR) : __CPROVER_loop_entry(VWO_ELEM(self, g_i))))           \
  __CPROVER_decreases(VWO_MAX(v) + 1 - (long)i)
#endif

#define CONTRACT_K_vwo_plus_assign ARITH_CONTRACT(__CPROVER_old(VWO_ELEM(self, g_i)) + VWO_ELEM(v, g_i))
#define LC_K_vwo_plus_assign_0 ARITH_LOOP(__CPROVER_loop_entry(VWO_ELEM(self, g_i)) + VWO_ELEM(v, g_i))
#define CONTRACT_K_vwo_minus_assign ARITH_CONTRACT(__CPROVER_old(VWO_ELEM(self, g_i)) - VWO_ELEM(v, g_i))
#define LC_K_vwo_minus_assign_0 ARITH_LOOP(__CPROVER_loop_entry(VWO_ELEM(self, g_i)) - VWO_ELEM(v, g_i))
#define CONTRACT_K_vwo_mult_assign ARITH_CONTRACT(__CPROVER_old(VWO_ELEM(self, g_i)) * VWO_ELEM(v, g_i))
#define LC_K_vwo_mult_assign_0 ARITH_LOOP(__CPROVER_loop_entry(VWO_ELEM(self, g_i)) * VWO_ELEM(v, g_i))
/* division: requires the ghost divisor non-zero only for the value clause; the div-by-zero check is off for this job
   (element values are the caller's business), see props/c11.py */
#define CONTRACT_K_vwo_div_assign ARITH_CONTRACT(VWO_ELEM(v, g_i) == 0 ? VWO_ELEM(self, g_i) : __CPROVER_old(VWO_ELEM(self, g_i)) / VWO_ELEM(v, g_i))
#define LC_K_vwo_div_assign_0 ARITH_LOOP(VWO_ELEM(v, g_i) == 0 ? VWO_ELEM(self, g_i) : __CPROVER_loop_entry(VWO_ELEM(self, g_i)) / VWO_ELEM(v, g_i))

#endif
