/* Contracts for C20 (component-based normalisation): the index maps of the detector-pair ("fan") representation
   (ML_norm.cxx): FanProjData::operator()/is_in_data, and the virtual-crystal ("gap") index maps of
   make_fan_data_remove_gaps_help / set_fan_data_add_gaps_help. */
#ifndef C20_CONTRACTS_H
#define C20_CONTRACTS_H
#include "contracts/prelude.h"

int g_error;
/* FanProjData: Array<4,float> with the index ranges the constructor FanProjData(num_rings, num_detectors_per_ring,
   max_ring_diff, fan_size) builds (read from the constructor; ASSUMED here):
     [ra] in [0,R-1]; [a] in [0,N-1]; [rb] in [ra, min(ra+D,R-1)] (only half of the data is stored); [b] in [a+N/2-h, a+N/2+h] */
struct FAN { int num_rings, num_detectors_per_ring, max_ring_diff, half_fan_size; };
#ifdef C20_N
#define FAN_N_OK(n) ((n) == C20_N)
#else
#define FAN_N_OK(n) ((n) <= 4096)
#endif
#define FAN_VALID(s)                                                                                                  \
  (FAN_N_OK((s)->num_detectors_per_ring) && (s)->num_detectors_per_ring >= 2 && (s)->num_detectors_per_ring % 2 == 0   \
   && (s)->num_rings >= 1 && (s)->num_rings <= 4096 && (s)->max_ring_diff >= 0 && (s)->max_ring_diff < (s)->num_rings  \
   && (s)->half_fan_size >= 0 && (s)->half_fan_size < (s)->num_detectors_per_ring && 2 * (s)->half_fan_size + 1 < (s)->num_detectors_per_ring)
#define FN(s) ((s)->num_detectors_per_ring)
#define MINB(s, a) ((a) + FN(s) / 2 - (s)->half_fan_size)
#define MAXB(s, a) ((a) + FN(s) / 2 + (s)->half_fan_size)
#define RBMAX(s, ra) K_min_int((ra) + (s)->max_ring_diff, (s)->num_rings - 1)
/* readers of the stored index ranges (contract == what the constructor builds); indexing outside is out of bounds */
int FAN_MIN_B(const struct FAN* self, int a)
__CPROVER_requires(FAN_VALID(self) && a >= 0 && a < FN(self))
__CPROVER_assigns()
__CPROVER_ensures(__CPROVER_return_value == MINB(self, a))
;
int FAN_MAX_B(const struct FAN* self, int a)
__CPROVER_requires(FAN_VALID(self) && a >= 0 && a < FN(self))
__CPROVER_assigns()
__CPROVER_ensures(__CPROVER_return_value == MAXB(self, a))
;
int FAN_RB_MIN(const struct FAN* self, int ra, int a)
__CPROVER_requires(FAN_VALID(self) && ra >= 0 && ra < self->num_rings && a >= 0 && a < FN(self))
__CPROVER_assigns()
__CPROVER_ensures(__CPROVER_return_value == ra)
;
int FAN_RB_MAX(const struct FAN* self, int ra, int a)
__CPROVER_requires(FAN_VALID(self) && ra >= 0 && ra < self->num_rings && a >= 0 && a < FN(self))
__CPROVER_assigns()
__CPROVER_ensures(__CPROVER_return_value == RBMAX(self, ra))
;
/* the cell (*this)[i0][i1][i2][i3]: ghost record of the indices; the bounds are an obligation (unchecked operator[]) */
int g_c0, g_c1, g_c2, g_c3, g_cells;
#define CELL_IN_RANGE(s, i0, i1, i2, i3)                                                                              \
  ((i0) >= 0 && (i0) < (s)->num_rings && (i1) >= 0 && (i1) < FN(s) && (i2) >= (i0) && (i2) <= RBMAX(s, i0) && (i3) >= MINB(s, i1) && (i3) <= MAXB(s, i1))
static inline float FAN_CELL(const struct FAN* self, int i0, int i1, int i2, int i3)
{
  __CPROVER_assert(CELL_IN_RANGE(self, i0, i1, i2, i3), "FanProjData element addressed inside its index ranges");
  g_c0 = i0; g_c1 = i1; g_c2 = i2; g_c3 = i3; ++g_cells;
  return 0.F;
}
/* is_in_data. From the property ("each entry is the value of the bin that the geometry assigns to that detector pair"):
   true exactly for the pairs that have a cell: rb in the stored half [ra, ra+D] and b inside the fan of a (modulo N) */
#define PAIR_OK(s, ra, a, rb, b) ((ra) >= 0 && (ra) < (s)->num_rings && (rb) >= 0 && (rb) < (s)->num_rings && (a) >= 0 && (a) < FN(s) && (b) >= 0 && (b) < FN(s))
/* b (in [0,N)) is one of the detectors a+N/2-h .. a+N/2+h taken modulo N (a < N, so the fan lies in [N/2-h, 2N)) */
#define B_IN_FAN(s, a, b) (((b) >= MINB(s, a) && (b) <= MAXB(s, a)) || ((b) + FN(s) >= MINB(s, a) && (b) + FN(s) <= MAXB(s, a)))
#define SPEC_IN_DATA(s, ra, a, rb, b) ((rb) >= (ra) && (rb) <= RBMAX(s, ra) && B_IN_FAN(s, a, b))
#define CONTRACT_K_fan_is_in_data                                                                                    \
  __CPROVER_requires(__CPROVER_is_fresh(self, sizeof(*self)) && FAN_VALID(self) && PAIR_OK(self, ra, a, rb, b))        \
  __CPROVER_assigns()                                                                                                  \
  __CPROVER_ensures(__CPROVER_return_value == (SPEC_IN_DATA(self, ra, a, rb, b) ? 1 : 0))
/* operator(): the cell of a detector pair: for ra < rb the pair's own cell, otherwise the cell of the exchanged pair;
   inside the index ranges whenever the pair (in one of the two orders) is in the data */
#define SPEC_CELL_OK(s, ra, a, rb, b)                                                                                 \
  ((ra) < (rb) ? (g_c0 == (ra) && g_c1 == (a) && g_c2 == (rb) && (g_c3 == (b) || g_c3 == (b) + FN(s)))                \
               : (g_c0 == (rb) && g_c1 == (b) && g_c2 == (ra) && (g_c3 == (a) || g_c3 == (a) + FN(s))))
#ifndef C20_LOOP_DOMAIN
#define CONTRACT_K_fan_select                                                                                        \
  __CPROVER_requires(__CPROVER_is_fresh(self, sizeof(*self)) && FAN_VALID(self) && PAIR_OK(self, ra, a, rb, b) && g_cells == 0) \
  __CPROVER_requires(SPEC_IN_DATA(self, ra, a, rb, b) || SPEC_IN_DATA(self, rb, b, ra, a))                             \
  __CPROVER_assigns(g_c0, g_c1, g_c2, g_c3, g_cells)                                                                   \
  __CPROVER_ensures(g_cells == 1 && CELL_IN_RANGE(self, g_c0, g_c1, g_c2, g_c3) && SPEC_CELL_OK(self, ra, a, rb, b))
#else
/* the domain of the library's own loops (apply_*, iterate_*, make_*_data): ra, a over the whole ranges, rb from get_min_rb(ra) =
   max(ra-D,0) to get_max_rb(ra), b from get_min_b(a) to get_max_b(a) - b is NOT reduced modulo N there (up to a+N/2+h < 2N) */
#define CONTRACT_K_fan_select                                                                                        \
  __CPROVER_requires(__CPROVER_is_fresh(self, sizeof(*self)) && FAN_VALID(self) && ra >= 0 && ra < self->num_rings && a >= 0 && a < FN(self) && g_cells == 0) \
  __CPROVER_requires(rb >= K_max_int(ra - self->max_ring_diff, 0) && rb <= RBMAX(self, ra) && b >= MINB(self, a) && b <= MAXB(self, a)) \
  __CPROVER_assigns(g_c0, g_c1, g_c2, g_c3, g_cells)                                                                   \
  __CPROVER_ensures(g_cells == 1 && CELL_IN_RANGE(self, g_c0, g_c1, g_c2, g_c3))                                       \
  __CPROVER_ensures(ra < rb ? (g_c0 == ra && g_c1 == a && g_c2 == rb && g_c3 == b) : (g_c0 == rb && g_c1 == b % FN(self) && g_c2 == ra))
#endif

/* ---- virtual crystals ("gaps"): x -> x - (x / C) * V for physical crystals (x % C < C - V) ---- */
#ifndef C20_CT
#define C20_CT 9 /* transaxial crystals per block */
#endif
#ifndef C20_VT
#define C20_VT 1 /* virtual transaxial crystals per block */
#endif
#ifndef C20_CA
#define C20_CA 9
#endif
#ifndef C20_VA
#define C20_VA 1
#endif
#define IS_PHYS(x, C, V) ((x) % (C) < (C) - (V))
#define NEW_IDX(x, C, V) ((x) - ((x) / (C)) * (V))
#define GAP_CONTRACT                                                                                                  \
  __CPROVER_requires(__CPROVER_is_fresh(new_a, sizeof(int)) && __CPROVER_is_fresh(new_ra, sizeof(int)) && __CPROVER_is_fresh(new_b, sizeof(int)) && __CPROVER_is_fresh(new_rb, sizeof(int))) \
  __CPROVER_requires(num_transaxial_crystals_per_block == C20_CT && num_virtual_transaxial_crystals_per_block == C20_VT \
                     && num_axial_crystals_per_block == C20_CA && num_virtual_axial_crystals_per_block == C20_VA)      \
  __CPROVER_requires(num_physical_transaxial_crystals_per_block == C20_CT - C20_VT && num_physical_axial_crystals_per_block == C20_CA - C20_VA) \
  __CPROVER_requires(a >= 0 && a < 100000 && b >= 0 && b < 100000 && ra >= 0 && ra < 100000 && rb >= 0 && rb < 100000) \
  __CPROVER_assigns(*new_a, *new_ra, *new_b, *new_rb)                                                                  \
  /* a pair is used iff all four crystals are physical */                                                            \
  __CPROVER_ensures(__CPROVER_return_value == ((IS_PHYS(a, C20_CT, C20_VT) && IS_PHYS(b, C20_CT, C20_VT) && IS_PHYS(ra, C20_CA, C20_VA) && IS_PHYS(rb, C20_CA, C20_VA)) ? 1 : 0)) \
  __CPROVER_ensures(__CPROVER_return_value == 1 ==> (*new_a == NEW_IDX(a, C20_CT, C20_VT) && *new_b == NEW_IDX(b, C20_CT, C20_VT) \
                                                     && *new_ra == NEW_IDX(ra, C20_CA, C20_VA) && *new_rb == NEW_IDX(rb, C20_CA, C20_VA)))
#define CONTRACT_K_remove_gaps_map GAP_CONTRACT
#define CONTRACT_K_add_gaps_map GAP_CONTRACT

/* ---- ML update of the geometric / block factors: the element statement of iterate_geo_norm / iterate_block_norm (2D and 3D) ----
   new factor = (measured >= threshold || measured < 10000 * model) ? measured / model : 0, where 'model' is the model summed
   over the factor's detector pairs (make_geo_data / make_block_data) and 'measured' the measured data summed likewise.
   From the property: "for data generated exactly from a model, the model parameters are a fixed point of the ML
   iterations": data generated from the model with factor f have measured = model * f, so the update must be the ratio
   measured / model whenever that ratio is an admissible factor (< 10^4) - however small 'measured' is compared to the
   largest sum - and is never anything but the ratio or 0. The quotient itself is the ghost g_ratio in the kernel proof;
   the lemma job computes it with the real float division. */
float g_ratio; /* ghost: the float quotient measured / model of this call */
#define K_RATIO(m, n) g_ratio
float g_limit; /* ghost: the float product 10000 * model of this call */
#define K_LIMIT(n) g_limit
#define ML_FINITE(x) (!__CPROVER_isnanf(x) && !__CPROVER_isinff(x))
#define CONTRACT_K_ml_ratio                                                                                           \
  __CPROVER_requires(ML_FINITE(measured) && ML_FINITE(model) && !__CPROVER_isnanf(threshold) && measured >= 0.F && model > 0.F && threshold >= 0.F && !__CPROVER_isnanf(g_ratio) && g_limit == 10000 * model) \
  __CPROVER_assigns()                                                                                                  \
  __CPROVER_ensures(measured < g_limit ==> __CPROVER_return_value == g_ratio)                                       \
  __CPROVER_ensures(__CPROVER_return_value == g_ratio || __CPROVER_return_value == 0.F)

/* ---- FanProjData constructor: the index ranges it builds (ghost (g_ra, g_a, g_rb)) ----
   Postcondition = the reader contracts above: [ra] in [0,R-1]; [a] in [0,N-1]; [rb] in [ra, min(ra+D,R-1)]; [b] in [a+N/2-h, a+N/2+h],
   each range set exactly once, every index used while building inside the range built one level up. */
int g_ra, g_a, g_rb;
#define G_BOUNDED (g_ra > -100000 && g_ra < 100000 && g_a > -100000 && g_a < 100000 && g_rb > -100000 && g_rb < 100000)
int g_r0_lo, g_r0_hi, g_r1_lo, g_r1_hi, g_r2_lo, g_r2_hi, g_r3_lo, g_r3_hi, g_n1, g_n2, g_n3;
#define IDX_GROW0(lo, hi) (g_r0_lo = (lo), g_r0_hi = (hi))
#define IDX_GROW1(ra_, lo, hi)                                                                                        \
  do                                                                                                                  \
    {                                                                                                                 \
      __CPROVER_assert((ra_) >= g_r0_lo && (ra_) <= g_r0_hi, "fan_indices[ra] inside the outer range");               \
      if ((ra_) == g_ra) { g_r1_lo = (lo); g_r1_hi = (hi); ++g_n1; }                                                   \
    }                                                                                                                 \
  while (0)
#define IDX_GROW2(ra_, a_, lo, hi)                                                                                    \
  do                                                                                                                  \
    {                                                                                                                 \
      __CPROVER_assert((a_) >= 0 && (a_) <= num_detectors_per_ring - 1, "fan_indices[ra][a] inside the range of a");  \
      if ((ra_) == g_ra && (a_) == g_a) { g_r2_lo = (lo); g_r2_hi = (hi); ++g_n2; }                                    \
    }                                                                                                                 \
  while (0)
#define IDX_SET3(ra_, a_, rb_, lo, hi)                                                                                \
  do                                                                                                                  \
    {                                                                                                                 \
      __CPROVER_assert((rb_) >= K_max_int(ra_, K_max_int((ra_) - max_ring_diff, 0)) && (rb_) <= K_min_int((ra_) + max_ring_diff, num_rings - 1), "fan_indices[ra][a][rb] inside the range of rb"); \
      if ((ra_) == g_ra && (a_) == g_a && (rb_) == g_rb) { g_r3_lo = (lo); g_r3_hi = (hi); ++g_n3; }                  \
    }                                                                                                                 \
  while (0)
#define CTOR_ARGS_OK (FAN_N_OK(num_detectors_per_ring) && num_detectors_per_ring >= 2 && num_detectors_per_ring % 2 == 0 && num_rings >= 1 && num_rings <= 4096 \
                      && max_ring_diff >= 0 && max_ring_diff < num_rings && fan_size >= 0 && fan_size < num_detectors_per_ring)
#define G_IN (g_ra >= 0 && g_ra < num_rings && g_a >= 0 && g_a < num_detectors_per_ring)
#define G_RB_IN (g_rb >= g_ra && g_rb <= (g_ra + max_ring_diff < num_rings - 1 ? g_ra + max_ring_diff : num_rings - 1))
#define CONTRACT_K_fan_ctor                                                                                           \
  __CPROVER_requires(__CPROVER_is_fresh(self, sizeof(*self)) && CTOR_ARGS_OK && g_n1 == 0 && g_n2 == 0 && g_n3 == 0 && G_BOUNDED) \
  __CPROVER_assigns(*self, g_r0_lo, g_r0_hi, g_r1_lo, g_r1_hi, g_r2_lo, g_r2_hi, g_r3_lo, g_r3_hi, g_n1, g_n2, g_n3)   \
  __CPROVER_ensures(self->num_rings == num_rings && self->num_detectors_per_ring == num_detectors_per_ring && self->max_ring_diff == max_ring_diff && self->half_fan_size == fan_size / 2) \
  __CPROVER_ensures(g_r0_lo == 0 && g_r0_hi == num_rings - 1)                                                          \
  __CPROVER_ensures(G_IN ? (g_n1 == 1 && g_r1_lo == 0 && g_r1_hi == num_detectors_per_ring - 1 && g_n2 == 1 && g_r2_lo == g_ra && g_r2_hi == RBMAX(self, g_ra)) : (g_n2 == 0)) \
  __CPROVER_ensures((G_IN && G_RB_IN) ? (g_n3 == 1 && g_r3_lo == MINB(self, g_a) && g_r3_hi == MAXB(self, g_a)) : g_n3 == 0)
#define CT_DONE_RA(ra_) (g_ra >= 0 && g_ra < (ra_) && g_a >= 0 && g_a < num_detectors_per_ring)
#define LC_K_fan_ctor_0                                                                                               \
  __CPROVER_assigns(ra, g_r1_lo, g_r1_hi, g_r2_lo, g_r2_hi, g_r3_lo, g_r3_hi, g_n1, g_n2, g_n3)                        \
  __CPROVER_loop_invariant(ra >= 0 && ra <= num_rings)                                                                 \
  __CPROVER_loop_invariant(g_n1 == ((g_ra >= 0 && g_ra < ra) ? 1 : 0) && (g_n1 == 1 ==> (g_r1_lo == 0 && g_r1_hi == num_detectors_per_ring - 1))) \
  __CPROVER_loop_invariant(g_n2 == (CT_DONE_RA(ra) ? 1 : 0) && (g_n2 == 1 ==> (g_r2_lo == g_ra && g_r2_hi == (g_ra + max_ring_diff < num_rings - 1 ? g_ra + max_ring_diff : num_rings - 1)))) \
  __CPROVER_loop_invariant(g_n3 == ((CT_DONE_RA(ra) && G_RB_IN) ? 1 : 0) && (g_n3 == 1 ==> (g_r3_lo == g_a + num_detectors_per_ring / 2 - self->half_fan_size && g_r3_hi == g_a + num_detectors_per_ring / 2 + self->half_fan_size))) \
  __CPROVER_decreases(num_rings - ra)
#define CT_DONE_A(ra_, a_) ((g_ra >= 0 && g_ra < (ra_) && g_a >= 0 && g_a < num_detectors_per_ring) || (g_ra == (ra_) && g_a >= 0 && g_a < (a_)))
#define LC_K_fan_ctor_1                                                                                               \
  __CPROVER_assigns(a, g_r2_lo, g_r2_hi, g_r3_lo, g_r3_hi, g_n2, g_n3)                                                 \
  __CPROVER_loop_invariant(a >= 0 && a <= num_detectors_per_ring)                                                      \
  __CPROVER_loop_invariant(g_n2 == (CT_DONE_A(ra, a) ? 1 : 0) && (g_n2 == 1 ==> (g_r2_lo == g_ra && g_r2_hi == (g_ra + max_ring_diff < num_rings - 1 ? g_ra + max_ring_diff : num_rings - 1)))) \
  __CPROVER_loop_invariant(g_n3 == ((CT_DONE_A(ra, a) && G_RB_IN) ? 1 : 0) && (g_n3 == 1 ==> (g_r3_lo == g_a + num_detectors_per_ring / 2 - self->half_fan_size && g_r3_hi == g_a + num_detectors_per_ring / 2 + self->half_fan_size))) \
  __CPROVER_decreases(num_detectors_per_ring - a)
#define LC_K_fan_ctor_2                                                                                               \
  __CPROVER_assigns(rb, g_r3_lo, g_r3_hi, g_n3)                                                                        \
  __CPROVER_loop_invariant(rb >= ra && rb <= max_rb + 1)                                                               \
  __CPROVER_loop_invariant(g_n3 == (((CT_DONE_A(ra, a) && G_RB_IN) || (g_ra == ra && g_a == a && g_rb >= ra && g_rb < rb)) ? 1 : 0) \
                           && (g_n3 == 1 ==> (g_r3_lo == g_a + num_detectors_per_ring / 2 - self->half_fan_size && g_r3_hi == g_a + num_detectors_per_ring / 2 + self->half_fan_size))) \
  __CPROVER_decreases(max_rb + 1 - rb)

/* ---- GeoData3D: Array<4,float> [ra] in [0,A-1] (axial crystal in block), [a] in [0,H-1] (transaxial crystal in half block),
   [rb] in [ra, R-1] (only half stored), [b] in [a, a+N-1] (the whole ring, starting at a) ---- */
struct GEO { int num_axial_crystals_per_block, half_num_transaxial_crystals_per_block, num_rings, num_detectors_per_ring; };
#define GEO_VALID(s)                                                                                                  \
  ((s)->num_detectors_per_ring >= 2 && (s)->num_detectors_per_ring <= 4096 && (s)->num_rings >= 1 && (s)->num_rings <= 4096 \
   && (s)->num_axial_crystals_per_block >= 1 && (s)->num_axial_crystals_per_block <= (s)->num_rings                      \
   && (s)->half_num_transaxial_crystals_per_block >= 1 && (s)->half_num_transaxial_crystals_per_block <= (s)->num_detectors_per_ring)
#define GEO_IDX_OK(s, ra, a) ((ra) >= 0 && (ra) < (s)->num_axial_crystals_per_block && (a) >= 0 && (a) < (s)->half_num_transaxial_crystals_per_block)
int GEO_MIN_B(const struct GEO* self, int a)
__CPROVER_requires(GEO_VALID(self) && a >= 0 && a < self->half_num_transaxial_crystals_per_block)
__CPROVER_assigns()
__CPROVER_ensures(__CPROVER_return_value == a)
;
int GEO_MAX_B(const struct GEO* self, int a)
__CPROVER_requires(GEO_VALID(self) && a >= 0 && a < self->half_num_transaxial_crystals_per_block)
__CPROVER_assigns()
__CPROVER_ensures(__CPROVER_return_value == a + self->num_detectors_per_ring - 1)
;
int GEO_RB_MIN(const struct GEO* self, int ra, int a)
__CPROVER_requires(GEO_VALID(self) && GEO_IDX_OK(self, ra, a))
__CPROVER_assigns()
__CPROVER_ensures(__CPROVER_return_value == ra)
;
int GEO_RB_MAX(const struct GEO* self, int ra, int a)
__CPROVER_requires(GEO_VALID(self) && GEO_IDX_OK(self, ra, a))
__CPROVER_assigns()
__CPROVER_ensures(__CPROVER_return_value == self->num_rings - 1)
;
#define GEO_CELL_IN_RANGE(s, i0, i1, i2, i3) (GEO_IDX_OK(s, i0, i1) && (i2) >= (i0) && (i2) <= (s)->num_rings - 1 && (i3) >= (i1) && (i3) <= (i1) + (s)->num_detectors_per_ring - 1)
static inline float GEO_CELL(const struct GEO* self, int i0, int i1, int i2, int i3)
{
  __CPROVER_assert(GEO_CELL_IN_RANGE(self, i0, i1, i2, i3), "GeoData3D element addressed inside its index ranges");
  g_c0 = i0; g_c1 = i1; g_c2 = i2; g_c3 = i3; ++g_cells;
  return 0.F;
}
#define GEO_PAIR_OK(s, ra, a, rb, b) (GEO_IDX_OK(s, ra, a) && (rb) >= 0 && (rb) < (s)->num_rings && (b) >= 0 && (b) < (s)->num_detectors_per_ring)
/* is_in_data: the fan is the whole ring, so a pair with valid indices is in the data exactly when rb is in the stored half */
#define CONTRACT_K_geo_is_in_data                                                                                    \
  __CPROVER_requires(__CPROVER_is_fresh(self, sizeof(*self)) && GEO_VALID(self) && GEO_PAIR_OK(self, ra, a, rb, b))    \
  __CPROVER_assigns()                                                                                                  \
  __CPROVER_ensures(__CPROVER_return_value == ((rb >= ra) ? 1 : 0))
/* operator(): for a pair that is in the data the element addressed is inside the index ranges: [ra][a][rb][b or b+N] */
#define CONTRACT_K_geo_select                                                                                        \
  __CPROVER_requires(__CPROVER_is_fresh(self, sizeof(*self)) && GEO_VALID(self) && GEO_PAIR_OK(self, ra, a, rb, b) && rb >= ra && g_cells == 0) \
  __CPROVER_assigns(g_c0, g_c1, g_c2, g_c3, g_cells)                                                                   \
  __CPROVER_ensures(g_cells == 1 && GEO_CELL_IN_RANGE(self, g_c0, g_c1, g_c2, g_c3) && g_c0 == ra && g_c1 == a && g_c2 == rb \
                    && (g_c3 == b || g_c3 == b + self->num_detectors_per_ring))
/* constructor: the ranges it builds are the reader contracts above */
#define GEO_GROW2(ra_, a_, lo, hi)                                                                                    \
  do                                                                                                                  \
    {                                                                                                                 \
      __CPROVER_assert((a_) >= 0 && (a_) <= half_num_transaxial_crystals_per_block - 1, "fan_indices[ra][a] inside the range of a"); \
      if ((ra_) == g_ra && (a_) == g_a) { g_r2_lo = (lo); g_r2_hi = (hi); ++g_n2; }                                    \
    }                                                                                                                 \
  while (0)
#define GEO_SET3(ra_, a_, rb_, lo, hi)                                                                                \
  do                                                                                                                  \
    {                                                                                                                 \
      __CPROVER_assert((rb_) >= (ra_) && (rb_) <= num_rings - 1, "fan_indices[ra][a][rb] inside the range of rb");    \
      if ((ra_) == g_ra && (a_) == g_a && (rb_) == g_rb) { g_r3_lo = (lo); g_r3_hi = (hi); ++g_n3; }                  \
    }                                                                                                                 \
  while (0)
#define GG_IN (g_ra >= 0 && g_ra < num_axial_crystals_per_block && g_a >= 0 && g_a < half_num_transaxial_crystals_per_block)
#define GG_RB_IN (g_rb >= g_ra && g_rb <= num_rings - 1)
#define GEO_ARGS_OK (num_detectors_per_ring >= 2 && num_detectors_per_ring <= 4096 && num_rings >= 1 && num_rings <= 4096 && num_axial_crystals_per_block >= 1 \
                     && num_axial_crystals_per_block <= num_rings && half_num_transaxial_crystals_per_block >= 1 && half_num_transaxial_crystals_per_block <= num_detectors_per_ring)
#define CONTRACT_K_geo_ctor                                                                                           \
  __CPROVER_requires(__CPROVER_is_fresh(self, sizeof(*self)) && GEO_ARGS_OK && g_n1 == 0 && g_n2 == 0 && g_n3 == 0 && G_BOUNDED) \
  __CPROVER_assigns(*self, g_r0_lo, g_r0_hi, g_r1_lo, g_r1_hi, g_r2_lo, g_r2_hi, g_r3_lo, g_r3_hi, g_n1, g_n2, g_n3)   \
  __CPROVER_ensures(self->num_rings == num_rings && self->num_detectors_per_ring == num_detectors_per_ring            \
                    && self->num_axial_crystals_per_block == num_axial_crystals_per_block && self->half_num_transaxial_crystals_per_block == half_num_transaxial_crystals_per_block) \
  __CPROVER_ensures(g_r0_lo == 0 && g_r0_hi == num_axial_crystals_per_block - 1)                                       \
  __CPROVER_ensures(GG_IN ? (g_n1 == 1 && g_r1_lo == 0 && g_r1_hi == half_num_transaxial_crystals_per_block - 1 && g_n2 == 1 && g_r2_lo == g_ra && g_r2_hi == num_rings - 1) : (g_n2 == 0)) \
  __CPROVER_ensures((GG_IN && GG_RB_IN) ? (g_n3 == 1 && g_r3_lo == g_a && g_r3_hi == g_a + num_detectors_per_ring - 1) : g_n3 == 0)
#define GT_DONE_RA(ra_) (g_ra >= 0 && g_ra < (ra_) && g_a >= 0 && g_a < half_num_transaxial_crystals_per_block)
#define GT_DONE_A(ra_, a_) (GT_DONE_RA(ra_) || (g_ra == (ra_) && g_a >= 0 && g_a < (a_)))
#define G_R2_OK (g_n2 == 1 ==> (g_r2_lo == g_ra && g_r2_hi == num_rings - 1))
#define G_R3_OK (g_n3 == 1 ==> (g_r3_lo == g_a && g_r3_hi == g_a + num_detectors_per_ring - 1))
#define LC_K_geo_ctor_0                                                                                               \
  __CPROVER_assigns(ra, g_r1_lo, g_r1_hi, g_r2_lo, g_r2_hi, g_r3_lo, g_r3_hi, g_n1, g_n2, g_n3)                        \
  __CPROVER_loop_invariant(ra >= 0 && ra <= num_axial_crystals_per_block)                                              \
  __CPROVER_loop_invariant(g_n1 == ((g_ra >= 0 && g_ra < ra) ? 1 : 0) && (g_n1 == 1 ==> (g_r1_lo == 0 && g_r1_hi == half_num_transaxial_crystals_per_block - 1))) \
  __CPROVER_loop_invariant(g_n2 == (GT_DONE_RA(ra) ? 1 : 0) && G_R2_OK && g_n3 == ((GT_DONE_RA(ra) && GG_RB_IN) ? 1 : 0) && G_R3_OK) \
  __CPROVER_decreases(num_axial_crystals_per_block - ra)
#define LC_K_geo_ctor_1                                                                                               \
  __CPROVER_assigns(a, g_r2_lo, g_r2_hi, g_r3_lo, g_r3_hi, g_n2, g_n3)                                                 \
  __CPROVER_loop_invariant(a >= 0 && a <= half_num_transaxial_crystals_per_block)                                      \
  __CPROVER_loop_invariant(g_n2 == (GT_DONE_A(ra, a) ? 1 : 0) && G_R2_OK && g_n3 == ((GT_DONE_A(ra, a) && GG_RB_IN) ? 1 : 0) && G_R3_OK) \
  __CPROVER_decreases(half_num_transaxial_crystals_per_block - a)
#define LC_K_geo_ctor_2                                                                                               \
  __CPROVER_assigns(rb, g_r3_lo, g_r3_hi, g_n3)                                                                        \
  __CPROVER_loop_invariant(rb >= ra && rb <= num_rings)                                                                \
  __CPROVER_loop_invariant(g_n3 == (((GT_DONE_A(ra, a) && GG_RB_IN) || (g_ra == ra && g_a == a && g_rb >= ra && g_rb < rb)) ? 1 : 0) && G_R3_OK) \
  __CPROVER_decreases(num_rings - rb)

/* ---- apply / un-apply of block factors, efficiencies and geometric factors: the statement 'if (apply) x *= F; else x /= F;' ----
   From the property ("applying ... and un-applying them restores the data"): apply multiplies, un-apply divides, BY THE SAME FACTOR:
   the factor's index expressions are the same in both branches and are the ones the factor kind prescribes
   (block: crystal / crystals per block; efficiencies: the two detectors of the pair; geometric: the pair itself in the work array). */
#ifndef C20_N
#define C20_N 16
#endif
enum { OP_NONE, OP_MUL, OP_DIV };
int g_op, g_f0, g_f1, g_f2, g_f3, g_ops;
#define FACT4(i0, i1, i2, i3) (i0), (i1), (i2), (i3)
#define K_APPLY_OP(op, f) K_APPLY_OP5(op, f)
#define K_APPLY_OP5(op, i0, i1, i2, i3) (g_op = (op), g_f0 = (i0), g_f1 = (i1), g_f2 = (i2), g_f3 = (i3), ++g_ops)
#ifdef APPLY_KIND_block
#define APPLY_PRE (num_axial_crystals_per_block == C20_CA && num_tangential_crystals_per_block == C20_CT) /* parametric: job constants */
#define APPLY_F (g_f0 == ra / num_axial_crystals_per_block && g_f1 == a / num_tangential_crystals_per_block && g_f2 == rb / num_axial_crystals_per_block && g_f3 == b / num_tangential_crystals_per_block)
#elif defined(APPLY_KIND_eff)
#define APPLY_PRE (num_detectors_per_ring == C20_N)
#define APPLY_F (g_f0 == ra && g_f1 == a && g_f2 == rb && g_f3 == b % num_detectors_per_ring)
#else
#define APPLY_PRE (num_transaxial_detectors == C20_N)
#define APPLY_F (g_f0 == ra && g_f1 == a && g_f2 == rb && g_f3 == b % num_transaxial_detectors)
#endif
#define CONTRACT_K_apply_stmt                                                                                         \
  __CPROVER_requires(ra >= 0 && ra < 100000 && a >= 0 && a < 100000 && rb >= 0 && rb < 100000 && b >= 0 && b < 100000 && APPLY_PRE && g_ops == 0) \
  __CPROVER_assigns(g_op, g_f0, g_f1, g_f2, g_f3, g_ops)                                                               \
  __CPROVER_ensures(g_ops == 1 && g_op == (apply ? OP_MUL : OP_DIV) && APPLY_F)

/* ---- iterate_efficiencies (with model): the partner loop ----
   For every detector (ra,a) with non-zero fan sum the denominator accumulates, exactly once for every partner (rb,b) of the model's
   fan - rb in [max(ra-D,0), min(ra+D,R-1)], b in [a+N/2-h, a+N/2+h] -, the partner's efficiency [rb][b mod N] times model(ra,a,rb,b);
   then efficiencies[ra][a] = fan sum / denominator; a detector with zero fan sum gets efficiency 0. Ghost (g_ra,g_a,g_rb,g_b). */
int g_b, g_acc, g_acc_bad, g_set, g_set_kind;
_Bool g_data_zero; /* data_fan_sums[g_ra][g_a] == 0 */
static inline int K_fan_get_min_rb(const struct FAN* self, int ra) { return K_max_int(ra - self->max_ring_diff, 0); } /* FanProjData::get_min_rb as written */
_Bool EFF_DATA_ZERO(int ra, int a)
__CPROVER_assigns()
__CPROVER_ensures((ra == g_ra && a == g_a) ==> __CPROVER_return_value == g_data_zero)
;
#define EFF_SET(ra_, a_, kind)                                                                                        \
  do                                                                                                                  \
    {                                                                                                                 \
      __CPROVER_assert((ra_) >= 0 && (ra_) < self->num_rings && (a_) >= 0 && (a_) < FN(self), "efficiencies[ra][a] inside its ranges"); \
      if ((ra_) == g_ra && (a_) == g_a) { ++g_set; g_set_kind = (kind); }                                              \
    }                                                                                                                 \
  while (0)
#define EFF_ACCUM(erb, eb, mra, ma, mrb, mb)                                                                          \
  do                                                                                                                  \
    {                                                                                                                 \
      __CPROVER_assert((erb) >= 0 && (erb) < self->num_rings && (eb) >= 0 && (eb) < FN(self), "efficiencies[rb][b % N] inside its ranges"); \
      __CPROVER_assert((mra) == ra && (ma) == a && (mrb) == rb && (mb) == b && (erb) == rb && (eb) == b % FN(self), "partner efficiency and model element belong to the same pair"); \
      if (ra == g_ra && a == g_a && rb == g_rb && b == g_b) ++g_acc;                                                   \
    }                                                                                                                 \
  while (0)
#define EFF_GA_IN (g_ra >= 0 && g_ra < self->num_rings && g_a >= 0 && g_a < FN(self))
#define EFF_PARTNER_IN (g_rb >= (g_ra - self->max_ring_diff > 0 ? g_ra - self->max_ring_diff : 0)                      \
                        && g_rb <= (g_ra + self->max_ring_diff < self->num_rings - 1 ? g_ra + self->max_ring_diff : self->num_rings - 1) \
                        && g_b >= g_a + FN(self) / 2 - self->half_fan_size && g_b <= g_a + FN(self) / 2 + self->half_fan_size)
#define CONTRACT_K_iter_eff                                                                                           \
  __CPROVER_requires(__CPROVER_is_fresh(self, sizeof(*self)) && FAN_VALID(self) && G_BOUNDED && g_b > -100000 && g_b < 100000 && g_acc == 0 && g_set == 0) \
  __CPROVER_assigns(g_acc, g_set, g_set_kind)                                                                          \
  __CPROVER_ensures(g_set == (EFF_GA_IN ? 1 : 0) && (g_set == 1 ==> g_set_kind == (g_data_zero ? 0 : 1)))              \
  __CPROVER_ensures(g_acc == ((EFF_GA_IN && !g_data_zero && EFF_PARTNER_IN) ? 1 : 0))
#define EFF_DONE_RA(ra_) (g_ra >= 0 && g_ra < (ra_) && g_a >= 0 && g_a < FN(self))
#define EFF_DONE_A(ra_, a_) (EFF_DONE_RA(ra_) || (g_ra == (ra_) && g_a >= 0 && g_a < (a_)))
#define EFF_SET_OK (g_set == 1 ==> g_set_kind == (g_data_zero ? 0 : 1))
#define LC_K_iter_eff_0                                                                                               \
  __CPROVER_assigns(ra, g_acc, g_set, g_set_kind)                                                                      \
  __CPROVER_loop_invariant(ra >= 0 && ra <= self->num_rings)                                                           \
  __CPROVER_loop_invariant(g_set == (EFF_DONE_RA(ra) ? 1 : 0) && EFF_SET_OK && g_acc == ((EFF_DONE_RA(ra) && !g_data_zero && EFF_PARTNER_IN) ? 1 : 0)) \
  __CPROVER_decreases(self->num_rings - ra)
#define LC_K_iter_eff_1                                                                                               \
  __CPROVER_assigns(a, g_acc, g_set, g_set_kind)                                                                       \
  __CPROVER_loop_invariant(a >= 0 && a <= FN(self))                                                                    \
  __CPROVER_loop_invariant(g_set == (EFF_DONE_A(ra, a) ? 1 : 0) && EFF_SET_OK && g_acc == ((EFF_DONE_A(ra, a) && !g_data_zero && EFF_PARTNER_IN) ? 1 : 0)) \
  __CPROVER_decreases(FN(self) - a)
#define EFF_RB_LO (ra - self->max_ring_diff > 0 ? ra - self->max_ring_diff : 0)
#define EFF_RB_HI (ra + self->max_ring_diff < self->num_rings - 1 ? ra + self->max_ring_diff : self->num_rings - 1)
#define EFF_B_IN (g_b >= a + FN(self) / 2 - self->half_fan_size && g_b <= a + FN(self) / 2 + self->half_fan_size)
#define LC_K_iter_eff_2                                                                                               \
  __CPROVER_assigns(rb, g_acc)                                                                                         \
  __CPROVER_loop_invariant(rb >= EFF_RB_LO && rb <= EFF_RB_HI + 1)                                                     \
  __CPROVER_loop_invariant(g_acc == (((EFF_DONE_A(ra, a) && !g_data_zero && EFF_PARTNER_IN) || (g_ra == ra && g_a == a && g_rb >= EFF_RB_LO && g_rb < rb && EFF_B_IN)) ? 1 : 0)) \
  __CPROVER_decreases(EFF_RB_HI + 1 - rb)
#define LC_K_iter_eff_3                                                                                               \
  __CPROVER_assigns(b, g_acc)                                                                                          \
  __CPROVER_loop_invariant(b >= a + FN(self) / 2 - self->half_fan_size && b <= a + FN(self) / 2 + self->half_fan_size + 1) \
  __CPROVER_loop_invariant(g_acc == (((EFF_DONE_A(ra, a) && !g_data_zero && EFF_PARTNER_IN) || (g_ra == ra && g_a == a && g_rb >= EFF_RB_LO && g_rb < rb && EFF_B_IN) \
                                      || (g_ra == ra && g_a == a && g_rb == rb && g_b >= a + FN(self) / 2 - self->half_fan_size && g_b < b)) ? 1 : 0)) \
  __CPROVER_decreases(a + FN(self) / 2 + self->half_fan_size + 1 - b)

/* ---- make_block_data(BlockData3D&, const FanProjData&): the accumulation loops ----
   Every pair of the fan data's stored half (rb >= ra, b in the fan of a) is added exactly once, and to the block cell named by the four
   quotients (ra/Ca, a/Ct, rb/Ca, b/Ct); nothing is added from another element. Ghost pair (g_ra,g_a,g_rb,g_b); Ca, Ct job constants. */
int g_blk_bad;
#define BLK_FILL0() __CPROVER_assert(g_acc == 0, "block sums are zeroed before anything is added")
#define BLK_ACCUM(i0, i1, i2, i3, mra, ma, mrb, mb)                                                                   \
  do                                                                                                                  \
    {                                                                                                                 \
      __CPROVER_assert((mra) == ra && (ma) == a && (mrb) == rb && (mb) == b, "the element added is the loop's own pair"); \
      if (ra == g_ra && a == g_a && rb == g_rb && b == g_b)                                                            \
        {                                                                                                             \
          ++g_acc;                                                                                                    \
          if (!((i0) == g_ra / C20_CA && (i1) == g_a / C20_CT && (i2) == g_rb / C20_CA && (i3) == g_b / C20_CT)) g_blk_bad = 1; \
        }                                                                                                             \
    }                                                                                                                 \
  while (0)
#define BLK_RB_HI(r_) ((r_) + self->max_ring_diff < self->num_rings - 1 ? (r_) + self->max_ring_diff : self->num_rings - 1)
#define BLK_PARTNER_IN (g_rb >= g_ra && g_rb <= BLK_RB_HI(g_ra) && g_b >= g_a + FN(self) / 2 - self->half_fan_size && g_b <= g_a + FN(self) / 2 + self->half_fan_size)
#ifdef CANARY_K_make_block_data
#define BLK_POST(x) (!(x))
#else
#define BLK_POST(x) (x)
#endif
#define CONTRACT_K_make_block_data                                                                                    \
  __CPROVER_requires(__CPROVER_is_fresh(self, sizeof(*self)) && FAN_VALID(self) && G_BOUNDED && g_b > -100000 && g_b < 100000 && g_acc == 0 && g_blk_bad == 0) \
  __CPROVER_requires(num_axial_crystals_per_block == C20_CA && num_transaxial_crystals_per_block == C20_CT)            \
  __CPROVER_assigns(g_acc, g_blk_bad)                                                                                  \
  __CPROVER_ensures(BLK_POST(g_acc == ((EFF_GA_IN && BLK_PARTNER_IN) ? 1 : 0) && g_blk_bad == 0))
#define LC_K_make_block_data_0                                                                                        \
  __CPROVER_assigns(ra, g_acc, g_blk_bad)                                                                              \
  __CPROVER_loop_invariant(ra >= 0 && ra <= self->num_rings && g_blk_bad == 0)                                         \
  __CPROVER_loop_invariant(g_acc == ((EFF_DONE_RA(ra) && BLK_PARTNER_IN) ? 1 : 0))                                     \
  __CPROVER_decreases(self->num_rings - ra)
#define LC_K_make_block_data_1                                                                                        \
  __CPROVER_assigns(a, g_acc, g_blk_bad)                                                                               \
  __CPROVER_loop_invariant(a >= 0 && a <= FN(self) && g_blk_bad == 0)                                                  \
  __CPROVER_loop_invariant(g_acc == ((EFF_DONE_A(ra, a) && BLK_PARTNER_IN) ? 1 : 0))                                   \
  __CPROVER_decreases(FN(self) - a)
#define LC_K_make_block_data_2                                                                                        \
  __CPROVER_assigns(rb, g_acc, g_blk_bad)                                                                              \
  __CPROVER_loop_invariant(rb >= ra && rb <= BLK_RB_HI(ra) + 1 && g_blk_bad == 0)                                      \
  __CPROVER_loop_invariant(g_acc == (((EFF_DONE_A(ra, a) && BLK_PARTNER_IN) || (g_ra == ra && g_a == a && g_rb >= ra && g_rb < rb && EFF_B_IN)) ? 1 : 0)) \
  __CPROVER_decreases(BLK_RB_HI(ra) + 1 - rb)
#define LC_K_make_block_data_3                                                                                        \
  __CPROVER_assigns(b, g_acc, g_blk_bad)                                                                               \
  __CPROVER_loop_invariant(b >= a + FN(self) / 2 - self->half_fan_size && b <= a + FN(self) / 2 + self->half_fan_size + 1 && g_blk_bad == 0) \
  __CPROVER_loop_invariant(g_acc == (((EFF_DONE_A(ra, a) && BLK_PARTNER_IN) || (g_ra == ra && g_a == a && g_rb >= ra && g_rb < rb && EFF_B_IN) \
                                      || (g_ra == ra && g_a == a && g_rb == rb && g_b >= a + FN(self) / 2 - self->half_fan_size && g_b < b)) ? 1 : 0)) \
  __CPROVER_decreases(a + FN(self) / 2 + self->half_fan_size + 1 - b)

/* ---- FanProjData::sum(ra, a): the fan sum of one detector reads every partner (rb, b) of the fan exactly once, at (ra, a, rb, b mod N) ---- */
#define SUM_ACCUM(mra, ma, mrb, mb)                                                                                   \
  do                                                                                                                  \
    {                                                                                                                 \
      __CPROVER_assert((mra) == ra && (ma) == a && (mrb) == rb && (mb) == b % FN(self), "the element summed is the loop's own pair, second detector reduced modulo N"); \
      if (rb == g_rb && b == g_b) ++g_acc;                                                                             \
    }                                                                                                                 \
  while (0)
#define SUM_RB_LO (ra - self->max_ring_diff > 0 ? ra - self->max_ring_diff : 0)
#define SUM_IN (g_rb >= SUM_RB_LO && g_rb <= BLK_RB_HI(ra) && g_b >= a + FN(self) / 2 - self->half_fan_size && g_b <= a + FN(self) / 2 + self->half_fan_size)
#define CONTRACT_K_fan_sum                                                                                            \
  __CPROVER_requires(__CPROVER_is_fresh(self, sizeof(*self)) && FAN_VALID(self) && ra >= 0 && ra < self->num_rings && a >= 0 && a < FN(self)) \
  __CPROVER_requires(g_rb > -100000 && g_rb < 100000 && g_b > -100000 && g_b < 100000 && g_acc == 0)                   \
  __CPROVER_assigns(g_acc)                                                                                             \
  __CPROVER_ensures(g_acc == (SUM_IN ? 1 : 0))
#define LC_K_fan_sum_0                                                                                                \
  __CPROVER_assigns(rb, g_acc)                                                                                         \
  __CPROVER_loop_invariant(rb >= SUM_RB_LO && rb <= BLK_RB_HI(ra) + 1)                                                 \
  __CPROVER_loop_invariant(g_acc == ((g_rb >= SUM_RB_LO && g_rb < rb && g_b >= a + FN(self) / 2 - self->half_fan_size && g_b <= a + FN(self) / 2 + self->half_fan_size) ? 1 : 0)) \
  __CPROVER_decreases(BLK_RB_HI(ra) + 1 - rb)
#define LC_K_fan_sum_1                                                                                                \
  __CPROVER_assigns(b, g_acc)                                                                                          \
  __CPROVER_loop_invariant(b >= a + FN(self) / 2 - self->half_fan_size && b <= a + FN(self) / 2 + self->half_fan_size + 1) \
  __CPROVER_loop_invariant(g_acc == (((g_rb >= SUM_RB_LO && g_rb < rb && g_b >= a + FN(self) / 2 - self->half_fan_size && g_b <= a + FN(self) / 2 + self->half_fan_size) \
                                      || (g_rb == rb && g_b >= a + FN(self) / 2 - self->half_fan_size && g_b < b)) ? 1 : 0))   \
  __CPROVER_decreases(a + FN(self) / 2 + self->half_fan_size + 1 - b)

/* ---- make_fan_sum_data(Array<2,float>&, const FanProjData&): every detector (ra, a) receives the fan sum of exactly that detector, once ---- */
#define FANSUM_SET(i0, i1, sra, sa)                                                                                   \
  do                                                                                                                  \
    {                                                                                                                 \
      __CPROVER_assert((i0) >= 0 && (i0) < self->num_rings && (i1) >= 0 && (i1) < FN(self), "data_fan_sums[ra][a] inside its ranges"); \
      __CPROVER_assert((sra) == (i0) && (sa) == (i1), "the fan sum stored for a detector is that detector's own");     \
      if ((i0) == g_ra && (i1) == g_a) ++g_acc;                                                                        \
    }                                                                                                                 \
  while (0)
#define CONTRACT_K_make_fan_sum_data                                                                                  \
  __CPROVER_requires(__CPROVER_is_fresh(self, sizeof(*self)) && FAN_VALID(self) && G_BOUNDED && g_acc == 0)            \
  __CPROVER_assigns(g_acc)                                                                                             \
  __CPROVER_ensures(g_acc == (EFF_GA_IN ? 1 : 0))
#define LC_K_make_fan_sum_data_0                                                                                      \
  __CPROVER_assigns(ra, g_acc)                                                                                         \
  __CPROVER_loop_invariant(ra >= 0 && ra <= self->num_rings && g_acc == (EFF_DONE_RA(ra) ? 1 : 0))                     \
  __CPROVER_decreases(self->num_rings - ra)
#define LC_K_make_fan_sum_data_1                                                                                      \
  __CPROVER_assigns(a, g_acc)                                                                                          \
  __CPROVER_loop_invariant(a >= 0 && a <= FN(self) && g_acc == (EFF_DONE_A(ra, a) ? 1 : 0))                            \
  __CPROVER_decreases(FN(self) - a)

/* ---- FanProjData range accessors: the loop bounds of every apply_* / iterate_* / make_*_data function ----
   The stored index ranges (constructor kernel K_fan_ctor): level 0 [0,R-1]; level 1 [0,N-1]; level 2 of (ra,a): [ra, min(ra+D,R-1)];
   level 3 of (ra,a,rb): [a+N/2-h, a+N/2+h]. RNGk reads a stored range (index arguments must be inside the level above).
   From the class's use: get_max_rb(ra) is the largest ring paired with ring ra, min(ra+D, R-1) - it depends on ra;
   get_min_rb(ra) = max(ra-D, 0); get_min_b/get_max_b(a) the ends of a's fan; get_max_a = N-1; get_max_ra = R-1. */
#define RNG0(s, which) RNG0_##which(s)
#define RNG0_min(s) 0
#define RNG0_max(s) ((s)->num_rings - 1)
static inline int K_rng1(const struct FAN* self, int i0, int which_max)
{
  __CPROVER_assert(i0 >= 0 && i0 < self->num_rings, "(*this)[ra] inside the ring range");
  return which_max ? FN(self) - 1 : 0;
}
#define RNG1(s, i0, which) K_rng1(s, i0, RNG_IS_##which)
#define RNG_IS_min 0
#define RNG_IS_max 1
#define A_MIN_OF(s, i0) K_rng1(s, i0, 0)
static inline int K_rng2(const struct FAN* self, int i0, int i1, int which_max)
{
  __CPROVER_assert(i0 >= 0 && i0 < self->num_rings && i1 >= 0 && i1 < FN(self), "(*this)[ra][a] inside its ranges");
  return which_max ? RBMAX(self, i0) : i0;
}
#define RNG2(s, i0, i1, which) K_rng2(s, i0, i1, RNG_IS_##which)
#define RB_MIN_OF(s, i0, i1) K_rng2(s, i0, i1, 0)
static inline int K_rng3(const struct FAN* self, int i0, int i1, int i2, int which_max)
{
  __CPROVER_assert(i0 >= 0 && i0 < self->num_rings && i1 >= 0 && i1 < FN(self) && i2 >= i0 && i2 <= RBMAX(self, i0), "(*this)[ra][a][rb] inside its ranges");
  return which_max ? MAXB(self, i1) : MINB(self, i1);
}
#define RNG3(s, i0, i1, i2, which) K_rng3(s, i0, i1, i2, RNG_IS_##which)
#define ACC_PRE (__CPROVER_is_fresh(self, sizeof(*self)) && FAN_VALID(self))
#define CONTRACT_K_fan_get_max_rb __CPROVER_requires(ACC_PRE && ra >= 0 && ra < self->num_rings) __CPROVER_assigns() __CPROVER_ensures(__CPROVER_return_value == RBMAX(self, ra))
#define CONTRACT_K_fan_get_min_rb_acc __CPROVER_requires(ACC_PRE && ra >= 0 && ra < self->num_rings) __CPROVER_assigns() __CPROVER_ensures(__CPROVER_return_value == K_max_int(ra - self->max_ring_diff, 0))
#define CONTRACT_K_fan_get_min_b __CPROVER_requires(ACC_PRE && a >= 0 && a < FN(self)) __CPROVER_assigns() __CPROVER_ensures(__CPROVER_return_value == MINB(self, a))
#define CONTRACT_K_fan_get_max_b __CPROVER_requires(ACC_PRE && a >= 0 && a < FN(self)) __CPROVER_assigns() __CPROVER_ensures(__CPROVER_return_value == MAXB(self, a))
#define CONTRACT_K_fan_get_max_a __CPROVER_requires(ACC_PRE) __CPROVER_assigns() __CPROVER_ensures(__CPROVER_return_value == FN(self) - 1)
#define CONTRACT_K_fan_get_max_ra __CPROVER_requires(ACC_PRE) __CPROVER_assigns() __CPROVER_ensures(__CPROVER_return_value == self->num_rings - 1)
#endif
