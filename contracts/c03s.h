/* Contracts for C03, part S: set_up and clear_cache. From the property: "(a row is the same) ... for any order and repetition of requests, and
   after clearing the cache or setting the matrix up again for another geometry": no row cached for the old geometry may be served for the new
   one, and a set-up may be skipped only if NOTHING that determines a row has changed.
   The cache (VectorWithOffset<VectorWithOffset<map>>) is projected onto one ghost bucket (g_v, g_s): g_rows = number of rows it holds. */
#ifndef C03S_CONTRACTS_H
#define C03S_CONTRACTS_H
#include "contracts/prelude.h"
struct CACHE { int min_view, max_view, min_seg, max_seg; _Bool already_setup; };
int g_v, g_s, g_rows;          /* ghost bucket and the number of rows cached in it */
_Bool g_same_pdi, g_same_voxel_size, g_same_origin, g_same_max_index, g_same_min_index, g_skipped;
#define CACHE_OK(c) ((c)->min_view > -100000 && (c)->max_view < 100000 && (c)->min_view <= (c)->max_view + 1 && (c)->max_view > -100000                 \
                     && (c)->min_seg > -100000 && (c)->max_seg < 100000 && (c)->min_seg <= (c)->max_seg + 1 && (c)->max_seg > -100000)
#define BUCKET_IN(c) (g_v >= (c)->min_view && g_v <= (c)->max_view && g_s >= (c)->min_seg && g_s <= (c)->max_seg)
int BUCKET_ROW_min(const struct CACHE* self, int i)
__CPROVER_requires(i >= self->min_view && i <= self->max_view)
__CPROVER_assigns()
__CPROVER_ensures(__CPROVER_return_value == self->min_seg)
;
int BUCKET_ROW_max(const struct CACHE* self, int i)
__CPROVER_requires(i >= self->min_view && i <= self->max_view)
__CPROVER_assigns()
__CPROVER_ensures(__CPROVER_return_value == self->max_seg)
;
#define BUCKET_CLEAR(self, i, j)                                                                                      \
  do                                                                                                                  \
    {                                                                                                                 \
      __CPROVER_assert((i) >= (self)->min_view && (i) <= (self)->max_view && (j) >= (self)->min_seg && (j) <= (self)->max_seg, "cache_collection[i][j] inside its ranges"); \
      if ((i) == g_v && (j) == g_s)                                                                                   \
        g_rows = 0;                                                                                                   \
    }                                                                                                                 \
  while (0)
/* clear_cache: every bucket of the cache is emptied */
#define CONTRACT_K_pm_clear_cache                                                                                     \
  __CPROVER_requires(__CPROVER_is_fresh(self, sizeof(*self)) && CACHE_OK(self) && g_v > -100000 && g_v < 100000 && g_s > -100000 && g_s < 100000) \
  __CPROVER_assigns(g_rows)                                                                                            \
  __CPROVER_ensures(BUCKET_IN(self) ==> g_rows == 0)                                                                   \
  __CPROVER_ensures(!BUCKET_IN(self) ==> g_rows == __CPROVER_old(g_rows))
#define LC_K_pm_clear_cache_0                                                                                         \
  __CPROVER_assigns(i, g_rows)                                                                                         \
  __CPROVER_loop_invariant(i >= self->min_view && i <= self->max_view + 1)                                             \
  __CPROVER_loop_invariant((BUCKET_IN(self) && g_v < i) ? g_rows == 0 : g_rows == __CPROVER_loop_entry(g_rows))        \
  __CPROVER_decreases(self->max_view + 1 - i)
#define LC_K_pm_clear_cache_1                                                                                         \
  __CPROVER_assigns(j, g_rows)                                                                                         \
  __CPROVER_loop_invariant(j >= self->min_seg && j <= self->max_seg + 1)                                               \
  __CPROVER_loop_invariant((BUCKET_IN(self) && (g_v < i || (g_v == i && g_s < j))) ? g_rows == 0 : g_rows == __CPROVER_loop_entry(g_rows)) \
  __CPROVER_decreases(self->max_seg + 1 - j)
/* ProjMatrixByBin::set_up, cache part. VectorWithOffset semantics (C11): recycle() destroys all elements; resize(lo,hi) KEEPS the elements of
   the overlap of the old and new index ranges and default-constructs (empty maps) the others. Afterwards the cache has the new ranges and
   EVERY bucket is empty. */
_Bool g_recycled;
#define CACHE_RECYCLE(self) (g_recycled = 1, (self)->min_view = 0, (self)->max_view = -1)
#define CACHE_RESIZE_OUTER(self, lo, hi)                                                                              \
  do                                                                                                                  \
    {                                                                                                                 \
      /* the ghost bucket keeps its rows iff its view is in both the old and the new range */                        \
      if (!(g_v >= (self)->min_view && g_v <= (self)->max_view && g_v >= (lo) && g_v <= (hi)))                        \
        g_rows = 0;                                                                                                   \
      (self)->min_view = (lo); (self)->max_view = (hi);                                                               \
    }                                                                                                                 \
  while (0)
#define CACHE_RESIZE_ROW(self, v, lo, hi)                                                                             \
  do                                                                                                                  \
    {                                                                                                                 \
      __CPROVER_assert((v) >= (self)->min_view && (v) <= (self)->max_view, "cache_collection[view] inside its range");\
      if ((v) == g_v && !(g_s >= (self)->min_seg && g_s <= (self)->max_seg && g_s >= (lo) && g_s <= (hi)))           \
        g_rows = 0;                                                                                                   \
      if ((v) == g_v) g_row_resized = 1;                                                                              \
    }                                                                                                                 \
  while (0)
_Bool g_row_resized;
#define CONTRACT_K_pm_set_up_cache                                                                                    \
  __CPROVER_requires(__CPROVER_is_fresh(self, sizeof(*self)) && CACHE_OK(self) && g_v > -100000 && g_v < 100000 && g_s > -100000 && g_s < 100000 && g_rows >= 0) \
  __CPROVER_requires(min_view_num > -100000 && max_view_num < 100000 && min_view_num <= max_view_num && min_segment_num > -100000 && max_segment_num < 100000 && min_segment_num <= max_segment_num) \
  __CPROVER_assigns(self->min_view, self->max_view, self->min_seg, self->max_seg, g_rows, g_recycled, g_row_resized)   \
  __CPROVER_ensures(self->min_view == min_view_num && self->max_view == max_view_num)                                  \
  __CPROVER_ensures(g_rows == 0) /* nothing cached before the set-up survives it */
#define LC_K_pm_set_up_cache_0                                                                                        \
  __CPROVER_assigns(view_num, g_rows, g_row_resized)                                                                   \
  __CPROVER_loop_invariant(view_num >= min_view_num && view_num <= max_view_num + 1 && self->min_view == min_view_num && self->max_view == max_view_num) \
  __CPROVER_loop_invariant(g_rows == __CPROVER_loop_entry(g_rows) || g_rows == 0)                                      \
  __CPROVER_decreases(max_view_num + 1 - view_num)
/* ProjMatrixByBinUsingRayTracing::set_up may be skipped only when the data geometry, the voxel size, the origin AND the index range of the image are
   all unchanged */
#define CONTRACT_K_pmrt_set_up_skip                                                                                   \
  __CPROVER_requires(__CPROVER_is_fresh(self, sizeof(*self)) && CACHE_OK(self) && g_v > -100000 && g_v < 100000 && g_s > -100000 && g_s < 100000 && g_skipped == 0) \
  __CPROVER_assigns(g_skipped, g_rows)                                                                                 \
  __CPROVER_ensures(g_skipped ==> (self->already_setup && g_same_pdi && g_same_voxel_size && g_same_origin && g_same_max_index && g_same_min_index))
/* ... and when it is not skipped, it ends by marking the matrix as set up and emptying the cache */
#define CONTRACT_K_pmrt_set_up_tail                                                                                   \
  __CPROVER_requires(__CPROVER_is_fresh(self, sizeof(*self)) && CACHE_OK(self) && g_v > -100000 && g_v < 100000 && g_s > -100000 && g_s < 100000) \
  __CPROVER_assigns(self->already_setup, g_rows)                                                                       \
  __CPROVER_ensures(self->already_setup && (BUCKET_IN(self) ==> g_rows == 0))
#endif
