/* Contracts of the DataSymmetriesForBins_PET_CartesianGrid constructor kernels (shared by C03 and C06). Needs struct SYM, SYM_VALID and
   C03_MAXVIEWS / the including header's view bound. */
#ifndef SYMCTOR_CONTRACTS_H
#define SYMCTOR_CONTRACTS_H
/* ---- DataSymmetriesForBins_PET_CartesianGrid constructor: which switches survive (cylindrical scanners) ----
   Conditions on floats / dynamic_casts are nondeterministic (K_float_cond); error() returns with g_error.
   From the way the class is used by C03/C06 (SYM_VALID, TOF_OK - until now ASSUMED "as read from the constructor"):
   after a constructor that did not report an error, 90 => (180 and num_views % 4 == 0), 180 => num_views % 2 == 0, TOF data =>
   no rotational symmetry, no segment swapping, no swap_s; no switch is ever turned ON that was not requested. */
_Bool g_is_subset, g_is_tof;
int g_pdi_num_views, g_num_segment_pairs, g_error;
static inline _Bool K_float_cond(void) { return nondet_bool(); } /* a condition on floats / dynamic types: either outcome */
#define K_THROW_VOID                                                                                                  \
  do                                                                                                                  \
    {                                                                                                                 \
      g_error = 1;                                                                                                    \
      return;                                                                                                         \
    }                                                                                                                 \
  while (0)
#define CONTRACT_K_sym_ctor_init                                                                                      \
  __CPROVER_requires(__CPROVER_is_fresh(self, sizeof(*self)) && g_error == 0)                                          \
  __CPROVER_assigns(*self, g_error)                                                                                    \
  __CPROVER_ensures(!self->do_symmetry_90degrees_min_phi || self->do_symmetry_180degrees_min_phi)                      \
  __CPROVER_ensures((self->do_symmetry_90degrees_min_phi ==> do_symmetry_90degrees_min_phi_v)                          \
                    && (self->do_symmetry_180degrees_min_phi ==> (do_symmetry_90degrees_min_phi_v || do_symmetry_180degrees_min_phi_v)) \
                    && self->do_symmetry_swap_segment == do_symmetry_swap_segment_v && self->do_symmetry_swap_s == do_symmetry_swap_s_v \
                    && self->do_symmetry_shift_z == do_symmetry_shift_z_v)                                             \
  __CPROVER_ensures((g_is_subset && !g_error) ==> (!self->do_symmetry_90degrees_min_phi && !self->do_symmetry_180degrees_min_phi))
#define FLAGS_90_180(s) (!(s)->do_symmetry_90degrees_min_phi || (s)->do_symmetry_180degrees_min_phi)
#define CONTRACT_K_sym_ctor_flags                                                                                     \
  __CPROVER_requires(__CPROVER_is_fresh(self, sizeof(*self)) && g_error == 0 && FLAGS_90_180(self) && g_pdi_num_views >= 1 && g_pdi_num_views <= C03_MAXVIEWS \
                     && g_num_segment_pairs >= 0 && g_num_segment_pairs < 100000)                                      \
  __CPROVER_assigns(*self, g_error)                                                                                    \
  __CPROVER_ensures(!g_error ==> (self->num_views == g_pdi_num_views && SYM_VALID(self)))                              \
  __CPROVER_ensures((!g_error && g_is_tof) ==> (!self->do_symmetry_90degrees_min_phi && !self->do_symmetry_180degrees_min_phi \
                                                 && !self->do_symmetry_swap_segment && !self->do_symmetry_swap_s))     \
  __CPROVER_ensures((self->do_symmetry_90degrees_min_phi ==> __CPROVER_old(self->do_symmetry_90degrees_min_phi))       \
                    && (self->do_symmetry_180degrees_min_phi ==> __CPROVER_old(self->do_symmetry_180degrees_min_phi))  \
                    && (self->do_symmetry_swap_segment ==> __CPROVER_old(self->do_symmetry_swap_segment))              \
                    && (self->do_symmetry_swap_s ==> __CPROVER_old(self->do_symmetry_swap_s))                          \
                    && self->do_symmetry_shift_z == __CPROVER_old(self->do_symmetry_shift_z))
#define LC_K_sym_ctor_flags_0                                                                                         \
  __CPROVER_assigns(segment_num, g_error)                                                                              \
  __CPROVER_loop_invariant(segment_num >= 1 && segment_num <= g_num_segment_pairs + 1 && g_error == 0)                 \
  __CPROVER_decreases(g_num_segment_pairs + 1 - segment_num)
#endif
