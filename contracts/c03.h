/* Contracts for C03 (index/bookkeeping core of the system-matrix cache). */
#ifndef C03_CONTRACTS_H
#define C03_CONTRACTS_H
#include "contracts/prelude.h"
#include "c03_consts.h" /* generated: axial_pos_bits, tang_pos_bits, timing_pos_bits scraped from ProjMatrixByBin.h */

typedef uint64_t CacheKey;
struct Bin { int segment_num; int view_num; int axial_pos_num; int tangential_pos_num; int timing_pos_num; };
static inline int K_abs_int(int x) { return x < 0 ? -x : x; }
#define abs(x) K_abs_int(x)

#define ONE ((CacheKey)1)
#define KEY_IN_DOMAIN(b)                                                                                              \
  ((b)->axial_pos_num > -(1L << axial_pos_bits) && (b)->axial_pos_num < (1L << axial_pos_bits)                        \
   && (b)->tangential_pos_num > -(1L << tang_pos_bits) && (b)->tangential_pos_num < (1L << tang_pos_bits)             \
   && (b)->timing_pos_num > -(1L << timing_pos_bits) && (b)->timing_pos_num < (1L << timing_pos_bits))
/* decoders: the specification of the key layout (sign bit + magnitude per coordinate, no overlap, fits in 64 bits) */
#define DEC_MAG(k, shift, bits) ((long)(((k) >> (shift)) & ((ONE << (bits)) - 1)))
#define DEC_SGN(k, shift) ((int)(((k) >> (shift)) & 1))
#define TOF_MAG(k) DEC_MAG(k, 0, timing_pos_bits)
#define TOF_SGN(k) DEC_SGN(k, timing_pos_bits)
#define TANG_MAG(k) DEC_MAG(k, timing_pos_bits + 1, tang_pos_bits)
#define TANG_SGN(k) DEC_SGN(k, timing_pos_bits + tang_pos_bits + 1)
#define AX_MAG(k) DEC_MAG(k, timing_pos_bits + tang_pos_bits + 2, axial_pos_bits)
#define AX_SGN(k) DEC_SGN(k, timing_pos_bits + tang_pos_bits + axial_pos_bits + 2)

#define CONTRACT_K_cache_key                                                                                         \
  __CPROVER_requires(__CPROVER_is_fresh(bin, sizeof(*bin)) && KEY_IN_DOMAIN(bin))                                      \
  __CPROVER_assigns()                                                                                                  \
  __CPROVER_ensures(timing_pos_bits + tang_pos_bits + axial_pos_bits + 3 <= 64)                                        \
  __CPROVER_ensures(TOF_MAG(__CPROVER_return_value) == K_abs_int(bin->timing_pos_num) && TOF_SGN(__CPROVER_return_value) == (bin->timing_pos_num < 0)) \
  __CPROVER_ensures(TANG_MAG(__CPROVER_return_value) == K_abs_int(bin->tangential_pos_num) && TANG_SGN(__CPROVER_return_value) == (bin->tangential_pos_num < 0)) \
  __CPROVER_ensures(AX_MAG(__CPROVER_return_value) == K_abs_int(bin->axial_pos_num) && AX_SGN(__CPROVER_return_value) == (bin->axial_pos_num < 0)) \
  __CPROVER_ensures((__CPROVER_return_value >> (timing_pos_bits + tang_pos_bits + axial_pos_bits + 3)) == 0)

/* ---------------- cache protocol of get_proj_matrix_elems_for_one_bin (K03d) ----------------
   Rows are abstract: the bin a row is labelled with and a content id.  Ghost constants chosen by the harness:
     g_B      the requested bin                 g_BB   its basic bin            g_OP  its symmetry operation id
     g_RAW    id of "row of g_BB as computed by calculate_proj_matrix_elems_for_one_bin"
     g_F      id of that row after the TOF kernel (== g_RAW when TOF is not enabled)
     g_FULL   id of g_F transformed by g_OP  == the row the property says the caller must receive for g_B
   ASSUMED about the symmetries (the protocol relies on it): a bin that is its own basic bin gets the trivial operation,
   and the trivial operation leaves a row unchanged (g_B == g_BB  ==>  g_OP trivial and g_FULL == g_F).
   All callee contracts below are ASSUMED (virtual functions / std::unordered_map); what is proved is that the real
   protocol code delivers g_FULL labelled g_B in every cache mode and keeps the cache invariant. */
struct Row { struct Bin bin; long content; };
struct PM { _Bool cache_stores_only_basic_bins; _Bool cache_disabled; _Bool tof_data; _Bool tof_enabled; };
#define BIN_EQ(a, b) ((a).segment_num == (b).segment_num && (a).view_num == (b).view_num && (a).axial_pos_num == (b).axial_pos_num \
                      && (a).tangential_pos_num == (b).tangential_pos_num && (a).timing_pos_num == (b).timing_pos_num)
struct Bin g_B, g_BB;
int g_OP;
long g_RAW, g_F, g_FULL;
int g_inserted; /* ghost counter: number of cache insertions */
#define TRIVIAL_OP 0
#define GHOSTS_OK(self)                                                                                               \
  (((self)->tof_data && (self)->tof_enabled) || g_F == g_RAW) && (!BIN_EQ(g_B, g_BB) || (g_OP == TRIVIAL_OP && g_FULL == g_F))
/* cache invariant: what a hit for a row labelled `b` returns */
#define CACHED_CONTENT_OK(self, row)                                                                                  \
  ((self)->cache_stores_only_basic_bins ? (BIN_EQ((row)->bin, g_BB) && (row)->content == g_F)                          \
                                        : (BIN_EQ((row)->bin, g_B) ? (row)->content == g_FULL                         \
                                                                   : (BIN_EQ((row)->bin, g_BB) && (row)->content == g_F)))

void K_row_erase(struct Row* r) __CPROVER_requires(__CPROVER_is_fresh(r, sizeof(*r))) __CPROVER_assigns(r->content) __CPROVER_ensures(1);
void K_row_set_bin(struct Row* r, const struct Bin* b)
__CPROVER_requires(__CPROVER_is_fresh(r, sizeof(*r)) && __CPROVER_is_fresh(b, sizeof(*b)))
__CPROVER_assigns(r->bin) __CPROVER_ensures(BIN_EQ(r->bin, *b));
/* symmetries_sptr->find_symmetry_operation_from_basic_bin(b): only ever called on the requested bin */
int K_find_symmetry_operation_from_basic_bin(struct Bin* b)
__CPROVER_requires(__CPROVER_is_fresh(b, sizeof(*b)) && BIN_EQ(*b, g_B))
__CPROVER_assigns(*b) __CPROVER_ensures(BIN_EQ(*b, g_BB) && __CPROVER_return_value == g_OP);
/* get_cached_proj_matrix_elems_for_one_bin: miss, or a hit that satisfies the cache invariant */
int K_get_cached(const struct PM* self, struct Row* r)
__CPROVER_requires(__CPROVER_is_fresh(self, sizeof(*self)) && __CPROVER_is_fresh(r, sizeof(*r)))
__CPROVER_requires(BIN_EQ(r->bin, g_B) || BIN_EQ(r->bin, g_BB))
__CPROVER_requires(!self->cache_stores_only_basic_bins || BIN_EQ(r->bin, g_BB))
__CPROVER_assigns(r->content)
__CPROVER_ensures(__CPROVER_return_value == 0 || __CPROVER_return_value == 1)
__CPROVER_ensures(self->cache_disabled ==> __CPROVER_return_value == 0)
__CPROVER_ensures(__CPROVER_return_value == 1 ==> CACHED_CONTENT_OK(self, r));
/* cache_proj_matrix_elems_for_one_bin: the REQUIRES is the proof obligation that keeps the cache invariant */
void K_cache_insert(const struct PM* self, const struct Row* r)
__CPROVER_requires(__CPROVER_is_fresh(self, sizeof(*self)) && __CPROVER_is_fresh(r, sizeof(*r)))
__CPROVER_requires(CACHED_CONTENT_OK(self, r))
__CPROVER_assigns(g_inserted) __CPROVER_ensures(g_inserted == __CPROVER_old(g_inserted) + 1);
/* calculate_proj_matrix_elems_for_one_bin (pure virtual): only meaningful on the basic bin */
void K_calculate(const struct PM* self, struct Row* r)
__CPROVER_requires(__CPROVER_is_fresh(self, sizeof(*self)) && __CPROVER_is_fresh(r, sizeof(*r)) && BIN_EQ(r->bin, g_BB))
__CPROVER_assigns(r->content) __CPROVER_ensures(r->content == g_RAW);
void K_apply_tof_kernel(const struct PM* self, struct Row* r)
__CPROVER_requires(__CPROVER_is_fresh(self, sizeof(*self)) && __CPROVER_is_fresh(r, sizeof(*r)) && BIN_EQ(r->bin, g_BB) && r->content == g_RAW)
__CPROVER_requires(self->tof_data && self->tof_enabled)
__CPROVER_assigns(r->content) __CPROVER_ensures(r->content == g_F);
/* symm_ptr->transform_proj_matrix_elems_for_one_bin */
void K_transform_row(int op, struct Row* r)
__CPROVER_requires(__CPROVER_is_fresh(r, sizeof(*r)) && op == g_OP && BIN_EQ(r->bin, g_BB) && r->content == g_F)
__CPROVER_assigns(*r) __CPROVER_ensures(BIN_EQ(r->bin, g_B) && r->content == g_FULL);

#define CONTRACT_K_get_proj_matrix_elems_for_one_bin                                                                  \
  __CPROVER_requires(__CPROVER_is_fresh(self, sizeof(*self)) && __CPROVER_is_fresh(probabilities, sizeof(*probabilities)) \
                     && __CPROVER_is_fresh(bin, sizeof(*bin)))                                                         \
  __CPROVER_requires(BIN_EQ(*bin, g_B) && GHOSTS_OK(self) && g_inserted == 0)                                          \
  __CPROVER_assigns(*probabilities, g_inserted)                                                                        \
  /* the row returned is the one the property prescribes, whatever the cache mode, hit or miss */                     \
  __CPROVER_ensures(BIN_EQ(probabilities->bin, g_B) && probabilities->content == g_FULL)                               \
  __CPROVER_ensures(g_inserted <= 1)                                                                                   \
  __CPROVER_ensures(self->cache_disabled || 1)
#endif
