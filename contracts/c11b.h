/* Contracts for C11, part 2: Array<num_dimensions>=2..>::is_contiguous (Array.inl).
   The sub-arrays (*this)[i] are represented by what the function reads of them: whether they are contiguous themselves,
   their total number of elements and the address of their first element (in element units). At most ARR_MAXSUB sub-arrays
   per proof (the loop itself is closed by a loop contract). */
#ifndef C11B_CONTRACTS_H
#define C11B_CONTRACTS_H
#include "contracts/prelude.h"
#define ARR_MAXSUB 8
struct ARRN
{
  int min_index, max_index;            /* get_min_index(), get_max_index() of the outer VectorWithOffset */
  _Bool sub_contig[ARR_MAXSUB];        /* (*this)[i].is_contiguous() */
  long sub_size[ARR_MAXSUB];           /* (*this)[i].size_all() */
  long sub_addr[ARR_MAXSUB];           /* &(*(*this)[i].begin_all()) */
};
#define ARR_N(s) ((s)->max_index - (s)->min_index + 1)
#define ARR_VALID(s) ((s)->min_index > -100000 && (s)->min_index <= (s)->max_index && (s)->max_index < 100000 && ARR_N(s) <= ARR_MAXSUB)
static inline int K_sub_idx(const struct ARRN* self, int i)
{
  __CPROVER_assert(i >= self->min_index && i <= self->max_index, "(*this)[i] indexed inside the array's index range");
  return i - self->min_index;
}
#define SUBARR_CONTIG(self, i) ((self)->sub_contig[K_sub_idx(self, i)])
#define SUBARR_SIZE(self, i) ((self)->sub_size[K_sub_idx(self, i)])
#define SUBARR_ADDR(self, i) ((self)->sub_addr[K_sub_idx(self, i)])
/* &(*this->begin_all()): the first element of the whole array is the first element of the first sub-array (ASSUMED:
   first sub-array not empty) */
#define ARR_BEGIN_ALL_ADDR(self) ((self)->sub_addr[0])
/* From the property ("arrays that view shared memory alias it exactly", "size ... reflect the contents"): the array is one
   block iff every sub-array is one block and each sub-array starts right where the previous one ends */
#define SUB_OK(s, k) (!((k) < ARR_N(s)) || ((s)->sub_contig[k] && (!((k) + 1 < ARR_N(s)) || (s)->sub_addr[(k) + 1] == (s)->sub_addr[k] + (s)->sub_size[k])))
#define ALL_SUBS_OK(s) (SUB_OK(s, 0) && SUB_OK(s, 1) && SUB_OK(s, 2) && SUB_OK(s, 3) && SUB_OK(s, 4) && SUB_OK(s, 5) && SUB_OK(s, 6) && SUB_OK(s, 7))
#define SIZES_OK(s, k) (!((k) < ARR_N(s)) || ((s)->sub_size[k] >= 0 && (s)->sub_size[k] < (1L << 40) && (s)->sub_addr[k] >= 0 && (s)->sub_addr[k] < (1L << 44)))
#define ALL_SIZES_OK(s) (SIZES_OK(s, 0) && SIZES_OK(s, 1) && SIZES_OK(s, 2) && SIZES_OK(s, 3) && SIZES_OK(s, 4) && SIZES_OK(s, 5) && SIZES_OK(s, 6) && SIZES_OK(s, 7))
#define CONTRACT_K_arr_is_contiguous                                                                                 \
  __CPROVER_requires(__CPROVER_is_fresh(self, sizeof(*self)) && ARR_VALID(self) && ALL_SIZES_OK(self))                 \
  __CPROVER_assigns()                                                                                                  \
  __CPROVER_ensures(__CPROVER_return_value == (ALL_SUBS_OK(self) ? 1 : 0))
/* invariant: everything before i is fine, and mem is where sub-array i has to start */
#define PREFIX_OK(s, k, upto) (!((k) < (upto)) || SUB_OK(s, k))
#define ALL_PREFIX_OK(s, upto) (PREFIX_OK(s, 0, upto) && PREFIX_OK(s, 1, upto) && PREFIX_OK(s, 2, upto) && PREFIX_OK(s, 3, upto) && PREFIX_OK(s, 4, upto) \
                                && PREFIX_OK(s, 5, upto) && PREFIX_OK(s, 6, upto) && PREFIX_OK(s, 7, upto))
#define LC_K_arr_is_contiguous_0                                                                                     \
  __CPROVER_assigns(i, mem)                                                                                            \
  __CPROVER_loop_invariant(self->min_index <= i && i <= self->max_index + 1)                                           \
  __CPROVER_loop_invariant(ALL_PREFIX_OK(self, i - self->min_index))                                                   \
  __CPROVER_loop_invariant(i <= self->max_index ==> mem == self->sub_addr[i - self->min_index])                        \
  __CPROVER_decreases(self->max_index + 1 - i)

/* ---- Array<n>::init(range, data_ptr, copy_data) and Array<n>::resize(range), n >= 2 ----
   The outer VectorWithOffset::resize delivers the requested index range (tier A kernel K_vwo_resize); the loop walks the sub-arrays and the
   sub-ranges in lockstep. init: sub-array k views the block that starts where sub-array k-1 ends, the first one starts at data_ptr, each has
   the size of its sub-range - so the array aliases [data_ptr, data_ptr + total size) exactly and is_contiguous() (ALL_SUBS_OK) holds.
   Sub-array init/resize themselves: the same statement one dimension down (Array<1>: VectorWithOffset::init / K_arr1_resize). */
struct RANGEN { int min_index, max_index; long sub_size[ARR_MAXSUB]; }; /* IndexRange<n>: outer range and size_all() of every sub-range */
int g_k, g_sub_calls, g_sub_bad;
static inline void K_outer_resize(struct ARRN* self, int mn, int mx) { self->min_index = mn; self->max_index = mx; } /* base_type::resize: contract of K_vwo_resize */
#define RANGE_OK(r) ((r)->min_index > -100000 && (r)->min_index <= (r)->max_index && (r)->max_index < 100000 && (r)->max_index - (r)->min_index + 1 <= ARR_MAXSUB)
#define RSZ_OK(r, k) ((r)->sub_size[k] >= 0 && (r)->sub_size[k] < (1L << 40))
#define ALL_RSZ_OK(r) (RSZ_OK(r, 0) && RSZ_OK(r, 1) && RSZ_OK(r, 2) && RSZ_OK(r, 3) && RSZ_OK(r, 4) && RSZ_OK(r, 5) && RSZ_OK(r, 6) && RSZ_OK(r, 7))
#define K_SUB_INIT(self, it, rit, p, copy)                                                                            \
  do                                                                                                                  \
    {                                                                                                                 \
      __CPROVER_assert((it) >= 0 && (it) < ARR_N(self) && (rit) == (it), "sub-array and sub-range iterators in lockstep, inside the array"); \
      (self)->sub_addr[it] = (p); (self)->sub_size[it] = range->sub_size[rit]; (self)->sub_contig[it] = 1;             \
    }                                                                                                                 \
  while (0)
#define RANGE_SIZE(r, rit) ((r)->sub_size[rit])
#define INIT_SUB_DONE(s, r, d, k, upto)                                                                               \
  (!((k) < (upto)) || ((s)->sub_contig[k] && (s)->sub_size[k] == (r)->sub_size[k]                                      \
                       && (s)->sub_addr[k] == ((k) == 0 ? (d) : (s)->sub_addr[(k) > 0 ? (k)-1 : 0] + (s)->sub_size[(k) > 0 ? (k)-1 : 0])))
#define ALL_INIT_DONE(s, r, d, upto)                                                                                  \
  (INIT_SUB_DONE(s, r, d, 0, upto) && INIT_SUB_DONE(s, r, d, 1, upto) && INIT_SUB_DONE(s, r, d, 2, upto) && INIT_SUB_DONE(s, r, d, 3, upto)     \
   && INIT_SUB_DONE(s, r, d, 4, upto) && INIT_SUB_DONE(s, r, d, 5, upto) && INIT_SUB_DONE(s, r, d, 6, upto) && INIT_SUB_DONE(s, r, d, 7, upto))
#define CONTRACT_K_arrn_init                                                                                         \
  __CPROVER_requires(__CPROVER_is_fresh(self, sizeof(*self)) && __CPROVER_is_fresh(range, sizeof(*range)) && RANGE_OK(range) && ALL_RSZ_OK(range)) \
  __CPROVER_requires(data_ptr >= 0 && data_ptr < (1L << 43))                                                           \
  __CPROVER_assigns(*self)                                                                                             \
  __CPROVER_ensures(self->min_index == range->min_index && self->max_index == range->max_index)                        \
  __CPROVER_ensures(ALL_INIT_DONE(self, range, data_ptr, ARR_N(self)))                                                 \
  __CPROVER_ensures(ALL_SUBS_OK(self) && self->sub_addr[0] == data_ptr)
#define LC_K_arrn_init_0                                                                                             \
  __CPROVER_assigns(iter, range_iter, ptr, __CPROVER_object_whole(self))                                               \
  __CPROVER_loop_invariant(self->min_index == range->min_index && self->max_index == range->max_index)                 \
  __CPROVER_loop_invariant(0 <= iter && iter <= ARR_N(self) && range_iter == iter)                                     \
  __CPROVER_loop_invariant(ALL_INIT_DONE(self, range, data_ptr, iter))                                                 \
  __CPROVER_loop_invariant(ptr == (iter == 0 ? data_ptr : self->sub_addr[iter > 0 ? iter - 1 : 0] + self->sub_size[iter > 0 ? iter - 1 : 0])) \
  __CPROVER_decreases(ARR_N(self) - iter)
#define K_SUB_RESIZE(self, it, rit)                                                                                   \
  do                                                                                                                  \
    {                                                                                                                 \
      __CPROVER_assert((it) >= 0 && (it) < ARR_N(self) && (rit) >= 0 && (rit) < ARR_N(self), "sub-array and sub-range iterators inside their sequences"); \
      if ((it) == g_k) { ++g_sub_calls; if ((rit) != g_k) g_sub_bad = 1; }                                             \
      (self)->sub_size[it] = range->sub_size[rit];                                                                     \
    }                                                                                                                 \
  while (0)
#define CONTRACT_K_arrn_resize                                                                                       \
  __CPROVER_requires(__CPROVER_is_fresh(self, sizeof(*self)) && __CPROVER_is_fresh(range, sizeof(*range)) && RANGE_OK(range) && ALL_RSZ_OK(range)) \
  __CPROVER_requires(g_sub_calls == 0 && g_sub_bad == 0 && g_k > -100000 && g_k < 100000)                              \
  __CPROVER_assigns(*self, g_sub_calls, g_sub_bad)                                                                     \
  __CPROVER_ensures(self->min_index == range->min_index && self->max_index == range->max_index)                        \
  /* every sub-array is resized exactly once, with the sub-range of its own index */                                \
  __CPROVER_ensures(g_sub_bad == 0 && g_sub_calls == ((g_k >= 0 && g_k < ARR_N(self)) ? 1 : 0))                        \
  __CPROVER_ensures(!(g_k >= 0 && g_k < ARR_N(self)) || self->sub_size[g_k] == range->sub_size[g_k])
#define LC_K_arrn_resize_0                                                                                           \
  __CPROVER_assigns(iter, range_iter, __CPROVER_object_whole(self), g_sub_calls, g_sub_bad)                            \
  __CPROVER_loop_invariant(self->min_index == range->min_index && self->max_index == range->max_index)                 \
  __CPROVER_loop_invariant(0 <= iter && iter <= ARR_N(self) && range_iter == iter && g_sub_bad == 0)                   \
  __CPROVER_loop_invariant(g_sub_calls == ((g_k >= 0 && g_k < iter) ? 1 : 0))                                          \
  __CPROVER_loop_invariant(!(g_k >= 0 && g_k < iter) || self->sub_size[g_k] == range->sub_size[g_k])                   \
  __CPROVER_decreases(ARR_N(self) - iter)
#endif
