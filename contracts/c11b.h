/* Contracts for C11, part 2: Array<num_dimensions>=2..>::is_contiguous (Array.inl).
   The sub-arrays (*this)[i] are represented by what the function reads of them: whether they are contiguous themselves,
   their total number of elements and the address of their first element (in element units). At most ARR_MAXSUB sub-arrays
   per proof (the loop itself is closed by a loop contract). */
#ifndef C11B_CONTRACTS_H
#define C11B_CONTRACTS_H
#include "contracts/prelude.h"
#define ARR_MAXSUB 8
struct ARRN
{
  int min_index, max_index;            /* get_min_index(), get_max_index() of the outer VectorWithOffset */
  _Bool sub_contig[ARR_MAXSUB];        /* (*this)[i].is_contiguous() */
  long sub_size[ARR_MAXSUB];           /* (*this)[i].size_all() */
  long sub_addr[ARR_MAXSUB];           /* &(*(*this)[i].begin_all()) */
};
#define ARR_N(s) ((s)->max_index - (s)->min_index + 1)
#define ARR_VALID(s) ((s)->min_index > -100000 && (s)->min_index <= (s)->max_index && (s)->max_index < 100000 && ARR_N(s) <= ARR_MAXSUB)
static inline int K_sub_idx(const struct ARRN* self, int i)
{
  __CPROVER_assert(i >= self->min_index && i <= self->max_index, "(*this)[i] indexed inside the array's index range");
  return i - self->min_index;
}
#define SUBARR_CONTIG(self, i) ((self)->sub_contig[K_sub_idx(self, i)])
#define SUBARR_SIZE(self, i) ((self)->sub_size[K_sub_idx(self, i)])
#define SUBARR_ADDR(self, i) ((self)->sub_addr[K_sub_idx(self, i)])
/* &(*this->begin_all()): the first element of the whole array is the first element of the first sub-array (ASSUMED:
   first sub-array not empty) */
#define ARR_BEGIN_ALL_ADDR(self) ((self)->sub_addr[0])
/* From the property ("arrays that view shared memory alias it exactly", "size ... reflect the contents"): the array is one
   block iff every sub-array is one block and each sub-array starts right where the previous one ends */
#define SUB_OK(s, k) (!((k) < ARR_N(s)) || ((s)->sub_contig[k] && (!((k) + 1 < ARR_N(s)) || (s)->sub_addr[(k) + 1] == (s)->sub_addr[k] + (s)->sub_size[k])))
#define ALL_SUBS_OK(s) (SUB_OK(s, 0) && SUB_OK(s, 1) && SUB_OK(s, 2) && SUB_OK(s, 3) && SUB_OK(s, 4) && SUB_OK(s, 5) && SUB_OK(s, 6) && SUB_OK(s, 7))
#define SIZES_OK(s, k) (!((k) < ARR_N(s)) || ((s)->sub_size[k] >= 0 && (s)->sub_size[k] < (1L << 40) && (s)->sub_addr[k] >= 0 && (s)->sub_addr[k] < (1L << 44)))
#define ALL_SIZES_OK(s) (SIZES_OK(s, 0) && SIZES_OK(s, 1) && SIZES_OK(s, 2) && SIZES_OK(s, 3) && SIZES_OK(s, 4) && SIZES_OK(s, 5) && SIZES_OK(s, 6) && SIZES_OK(s, 7))
#define CONTRACT_K_arr_is_contiguous                                                                                 \
  __CPROVER_requires(__CPROVER_is_fresh(self, sizeof(*self)) && ARR_VALID(self) && ALL_SIZES_OK(self))                 \
  __CPROVER_assigns()                                                                                                  \
  __CPROVER_ensures(__CPROVER_return_value == (ALL_SUBS_OK(self) ? 1 : 0))
/* invariant: everything before i is fine, and mem is where sub-array i has to start */
#define PREFIX_OK(s, k, upto) (!((k) < (upto)) || SUB_OK(s, k))
#define ALL_PREFIX_OK(s, upto) (PREFIX_OK(s, 0, upto) && PREFIX_OK(s, 1, upto) && PREFIX_OK(s, 2, upto) && PREFIX_OK(s, 3, upto) && PREFIX_OK(s, 4, upto) \
                                && PREFIX_OK(s, 5, upto) && PREFIX_OK(s, 6, upto) && PREFIX_OK(s, 7, upto))
#define LC_K_arr_is_contiguous_0                                                                                     \
  __CPROVER_assigns(i, mem)                                                                                            \
  __CPROVER_loop_invariant(self->min_index <= i && i <= self->max_index + 1)                                           \
  __CPROVER_loop_invariant(ALL_PREFIX_OK(self, i - self->min_index))                                                   \
  __CPROVER_loop_invariant(i <= self->max_index ==> mem == self->sub_addr[i - self->min_index])                        \
  __CPROVER_decreases(self->max_index + 1 - i)
#endif
