/* C10: voxel positions in the Interfile image header - which axis goes where.
   STIR's CartesianCoordinate3D<T>(z, y, x); Interfile vectorised keys [1],[2],[3] = x, y, z (header vectors: index 0, 1, 2).
   Reader (create_image_and_header_from): voxel size, index range and origin from pixel_sizes / matrix_size / first_pixel_offsets.
   Writer (write_basic_interfile_image_header): matrix size, scaling factor and first pixel offset keys from dimensions / voxel_size / origin.
   Coordinate arithmetic (operator+,-,* of BasicCoordinate) is component-wise: C3F_* below (trusted). */
#ifndef C10G_H
#define C10G_H
struct C3F { float z, y, x; };
struct C3I { int z, y, x; };
struct IHDR { float pixel_sizes[3]; int matrix_size[3][1]; double first_pixel_offsets[3]; };
struct IMGGEO { struct C3F voxel_size, origin; struct C3I min_indices, max_indices; };
#define K_DOUBLE_NOT_SET (-12345.60789) /* MinimalInterfileHeader::double_value_not_set (scraped value checked by the extraction) */
int nondet_int(void);
float nondet_float(void);
static inline struct C3I K_c3i_add_sub1(struct C3I a, int z, int y, int x) { struct C3I r = {a.z + z - 1, a.y + y - 1, a.x + x - 1}; return r; }
/* a - v * float(m), component by component (BasicCoordinate operators: trusted). The float result is not recomputed in the contract
   (two copies of a float multiplier do not solve): the operands are recorded and the result is an arbitrary value the contract refers to. */
struct C3F g_sm_a, g_sm_v, g_sm_r; struct C3I g_sm_m; int g_sm_calls;
static inline struct C3F K_c3f_sub_mul(struct C3F a, struct C3F v, struct C3I m)
{
  g_sm_a = a; g_sm_v = v; g_sm_m = m; ++g_sm_calls;
  g_sm_r.z = nondet_float(); g_sm_r.y = nondet_float(); g_sm_r.x = nondet_float();
  return g_sm_r;
}
#define C3F_EQ(p, q) (FEQ((p).x, (q).x) && FEQ((p).y, (q).y) && FEQ((p).z, (q).z))
#define SIZE_OK(n) ((n) >= 1 && (n) <= 100000)
#define FEQ(a, b) ((a) == (b) || (__CPROVER_isnanf(a) && __CPROVER_isnanf(b)))
#ifdef CANARY_K_img_geometry_from_header
#define GEO_POST(x) (!(x))
#else
#define GEO_POST(x) (x)
#endif
#define CONTRACT_K_img_geometry_from_header                                                                          \
  __CPROVER_requires(__CPROVER_is_fresh(hdr, sizeof(*hdr)) && __CPROVER_is_fresh(out, sizeof(*out)))                   \
  __CPROVER_requires(SIZE_OK(hdr->matrix_size[0][0]) && SIZE_OK(hdr->matrix_size[1][0]) && SIZE_OK(hdr->matrix_size[2][0])) \
  __CPROVER_requires(g_sm_calls == 0)                                                                                  \
  __CPROVER_assigns(*out, g_sm_a, g_sm_v, g_sm_r, g_sm_m, g_sm_calls)                                                  \
  /* voxel size: x <- [1], y <- [2], z <- [3] */                                                                      \
  __CPROVER_ensures(GEO_POST(FEQ(out->voxel_size.x, hdr->pixel_sizes[0]) && FEQ(out->voxel_size.y, hdr->pixel_sizes[1]) && FEQ(out->voxel_size.z, hdr->pixel_sizes[2]))) \
  /* index range: z from 0, x and y centred; extents = matrix sizes of the same axis */                              \
  __CPROVER_ensures(out->min_indices.z == 0 && out->min_indices.y == -(hdr->matrix_size[1][0] / 2) && out->min_indices.x == -(hdr->matrix_size[0][0] / 2)) \
  __CPROVER_ensures(out->max_indices.x - out->min_indices.x + 1 == hdr->matrix_size[0][0]                              \
                    && out->max_indices.y - out->min_indices.y + 1 == hdr->matrix_size[1][0]                           \
                    && out->max_indices.z - out->min_indices.z + 1 == hdr->matrix_size[2][0])                          \
  /* origin: first pixel offset of the same axis minus voxel size times minimum index of the same axis; (0,0,0) if the header has none */ \
  __CPROVER_ensures(hdr->first_pixel_offsets[2] == K_DOUBLE_NOT_SET ==> (out->origin.x == 0 && out->origin.y == 0 && out->origin.z == 0)) \
  /* ... = (first pixel offsets [3],[2],[1] as (z,y,x)) - voxel_size * float(min_indices), computed once */                \
  __CPROVER_ensures(hdr->first_pixel_offsets[2] != K_DOUBLE_NOT_SET ==>                                                \
                    (g_sm_calls == 1 && C3F_EQ(out->origin, g_sm_r) && C3F_EQ(g_sm_v, out->voxel_size)                  \
                     && g_sm_m.x == out->min_indices.x && g_sm_m.y == out->min_indices.y && g_sm_m.z == out->min_indices.z \
                     && FEQ(g_sm_a.x, (float)hdr->first_pixel_offsets[0]) && FEQ(g_sm_a.y, (float)hdr->first_pixel_offsets[1]) && FEQ(g_sm_a.z, (float)hdr->first_pixel_offsets[2])))

/* ---- writer: log of (key, vector index, source object, source axis) ---- */
enum { KEY_MATRIX_SIZE = 1, KEY_SCALING_FACTOR = 2, KEY_FIRST_PIXEL_OFFSET = 3 };
enum { OBJ_dimensions = 1, OBJ_voxel_size = 2, OBJ_first_pixel_offsets = 3 };
enum { AX_x = 1, AX_y = 2, AX_z = 3 };
int g_w_obj[4][4], g_w_ax[4][4], g_w_cnt[4][4]; /* [key][n] */
int g_fpo_formula; /* 1: first_pixel_offsets = voxel_size * float(min_indices) + origin (component-wise) */
#define K_HDR_W(key, n, obj, ax) do { __CPROVER_assert((n) >= 1 && (n) <= 3, "vector index 1..3"); g_w_obj[key][n] = (obj); g_w_ax[key][n] = (ax); ++g_w_cnt[key][n]; } while (0)
#define W_OK(key, n, obj) (g_w_cnt[key][n] == 1 && g_w_obj[key][n] == (obj) && g_w_ax[key][n] == (n)) /* AX_x == 1, AX_y == 2, AX_z == 3 */
#define W_ALL(key, obj) (W_OK(key, 1, obj) && W_OK(key, 2, obj) && W_OK(key, 3, obj))
#define W_NONE(key) (g_w_cnt[key][1] == 0 && g_w_cnt[key][2] == 0 && g_w_cnt[key][3] == 0)
#ifdef CANARY_K_img_geometry_to_header
#define WGEO_POST(x) (!(x))
#else
#define WGEO_POST(x) (x)
#endif
#define CONTRACT_K_img_geometry_to_header                                                                            \
  __CPROVER_requires(W_NONE(KEY_MATRIX_SIZE) && W_NONE(KEY_SCALING_FACTOR) && W_NONE(KEY_FIRST_PIXEL_OFFSET) && g_fpo_formula == 0) \
  __CPROVER_assigns(__CPROVER_object_whole(g_w_obj), __CPROVER_object_whole(g_w_ax), __CPROVER_object_whole(g_w_cnt), g_fpo_formula) \
  __CPROVER_ensures(WGEO_POST(W_ALL(KEY_MATRIX_SIZE, OBJ_dimensions) && W_ALL(KEY_SCALING_FACTOR, OBJ_voxel_size)))    \
  __CPROVER_ensures(origin_z_is_set ==> (W_ALL(KEY_FIRST_PIXEL_OFFSET, OBJ_first_pixel_offsets) && g_fpo_formula == 1)) \
  __CPROVER_ensures(!origin_z_is_set ==> W_NONE(KEY_FIRST_PIXEL_OFFSET))

/* ---- number format of the header stream (typestate) ----
   A value inserted into the header must be readable back: floats with at least the default 6 significant digits (not std::fixed, whose
   digits are after the decimal point: a scale factor 3.5e-10 becomes 0.000000), integers in base 10. Stream flags are sticky: the state
   is tracked through the whole function. Fresh std::ofstream: not fixed, precision 6, base 10. */
_Bool nondet_bool(void);
enum { FMT_fixed = 1, FMT_scientific, FMT_hex, FMT_oct, FMT_dec, FMT_defaultfloat, FMT_hexfloat };
_Bool g_fixed; int g_prec, g_base, g_vals;
#define K_STREAM_OPEN() do { g_fixed = 0; g_prec = 6; g_base = 10; } while (0)
#define K_FMT(f) do { if ((f) == FMT_fixed) g_fixed = 1; else if ((f) == FMT_scientific || (f) == FMT_defaultfloat || (f) == FMT_hexfloat) g_fixed = 0; \
                      else if ((f) == FMT_hex) g_base = 16; else if ((f) == FMT_oct) g_base = 8; else if ((f) == FMT_dec) g_base = 10; } while (0)
#define K_PREC(n) do { g_prec = (n); } while (0)
#define FMT_LOSSY (g_base != 10 || g_prec < 6 || (g_fixed && g_prec < 50))
#ifdef CANARY_K_hdr_stream_format
#define K_VAL() do { ++g_vals; __CPROVER_assert(FMT_LOSSY, "canary"); } while (0)
#else
#define K_VAL() do { if (g_vals < 1000) ++g_vals; __CPROVER_assert(!FMT_LOSSY, "value inserted into the header with a number format that can be read back (>= 6 significant digits, base 10)"); } while (0)
#endif
#define CONTRACT_K_hdr_stream_format                                                                                 \
  __CPROVER_requires(g_fixed == 0 && g_prec == 6 && g_base == 10 && g_vals == 0)                                       \
  __CPROVER_assigns(g_fixed, g_prec, g_base, g_vals)                                                                   \
  __CPROVER_ensures(1)
#define LC_STREAM __CPROVER_assigns(g_fixed, g_prec, g_base, g_vals) __CPROVER_loop_invariant(!FMT_LOSSY && g_vals >= 0 && g_vals <= 1000)
#define LC_K_hdr_stream_format_0 LC_STREAM
#define LC_K_hdr_stream_format_1 LC_STREAM
#define LC_K_hdr_stream_format_2 LC_STREAM
#define LC_K_hdr_stream_format_3 LC_STREAM
#define LC_K_hdr_stream_format_4 LC_STREAM
#define LC_K_hdr_stream_format_5 LC_STREAM
#define LC_K_hdr_stream_format_6 LC_STREAM
#define LC_K_hdr_stream_format_7 LC_STREAM
#define LC_K_hdr_stream_format_8 LC_STREAM
#define LC_K_hdr_stream_format_9 LC_STREAM
#define LC_K_pdfs_hdr_stream_format_0 LC_STREAM
#define LC_K_pdfs_hdr_stream_format_1 LC_STREAM
#define LC_K_pdfs_hdr_stream_format_2 LC_STREAM
#define LC_K_pdfs_hdr_stream_format_3 LC_STREAM
#define LC_K_pdfs_hdr_stream_format_4 LC_STREAM
#define LC_K_pdfs_hdr_stream_format_5 LC_STREAM
#define LC_K_pdfs_hdr_stream_format_6 LC_STREAM
#define LC_K_pdfs_hdr_stream_format_7 LC_STREAM
#define LC_K_pdfs_hdr_stream_format_8 LC_STREAM
#define LC_K_pdfs_hdr_stream_format_9 LC_STREAM
#define LC_K_pdfs_hdr_stream_format_10 LC_STREAM
#define LC_K_pdfs_hdr_stream_format_11 LC_STREAM
#define LC_K_pdfs_hdr_stream_format_12 LC_STREAM
#define LC_K_pdfs_hdr_stream_format_13 LC_STREAM
#define LC_K_pdfs_hdr_stream_format_14 LC_STREAM
#define LC_K_pdfs_hdr_stream_format_15 LC_STREAM
#define CONTRACT_K_pdfs_hdr_stream_format                                                                            \
  __CPROVER_requires(g_fixed == 0 && g_prec == 6 && g_base == 10 && g_vals == 0)                                       \
  __CPROVER_assigns(g_fixed, g_prec, g_base, g_vals)                                                                   \
  __CPROVER_ensures(1)
/* the header writer's callees that receive the stream: every value they insert is readable back and they leave the format state as they found it
   (this is what K_VAL() assumes of them in the callers' skeletons) */
#define CALLEE_STREAM_CONTRACT                                                                                     \
  __CPROVER_requires(!FMT_LOSSY && g_vals == 0)                                                                       \
  __CPROVER_assigns(g_fixed, g_prec, g_base, g_vals)                                                                   \
  __CPROVER_ensures(g_fixed == __CPROVER_old(g_fixed) && g_prec == __CPROVER_old(g_prec) && g_base == __CPROVER_old(g_base))
#define LC_STREAM_KEEP(f0, p0, b0) __CPROVER_assigns(g_fixed, g_prec, g_base, g_vals) __CPROVER_loop_invariant(!FMT_LOSSY && g_vals >= 0 && g_vals <= 1000 && g_fixed == (f0) && g_prec == (p0) && g_base == (b0))
#define CONTRACT_K_hdrw_patient_position CALLEE_STREAM_CONTRACT
#define LC_K_hdrw_patient_position_0 LC_STREAM_KEEP(g_f0, g_p0, g_b0)
#define LC_K_hdrw_patient_position_1 LC_STREAM_KEEP(g_f0, g_p0, g_b0)
#define LC_K_hdrw_patient_position_2 LC_STREAM_KEEP(g_f0, g_p0, g_b0)
#define LC_K_hdrw_patient_position_3 LC_STREAM_KEEP(g_f0, g_p0, g_b0)
#define CONTRACT_K_hdrw_time_frame_definitions CALLEE_STREAM_CONTRACT
#define LC_K_hdrw_time_frame_definitions_0 LC_STREAM_KEEP(g_f0, g_p0, g_b0)
#define LC_K_hdrw_time_frame_definitions_1 LC_STREAM_KEEP(g_f0, g_p0, g_b0)
#define LC_K_hdrw_time_frame_definitions_2 LC_STREAM_KEEP(g_f0, g_p0, g_b0)
#define LC_K_hdrw_time_frame_definitions_3 LC_STREAM_KEEP(g_f0, g_p0, g_b0)
#define CONTRACT_K_hdrw_energy_windows CALLEE_STREAM_CONTRACT
#define LC_K_hdrw_energy_windows_0 LC_STREAM_KEEP(g_f0, g_p0, g_b0)
#define LC_K_hdrw_energy_windows_1 LC_STREAM_KEEP(g_f0, g_p0, g_b0)
#define LC_K_hdrw_energy_windows_2 LC_STREAM_KEEP(g_f0, g_p0, g_b0)
#define LC_K_hdrw_energy_windows_3 LC_STREAM_KEEP(g_f0, g_p0, g_b0)
#define CONTRACT_K_hdrw_image_data_descriptions CALLEE_STREAM_CONTRACT
#define LC_K_hdrw_image_data_descriptions_0 LC_STREAM_KEEP(g_f0, g_p0, g_b0)
#define LC_K_hdrw_image_data_descriptions_1 LC_STREAM_KEEP(g_f0, g_p0, g_b0)
#define LC_K_hdrw_image_data_descriptions_2 LC_STREAM_KEEP(g_f0, g_p0, g_b0)
#define LC_K_hdrw_image_data_descriptions_3 LC_STREAM_KEEP(g_f0, g_p0, g_b0)
#define CONTRACT_K_hdrw_modality CALLEE_STREAM_CONTRACT
#define LC_K_hdrw_modality_0 LC_STREAM_KEEP(g_f0, g_p0, g_b0)
#define LC_K_hdrw_modality_1 LC_STREAM_KEEP(g_f0, g_p0, g_b0)
#define LC_K_hdrw_modality_2 LC_STREAM_KEEP(g_f0, g_p0, g_b0)
#define LC_K_hdrw_modality_3 LC_STREAM_KEEP(g_f0, g_p0, g_b0)
#define CONTRACT_K_hdrw_radionuclide_info CALLEE_STREAM_CONTRACT
#define LC_K_hdrw_radionuclide_info_0 LC_STREAM_KEEP(g_f0, g_p0, g_b0)
#define LC_K_hdrw_radionuclide_info_1 LC_STREAM_KEEP(g_f0, g_p0, g_b0)
#define LC_K_hdrw_radionuclide_info_2 LC_STREAM_KEEP(g_f0, g_p0, g_b0)
#define LC_K_hdrw_radionuclide_info_3 LC_STREAM_KEEP(g_f0, g_p0, g_b0)
_Bool g_f0; int g_p0, g_b0; /* ghost copies of the entry state (set by the harness), for the loops' invariants */
#endif
