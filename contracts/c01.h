/* Contracts for C01: detector pairs <-> sinogram bins (ProjDataInfoCylindricalNoArcCorr.{cxx,inl}) and ring pairs <->
   (segment, axial position) (ProjDataInfoCylindrical.{cxx,inl}).
   Keyed by kernel name (CONTRACT_<kernel>) and loop ordinal (LC_<kernel>_<n>).

   Parametric proof: the number of detectors per ring is the job constant C01_N (one complete proof per value, every
   other input symbolic); the job C01_N undefined leaves it symbolic with N <= C01_NMAX. */
#ifndef C01_CONTRACTS_H
#define C01_CONTRACTS_H
#include "contracts/prelude.h"

int g_error;
#define K_THROW_VOID                                                                                                  \
  do                                                                                                                  \
    {                                                                                                                 \
      g_error = 1;                                                                                                    \
      return;                                                                                                         \
    }                                                                                                                 \
  while (0)

#ifndef C01_NMAX
#define C01_NMAX 64
#endif
#ifdef C01_N
#define N_OK(n) ((n) == C01_N)
#else
#define N_OK(n) ((n) >= 2 && (n) <= C01_NMAX && (n) % 2 == 0)
#endif

/* the data members of ProjDataInfoCylindricalNoArcCorr / ProjDataInfo / Scanner that the kernels read */
struct PDI1
{
  int num_detectors_per_ring;                          /* get_scanner_ptr()->get_num_detectors_per_ring() */
  int min_tangential_pos_num, max_tangential_pos_num;  /* ProjDataInfo::min_tangential_pos_num ... */
  int min_view_num, max_view_num;
  int view_mashing_factor;                             /* ProjDataInfoCylindrical::view_mashing_factor */
  int tof_mash_factor;                                 /* ProjDataInfo::tof_mash_factor (0: non-TOF) */
  _Bool tab1_initialised, tab2_initialised;            /* ..._initialised flags */
};

/* ================= the geometry, as a specification =================
   (view v, tangential position t) of UNCOMPRESSED data -> ordered detector pair, CTI interleaving convention.
   Written with floor-division and range reduction instead of the code's shift/modulo formula. */
#define FLOORDIV2(x) (((x) >= 0) ? (x) / 2 : -((-(x) + 1) / 2))
#define WRAP(x, n) ((x) < 0 ? (x) + (n) : ((x) >= (n) ? (x) - (n) : (x))) /* for -n <= x < 2n */
#define SPEC_DET1(v, t, n) WRAP((v) + FLOORDIV2(t), n)
#define SPEC_DET2(v, t, n) WRAP((v)-FLOORDIV2((t) + 1) + (n) / 2, n)
#define MIN_TP(n) (-((n) / 2) + 1)
#define MAX_TP(n) ((n) / 2)
#define VT_IN_TABLE(v, t, n) ((v) >= 0 && (v) <= (n) / 2 - 1 && (t) >= MIN_TP(n) && (t) <= MAX_TP(n))

/* ================= table 1: uncompressed_view_tangpos_to_det1det2, projected onto one ghost cell ================= */
struct DET12 { int det1_num, det2_num; };
int g_v, g_tp;                 /* ghost cell (any cell of the table) */
struct DET12 g_cell1;          /* what the table holds there */
int g_w1_det1_num, g_w1_det2_num; /* how often each field of the ghost cell was written */
int g_o1_lo, g_o1_hi;          /* index range of the outer vector (ghost) */
int g_i1_lo, g_i1_hi, g_i1_grown; /* index range of the ghost row, and how often it was grown */
#define TAB1_GROW_OUTER(lo, hi)                                                                                       \
  do                                                                                                                  \
    {                                                                                                                 \
      g_o1_lo = (lo);                                                                                                 \
      g_o1_hi = (hi);                                                                                                 \
    }                                                                                                                 \
  while (0)
#define TAB1_GROW_INNER(v, lo, hi)                                                                                    \
  do                                                                                                                  \
    {                                                                                                                 \
      __CPROVER_assert((v) >= g_o1_lo && (v) <= g_o1_hi, "row index inside the outer table range");                   \
      if ((v) == g_v)                                                                                                 \
        {                                                                                                             \
          g_i1_lo = (lo);                                                                                             \
          g_i1_hi = (hi);                                                                                             \
          ++g_i1_grown;                                                                                               \
        }                                                                                                             \
    }                                                                                                                 \
  while (0)
#define TAB1_WRITE(v, tp, field, e)                                                                                   \
  do                                                                                                                  \
    {                                                                                                                 \
      __CPROVER_assert((v) >= g_o1_lo && (v) <= g_o1_hi, "table write: view index inside the table");                 \
      __CPROVER_assert((v) != g_v || ((tp) >= g_i1_lo && (tp) <= g_i1_hi && g_i1_grown == 1),                         \
                       "table write: tangential index inside the row");                                               \
      if ((v) == g_v && (tp) == g_tp)                                                                                 \
        {                                                                                                             \
          g_cell1.field = (e);                                                                                        \
          ++g_w1_##field;                                                                                             \
        }                                                                                                             \
    }                                                                                                                 \
  while (0)

#define PDI1_BASIC(s) (N_OK((s)->num_detectors_per_ring) && (s)->num_detectors_per_ring >= 2 && (s)->num_detectors_per_ring % 2 == 0)
#define NN (self->num_detectors_per_ring)
#define TANG_TOO_LARGE(s) ((s)->min_tangential_pos_num < MIN_TP((s)->num_detectors_per_ring) || (s)->max_tangential_pos_num > MAX_TP((s)->num_detectors_per_ring))

#define CONTRACT_K_init_vt2d                                                                                         \
  __CPROVER_requires(__CPROVER_is_fresh(self, sizeof(*self)) && PDI1_BASIC(self) && g_error == 0)                       \
  __CPROVER_requires(VT_IN_TABLE(g_v, g_tp, NN) && g_w1_det1_num == 0 && g_w1_det2_num == 0 && g_i1_grown == 0)        \
  __CPROVER_requires(!self->tab1_initialised)                                                                          \
  __CPROVER_assigns(g_error, g_cell1, g_w1_det1_num, g_w1_det2_num, g_o1_lo, g_o1_hi, g_i1_lo, g_i1_hi, g_i1_grown, self->tab1_initialised) \
  /* a tangential range wider than the scanner supports is reported as an error, and nothing is marked initialised */ \
  __CPROVER_ensures(g_error == (TANG_TOO_LARGE(self) ? 1 : 0))                                                         \
  __CPROVER_ensures(g_error ==> !self->tab1_initialised)                                                               \
  /* otherwise: the table covers exactly [0,N/2-1] x [-N/2+1,N/2], every cell written exactly once with the geometry's pair */ \
  __CPROVER_ensures(!g_error ==> (self->tab1_initialised && g_o1_lo == 0 && g_o1_hi == NN / 2 - 1 && g_i1_grown == 1 \
                                  && g_i1_lo == MIN_TP(NN) && g_i1_hi == MAX_TP(NN)))                                  \
  __CPROVER_ensures(!g_error ==> (g_w1_det1_num == 1 && g_w1_det2_num == 1))                                           \
  __CPROVER_ensures(!g_error ==> (g_cell1.det1_num == SPEC_DET1(g_v, g_tp, NN) && g_cell1.det2_num == SPEC_DET2(g_v, g_tp, NN))) \
  __CPROVER_ensures(!g_error ==> (g_cell1.det1_num >= 0 && g_cell1.det1_num < NN && g_cell1.det2_num >= 0 && g_cell1.det2_num < NN))

#define T1_ASSIGNS g_cell1, g_w1_det1_num, g_w1_det2_num, g_i1_lo, g_i1_hi, g_i1_grown
#define CELL1_SPEC (g_cell1.det1_num == SPEC_DET1(g_v, g_tp, NN) && g_cell1.det2_num == SPEC_DET2(g_v, g_tp, NN))
/* outer loop over v_num */
#define LC_K_init_vt2d_0                                                                                             \
  __CPROVER_assigns(v_num, T1_ASSIGNS)                                                                                 \
  __CPROVER_loop_invariant(0 <= v_num && v_num <= num_detectors / 2)                                                   \
  __CPROVER_loop_invariant(g_w1_det1_num == (g_v < v_num ? 1 : 0) && g_w1_det2_num == (g_v < v_num ? 1 : 0) && g_i1_grown == (g_v < v_num ? 1 : 0)) \
  __CPROVER_loop_invariant(g_v < v_num ==> (CELL1_SPEC && g_i1_lo == min_tang_pos_num && g_i1_hi == max_tang_pos_num)) \
  __CPROVER_decreases(num_detectors / 2 - v_num)
/* inner loop over tp_num */
#define DONE1 (g_v < v_num || (g_v == v_num && g_tp < tp_num))
#define LC_K_init_vt2d_1                                                                                             \
  __CPROVER_assigns(tp_num, g_cell1, g_w1_det1_num, g_w1_det2_num)                                                     \
  __CPROVER_loop_invariant(min_tang_pos_num <= tp_num && tp_num <= max_tang_pos_num + 1)                               \
  __CPROVER_loop_invariant(g_w1_det1_num == (DONE1 ? 1 : 0) && g_w1_det2_num == (DONE1 ? 1 : 0))                       \
  __CPROVER_loop_invariant(DONE1 ==> CELL1_SPEC)                                                                       \
  __CPROVER_decreases(max_tang_pos_num + 1 - tp_num)

/* ================= table 2: det1det2_to_uncompressed_view_tangpos, projected onto one ghost cell ================= */
struct VTS { int view_num, tang_pos_num; _Bool swap_detectors; };
int g_d1, g_d2;            /* ghost ordered detector pair, g_d1 != g_d2 */
struct VTS g_cell2;
int g_w2_view_num, g_w2_tang_pos_num, g_w2_swap_detectors;
int g_o2_lo, g_o2_hi, g_i2_lo, g_i2_hi, g_i2_grown;
#define TAB2_GROW_OUTER(lo, hi)                                                                                       \
  do                                                                                                                  \
    {                                                                                                                 \
      g_o2_lo = (lo);                                                                                                 \
      g_o2_hi = (hi);                                                                                                 \
    }                                                                                                                 \
  while (0)
#define TAB2_GROW_INNER(d, lo, hi)                                                                                    \
  do                                                                                                                  \
    {                                                                                                                 \
      __CPROVER_assert((d) >= g_o2_lo && (d) <= g_o2_hi, "row index inside the outer table range");                   \
      if ((d) == g_d1)                                                                                                \
        {                                                                                                             \
          g_i2_lo = (lo);                                                                                             \
          g_i2_hi = (hi);                                                                                             \
          ++g_i2_grown;                                                                                               \
        }                                                                                                             \
    }                                                                                                                 \
  while (0)
#define TAB2_WRITE(d1, d2, field, e)                                                                                  \
  do                                                                                                                  \
    {                                                                                                                 \
      __CPROVER_assert((d1) >= g_o2_lo && (d1) <= g_o2_hi, "table write: det1 index inside the table");               \
      __CPROVER_assert((d1) != g_d1 || ((d2) >= g_i2_lo && (d2) <= g_i2_hi && g_i2_grown == 1),                       \
                       "table write: det2 index inside the row");                                                     \
      if ((d1) == g_d1 && (d2) == g_d2)                                                                               \
        {                                                                                                             \
          g_cell2.field = (e);                                                                                        \
          ++g_w2_##field;                                                                                             \
        }                                                                                                             \
    }                                                                                                                 \
  while (0)

/* From the property ("the bin-to-pair and pair-to-bin maps are mutual inverses ... exchanging the two detectors gives
   the same spatial bin"): the cell for the ordered pair (d1,d2) holds a bin (v,t) of the table whose detector pair,
   ACCORDING TO TABLE 1's CONTRACT, is (d1,d2) when the flag says "as stored" and (d2,d1) when it says "exchanged".
   NB: the member is called swap_detectors but holds `swap_detectors == 0`, i.e. true means NOT exchanged (the public
   function returns it as "positive orientation"). */
#define INV_OK(cell, d1, d2, n)                                                                                       \
  (VT_IN_TABLE((cell).view_num, (cell).tang_pos_num, n)                                                               \
   && ((cell).swap_detectors                                                                                          \
           ? (SPEC_DET1((cell).view_num, (cell).tang_pos_num, n) == (d1) && SPEC_DET2((cell).view_num, (cell).tang_pos_num, n) == (d2)) \
           : (SPEC_DET1((cell).view_num, (cell).tang_pos_num, n) == (d2) && SPEC_DET2((cell).view_num, (cell).tang_pos_num, n) == (d1))))
#define CONTRACT_K_init_d2vt                                                                                         \
  __CPROVER_requires(__CPROVER_is_fresh(self, sizeof(*self)) && N_OK(self->num_detectors_per_ring) && self->num_detectors_per_ring >= 1 && g_error == 0) \
  __CPROVER_requires(g_d1 >= 0 && g_d1 < NN && g_d2 >= 0 && g_d2 < NN && g_d1 != g_d2)                                \
  __CPROVER_requires(g_w2_view_num == 0 && g_w2_tang_pos_num == 0 && g_w2_swap_detectors == 0 && g_i2_grown == 0 && !self->tab2_initialised) \
  __CPROVER_assigns(g_error, g_cell2, g_w2_view_num, g_w2_tang_pos_num, g_w2_swap_detectors, g_o2_lo, g_o2_hi, g_i2_lo, g_i2_hi, g_i2_grown, self->tab2_initialised) \
  __CPROVER_ensures(g_error == ((NN % 2 != 0 || self->min_view_num != 0) ? 1 : 0))                                     \
  __CPROVER_ensures(g_error ==> !self->tab2_initialised)                                                               \
  __CPROVER_ensures(!g_error ==> (self->tab2_initialised && g_o2_lo == 0 && g_o2_hi == NN - 1 && g_i2_grown == 1 && g_i2_lo == 0 && g_i2_hi == NN - 1)) \
  __CPROVER_ensures(!g_error ==> (g_w2_view_num == 1 && g_w2_tang_pos_num == 1 && g_w2_swap_detectors == 1))           \
  __CPROVER_ensures(!g_error ==> INV_OK(g_cell2, g_d1, g_d2, NN))

#define T2_ASSIGNS g_cell2, g_w2_view_num, g_w2_tang_pos_num, g_w2_swap_detectors, g_i2_lo, g_i2_hi, g_i2_grown
#define W2_ALL(c) (g_w2_view_num == (c) && g_w2_tang_pos_num == (c) && g_w2_swap_detectors == (c))
#define LC_K_init_d2vt_0                                                                                             \
  __CPROVER_assigns(det1_num, T2_ASSIGNS)                                                                              \
  __CPROVER_loop_invariant(0 <= det1_num && det1_num <= num_detectors)                                                 \
  __CPROVER_loop_invariant(W2_ALL(g_d1 < det1_num ? 1 : 0) && g_i2_grown == (g_d1 < det1_num ? 1 : 0))                 \
  __CPROVER_loop_invariant(g_d1 < det1_num ==> (INV_OK(g_cell2, g_d1, g_d2, NN) && g_i2_lo == 0 && g_i2_hi == num_detectors - 1)) \
  __CPROVER_decreases(num_detectors - det1_num)
#define DONE2 (g_d1 < det1_num || (g_d1 == det1_num && g_d2 < det2_num))
#define LC_K_init_d2vt_1                                                                                             \
  __CPROVER_assigns(det2_num, g_cell2, g_w2_view_num, g_w2_tang_pos_num, g_w2_swap_detectors)                          \
  __CPROVER_loop_invariant(0 <= det2_num && det2_num <= num_detectors)                                                 \
  __CPROVER_loop_invariant(W2_ALL(DONE2 ? 1 : 0))                                                                      \
  __CPROVER_loop_invariant(DONE2 ==> INV_OK(g_cell2, g_d1, g_d2, NN))                                                  \
  __CPROVER_decreases(num_detectors - det2_num)


/* ================= API level (ProjDataInfoCylindricalNoArcCorr.inl) ================= */
struct Bin { int segment_num, view_num, axial_pos_num, tangential_pos_num, timing_pos_num; };
/* DetectionPositionPair<unsigned>: pos1()/pos2() tangential and axial coordinates, timing_pos() */
struct DPP { unsigned p1_tang, p1_axial, p2_tang, p2_axial; int timing_pos; };

#define K_RETURN_IF_ERROR(val)                                                                                        \
  do                                                                                                                  \
    {                                                                                                                 \
      if (g_error)                                                                                                    \
        return val;                                                                                                   \
    }                                                                                                                 \
  while (0)

/* --- the callers' view of the two initialisers: an abstraction of CONTRACT_K_init_vt2d / CONTRACT_K_init_d2vt that
       drops the ghost-cell clauses (those are carried by the contracts of the table readers below) --- */
void K_init_vt2d_call(struct PDI1* self)
__CPROVER_requires(PDI1_BASIC(self) && !self->tab1_initialised && g_error == 0)
__CPROVER_assigns(g_error, self->tab1_initialised)
__CPROVER_ensures(g_error == (TANG_TOO_LARGE(self) ? 1 : 0) && (g_error ? !self->tab1_initialised : self->tab1_initialised))
;
void K_init_d2vt_call(struct PDI1* self)
__CPROVER_requires(PDI1_BASIC(self) && !self->tab2_initialised && g_error == 0)
__CPROVER_assigns(g_error, self->tab2_initialised)
__CPROVER_ensures(g_error == ((self->min_view_num != 0) ? 1 : 0) && (g_error ? !self->tab2_initialised : self->tab2_initialised))
;
#define CONTRACT_K_init_vt2d_if_not_done_yet                                                                         \
  __CPROVER_requires(__CPROVER_is_fresh(self, sizeof(*self)) && PDI1_BASIC(self) && g_error == 0)                       \
  __CPROVER_assigns(g_error, self->tab1_initialised)                                                                   \
  __CPROVER_ensures(g_error == ((!__CPROVER_old(self->tab1_initialised) && TANG_TOO_LARGE(self)) ? 1 : 0))            \
  __CPROVER_ensures(g_error ? !self->tab1_initialised : self->tab1_initialised)
#define CONTRACT_K_init_d2vt_if_not_done_yet                                                                         \
  __CPROVER_requires(__CPROVER_is_fresh(self, sizeof(*self)) && PDI1_BASIC(self) && g_error == 0)                       \
  __CPROVER_assigns(g_error, self->tab2_initialised)                                                                   \
  __CPROVER_ensures(g_error == ((!__CPROVER_old(self->tab2_initialised) && self->min_view_num != 0) ? 1 : 0))         \
  __CPROVER_ensures(g_error ? !self->tab2_initialised : self->tab2_initialised)

/* --- table readers: the contract of a read IS the postcondition of the kernel that fills the table, for the cell
       that is read; reading outside the table's index range violates the precondition (it would be an out-of-bounds
       access of the real VectorWithOffset) --- */
int TAB1_READ_det1_num(const struct PDI1* self, int v, int tp)
__CPROVER_requires(self->tab1_initialised && VT_IN_TABLE(v, tp, self->num_detectors_per_ring))
__CPROVER_assigns()
__CPROVER_ensures(__CPROVER_return_value == SPEC_DET1(v, tp, self->num_detectors_per_ring))
;
int TAB1_READ_det2_num(const struct PDI1* self, int v, int tp)
__CPROVER_requires(self->tab1_initialised && VT_IN_TABLE(v, tp, self->num_detectors_per_ring))
__CPROVER_assigns()
__CPROVER_ensures(__CPROVER_return_value == SPEC_DET2(v, tp, self->num_detectors_per_ring))
;
/* table 2 is represented by its ghost cell (g_d1,g_d2) -> g_cell2, which satisfies the filler's postcondition INV_OK
   (a requires clause of every reader kernel); a read of any other cell returns an unconstrained value */
#define D12_OK(s, d1, d2) ((d1) >= 0 && (d1) < (s)->num_detectors_per_ring && (d2) >= 0 && (d2) < (s)->num_detectors_per_ring && (d1) != (d2))
#define TAB2_READER(f, ty)                                                                                            \
  ty TAB2_GET_##f(const struct PDI1* self, int d1, int d2)                                                            \
  __CPROVER_requires(self->tab2_initialised && D12_OK(self, d1, d2))                                                  \
  __CPROVER_assigns()                                                                                                 \
  __CPROVER_ensures((d1 == g_d1 && d2 == g_d2) ==> __CPROVER_return_value == g_cell2.f);
TAB2_READER(view_num, int)
TAB2_READER(tang_pos_num, int)
TAB2_READER(swap_detectors, _Bool)
#define g_read2 g_cell2
#define TAB2_INV(s, d1, d2) ((d1) == g_d1 && (d2) == g_d2 && INV_OK(g_cell2, g_d1, g_d2, (s)->num_detectors_per_ring))

#define MASH_OK(s) ((s)->view_mashing_factor >= 1 && ((s)->num_detectors_per_ring / 2) % (s)->view_mashing_factor == 0)

/* get_det_num_pair_for_view_tangential_pos_num: the detector pair of an (uncompressed) bin */
#define CONTRACT_K_get_det_num_pair_for_vt                                                                           \
  __CPROVER_requires(__CPROVER_is_fresh(self, sizeof(*self)) && __CPROVER_is_fresh(det1_num, sizeof(int)) && __CPROVER_is_fresh(det2_num, sizeof(int))) \
  __CPROVER_requires(PDI1_BASIC(self) && g_error == 0 && VT_IN_TABLE(view_num, tang_pos_num, NN))                     \
  __CPROVER_assigns(g_error, self->tab1_initialised, *det1_num, *det2_num)                                             \
  __CPROVER_ensures(g_error == ((!__CPROVER_old(self->tab1_initialised) && TANG_TOO_LARGE(self)) ? 1 : 0))            \
  __CPROVER_ensures(!g_error ==> (*det1_num == SPEC_DET1(view_num, tang_pos_num, NN) && *det2_num == SPEC_DET2(view_num, tang_pos_num, NN)))

/* get_view_tangential_pos_num_for_det_num_pair: the (mashed) view and tangential position of an ordered detector pair,
   and whether the pair is in the bin's own orientation */
#define CONTRACT_K_get_vt_for_det_num_pair                                                                           \
  __CPROVER_requires(__CPROVER_is_fresh(self, sizeof(*self)) && __CPROVER_is_fresh(view_num, sizeof(int)) && __CPROVER_is_fresh(tang_pos_num, sizeof(int))) \
  __CPROVER_requires(PDI1_BASIC(self) && MASH_OK(self) && g_error == 0 && D12_OK(self, det1_num, det2_num) && TAB2_INV(self, det1_num, det2_num)) \
  __CPROVER_assigns(g_error, self->tab2_initialised, *view_num, *tang_pos_num)                                \
  __CPROVER_ensures(g_error == ((!__CPROVER_old(self->tab2_initialised) && self->min_view_num != 0) ? 1 : 0))         \
  __CPROVER_ensures(!g_error ==> (INV_OK(g_read2, det1_num, det2_num, NN) && *view_num == g_read2.view_num / self->view_mashing_factor \
                                  && *tang_pos_num == g_read2.tang_pos_num && __CPROVER_return_value == g_read2.swap_detectors))

/* ring pair -> (segment, axial position): assumed here, decided by the ring-pair kernels (K_get_segment_axial_pos_num_for_ring_pair);
   ghosts record the arguments and results of the most recent call */
int g_rp_r1, g_rp_r2, g_rp_seg, g_rp_ax, g_rp_ok;
int K_ring_pair_to_seg_ax(const struct PDI1* self, int* segment_num, int* ax_pos_num, const int ring1, const int ring2)
__CPROVER_assigns(*segment_num, *ax_pos_num, g_rp_r1, g_rp_r2, g_rp_seg, g_rp_ax, g_rp_ok)
__CPROVER_ensures(g_rp_r1 == ring1 && g_rp_r2 == ring2 && (g_rp_ok == 0 || g_rp_ok == 1) && __CPROVER_return_value == g_rp_ok)
__CPROVER_ensures(g_rp_ok ==> (*segment_num == g_rp_seg && *ax_pos_num == g_rp_ax))
;
/* (segment, axial position) -> ring pair (span 1), same convention */
int g_sa_seg, g_sa_ax, g_sa_r1, g_sa_r2;
void K_seg_ax_to_ring_pair(const struct PDI1* self, int* ring1, int* ring2, const int segment_num, const int axial_pos_num)
__CPROVER_assigns(*ring1, *ring2, g_sa_seg, g_sa_ax, g_sa_r1, g_sa_r2, g_error)
__CPROVER_ensures(g_sa_seg == segment_num && g_sa_ax == axial_pos_num && (g_error || (*ring1 == g_sa_r1 && *ring2 == g_sa_r2 && g_sa_r1 >= 0 && g_sa_r2 >= 0)))
;

/* get_bin_for_det_pair. From the property: "exchanging the two detectors gives the same spatial bin with the TOF
   index negated": an ordered pair in the bin's own orientation keeps ring order and TOF index, the exchanged one gets the
   rings exchanged and the TOF index negated. */
#define TOF_IN_DOMAIN(t) ((t) > -(1 << 20) && (t) < (1 << 20))
#define CONTRACT_K_get_bin_for_det_pair                                                                              \
  __CPROVER_requires(__CPROVER_is_fresh(self, sizeof(*self)) && __CPROVER_is_fresh(bin, sizeof(*bin)))                 \
  __CPROVER_requires(PDI1_BASIC(self) && MASH_OK(self) && g_error == 0 && D12_OK(self, det_num1, det_num2) && TAB2_INV(self, det_num1, det_num2) && TOF_IN_DOMAIN(timing_pos_num)) \
  __CPROVER_assigns(g_error, self->tab2_initialised, *bin, g_rp_r1, g_rp_r2, g_rp_seg, g_rp_ax, g_rp_ok)      \
  __CPROVER_ensures(g_error == ((!__CPROVER_old(self->tab2_initialised) && self->min_view_num != 0) ? 1 : 0))         \
  __CPROVER_ensures(!g_error ==> (INV_OK(g_read2, det_num1, det_num2, NN) && bin->view_num == g_read2.view_num / self->view_mashing_factor \
                                  && bin->tangential_pos_num == g_read2.tang_pos_num))                                 \
  __CPROVER_ensures(!g_error ==> (g_read2.swap_detectors                                                               \
                                      ? (bin->timing_pos_num == timing_pos_num && g_rp_r1 == ring_num1 && g_rp_r2 == ring_num2) \
                                      : (bin->timing_pos_num == -timing_pos_num && g_rp_r1 == ring_num2 && g_rp_r2 == ring_num1))) \
  __CPROVER_ensures(!g_error ==> (__CPROVER_return_value == g_rp_ok && (g_rp_ok ==> (bin->segment_num == g_rp_seg && bin->axial_pos_num == g_rp_ax))))

/* stir::round(float) (round.inl): nearest integer, halves away from zero; defined where the result fits */
#define CONTRACT_K_round_float                                                                                       \
  /* domain: |x| < 2^23; beyond that x + 0.5F is not representable and the function is off by one for odd x (observed, DESIGN.md section 11) */ \
  __CPROVER_requires(x > -8388608.0f && x < 8388608.0f)                                                                        \
  __CPROVER_assigns()                                                                                                  \
  /* x + 0.5F is itself rounded: the largest float below 0.5 is sent to 1 (distance 0.5 + 2^-25), hence the slack */ \
  __CPROVER_ensures((double)__CPROVER_return_value - (double)x <= 0.5 + 6e-8 && (double)x - (double)__CPROVER_return_value <= 0.5 + 6e-8) \
  __CPROVER_ensures((double)x == (double)(int)x ==> __CPROVER_return_value == (int)x) \
  __CPROVER_ensures(((double)x - (double)__CPROVER_return_value == 0.5) ==> x < 0)                                     \
  __CPROVER_ensures(((double)__CPROVER_return_value - (double)x == 0.5) ==> x > 0)

/* get_bin_for_det_pos_pair: the TOF index of the pair is divided by the mashing factor and rounded (0 for non-TOF data) */
/* From the property ("each detector pair with its TOF index is assigned to at most one bin"): the mashed index is the
   unmashed one divided by the mashing factor f and rounded to nearest, halves away from zero - in integers:
   sign(t) * floor((2|t| + f) / 2f).  The code computes it in float: round((float)t / f). */
#define ABS_(t) ((t) < 0 ? -(t) : (t))
#define MASHED_TOF(s, t) ((s)->tof_mash_factor == 0 ? 0 : ((t) < 0 ? -1 : 1) * (int)((2L * ABS_(t) + (s)->tof_mash_factor) / (2L * (s)->tof_mash_factor)))
#ifdef C01_F
#define F_OK(f) ((f) == C01_F)
#else
#define F_OK(f) 1
#endif
#define CONTRACT_K_get_bin_for_det_pos_pair                                                                          \
  __CPROVER_requires(__CPROVER_is_fresh(self, sizeof(*self)) && __CPROVER_is_fresh(bin, sizeof(*bin)) && __CPROVER_is_fresh(dp, sizeof(*dp))) \
  __CPROVER_requires(PDI1_BASIC(self) && MASH_OK(self) && g_error == 0 && self->tof_mash_factor >= 0 && self->tof_mash_factor < 1024 && F_OK(self->tof_mash_factor)) \
  __CPROVER_requires(dp->p1_tang < (unsigned)NN && dp->p2_tang < (unsigned)NN && dp->p1_tang != dp->p2_tang            \
                     && dp->p1_axial < (1u << 20) && dp->p2_axial < (1u << 20) && TOF_IN_DOMAIN(dp->timing_pos)         \
                     && TAB2_INV(self, (int)dp->p1_tang, (int)dp->p2_tang))                                          \
  __CPROVER_assigns(g_error, self->tab2_initialised, *bin, g_rp_r1, g_rp_r2, g_rp_seg, g_rp_ax, g_rp_ok)      \
  __CPROVER_ensures(g_error == ((!__CPROVER_old(self->tab2_initialised) && self->min_view_num != 0) ? 1 : 0))         \
  __CPROVER_ensures(!g_error ==> (INV_OK(g_read2, (int)dp->p1_tang, (int)dp->p2_tang, NN) && bin->view_num == g_read2.view_num / self->view_mashing_factor \
                                  && bin->tangential_pos_num == g_read2.tang_pos_num))                                 \
  __CPROVER_ensures(!g_error ==> (g_read2.swap_detectors                                                               \
                                      ? (bin->timing_pos_num == MASHED_TOF(self, dp->timing_pos) && g_rp_r1 == (int)dp->p1_axial && g_rp_r2 == (int)dp->p2_axial) \
                                      : (bin->timing_pos_num == -MASHED_TOF(self, dp->timing_pos) && g_rp_r1 == (int)dp->p2_axial && g_rp_r2 == (int)dp->p1_axial))) \
  __CPROVER_ensures(!g_error ==> (__CPROVER_return_value == g_rp_ok && (g_rp_ok ==> (bin->segment_num == g_rp_seg && bin->axial_pos_num == g_rp_ax))))

/* get_det_pair_for_bin / get_det_pos_pair_for_bin (uncompressed data) */
#define BIN_VT_OK(s, b) VT_IN_TABLE((b)->view_num, (b)->tangential_pos_num, (s)->num_detectors_per_ring)
#define CONTRACT_K_get_det_pair_for_bin                                                                              \
  __CPROVER_requires(__CPROVER_is_fresh(self, sizeof(*self)) && __CPROVER_is_fresh(bin, sizeof(*bin)) && __CPROVER_is_fresh(det_num1, sizeof(int)) \
                     && __CPROVER_is_fresh(det_num2, sizeof(int)) && __CPROVER_is_fresh(ring_num1, sizeof(int)) && __CPROVER_is_fresh(ring_num2, sizeof(int))) \
  __CPROVER_requires(PDI1_BASIC(self) && g_error == 0 && BIN_VT_OK(self, bin) && (self->tab1_initialised || !TANG_TOO_LARGE(self))) \
  __CPROVER_assigns(g_error, self->tab1_initialised, *det_num1, *det_num2, *ring_num1, *ring_num2, g_sa_seg, g_sa_ax, g_sa_r1, g_sa_r2) \
  __CPROVER_ensures(!g_error ==> (*det_num1 == SPEC_DET1(bin->view_num, bin->tangential_pos_num, NN) && *det_num2 == SPEC_DET2(bin->view_num, bin->tangential_pos_num, NN))) \
  __CPROVER_ensures(!g_error ==> (g_sa_seg == bin->segment_num && g_sa_ax == bin->axial_pos_num && *ring_num1 == g_sa_r1 && *ring_num2 == g_sa_r2 && g_sa_r1 >= 0 && g_sa_r2 >= 0))
/* From the property (TOF clause): a bin with negative TOF index is reported as the exchanged pair with the positive
   (unmashed) index; a non-negative one in the bin's own orientation */
#define CONTRACT_K_get_det_pos_pair_for_bin                                                                          \
  __CPROVER_requires(__CPROVER_is_fresh(self, sizeof(*self)) && __CPROVER_is_fresh(bin, sizeof(*bin)) && __CPROVER_is_fresh(dp, sizeof(*dp))) \
  __CPROVER_requires(PDI1_BASIC(self) && g_error == 0 && BIN_VT_OK(self, bin) && (self->tab1_initialised || !TANG_TOO_LARGE(self)) \
                     && self->tof_mash_factor >= 0 && self->tof_mash_factor < 1024 && TOF_IN_DOMAIN(bin->timing_pos_num)) \
  __CPROVER_assigns(g_error, self->tab1_initialised, *dp, g_sa_seg, g_sa_ax, g_sa_r1, g_sa_r2)                          \
  __CPROVER_ensures(!g_error ==> (g_sa_seg == bin->segment_num && g_sa_ax == bin->axial_pos_num && g_sa_r1 >= 0 && g_sa_r2 >= 0)) \
  __CPROVER_ensures(!g_error ==> (bin->timing_pos_num >= 0                                                             \
        ? (dp->p1_tang == (unsigned)SPEC_DET1(bin->view_num, bin->tangential_pos_num, NN) && dp->p2_tang == (unsigned)SPEC_DET2(bin->view_num, bin->tangential_pos_num, NN) \
           && dp->p1_axial == (unsigned)g_sa_r1 && dp->p2_axial == (unsigned)g_sa_r2)                                  \
        : (dp->p2_tang == (unsigned)SPEC_DET1(bin->view_num, bin->tangential_pos_num, NN) && dp->p1_tang == (unsigned)SPEC_DET2(bin->view_num, bin->tangential_pos_num, NN) \
           && dp->p2_axial == (unsigned)g_sa_r1 && dp->p1_axial == (unsigned)g_sa_r2)))                                \
  __CPROVER_ensures(!g_error ==> dp->timing_pos == (bin->timing_pos_num < 0 ? -bin->timing_pos_num : bin->timing_pos_num) * self->tof_mash_factor)


/* ================= ring pairs <-> (segment, axial position): ProjDataInfoCylindrical ================= */
#define MAXSEGS 64
struct PDI2
{
  int min_seg, max_seg;                 /* get_min_segment_num(), get_max_segment_num() */
  int num_rings;                        /* get_scanner_ptr()->get_num_rings() */
  _Bool sampling_corresponds_to_physical_rings;
  _Bool ring_diff_arrays_computed;
  /* VectorWithOffset<int> with index range [min_seg,max_seg]; held as short: the domain of the proof is |value| < 2^15 for
     every segment (no quantifier needed) */
  short min_ring_diff[MAXSEGS], max_ring_diff[MAXSEGS], ax_pos_num_offset[MAXSEGS];
};
/* VectorWithOffset<int>::operator[] on a per-segment vector: unchecked in release builds, so an index outside
   [min_seg,max_seg] is an out-of-bounds access */
static inline int K_segvec_at(const short* a, const struct PDI2* self, int seg)
{
  __CPROVER_assert(seg >= self->min_seg && seg <= self->max_seg, "per-segment vector indexed inside [min_segment,max_segment]");
  return a[seg - self->min_seg];
}
#define SEGV(self, field, seg) K_segvec_at((self)->field, self, seg)
/* the invariant the constructors establish (ProjDataInfoCylindrical ctor swaps min/max if needed; the segments of CTI/GE
   style data have disjoint ring-difference intervals that increase with the segment number): ASSUMED here */
int g_s, g_s2; /* ghost segments: stand for "every (pair of) segment(s)" */
#define SEG_OK(p, s) ((s) >= (p)->min_seg && (s) <= (p)->max_seg)
#define RDMIN(p, s) ((p)->min_ring_diff[(s) - (p)->min_seg])
#define RDMAX(p, s) ((p)->max_ring_diff[(s) - (p)->min_seg])
#define AXOFF(p, s) ((p)->ax_pos_num_offset[(s) - (p)->min_seg])
#define INC(p, s) (RDMAX(p, s) != RDMIN(p, s) ? 2 : 1)
#define RD_IN(p, s, rd) (RDMIN(p, s) <= (rd) && (rd) <= RDMAX(p, s))
#define PDI2_VALID(p)                                                                                                 \
  ((p)->min_seg <= (p)->max_seg && (p)->min_seg > -1000 && (p)->max_seg < 1000 && (p)->max_seg - (p)->min_seg < MAXSEGS \
   && (p)->num_rings >= 1 && (p)->num_rings <= 4096                                                                   \
   && (!SEG_OK(p, g_s) || (RDMIN(p, g_s) <= RDMAX(p, g_s) && RDMIN(p, g_s) > -8192 && RDMAX(p, g_s) < 8192            \
                           && AXOFF(p, g_s) > -100000 && AXOFF(p, g_s) < 100000))                                     \
   && (!SEG_OK(p, g_s2) || (RDMIN(p, g_s2) <= RDMAX(p, g_s2) && RDMIN(p, g_s2) > -8192 && RDMAX(p, g_s2) < 8192       \
                            && AXOFF(p, g_s2) > -100000 && AXOFF(p, g_s2) < 100000))                                  \
   && (!(SEG_OK(p, g_s) && SEG_OK(p, g_s2) && g_s < g_s2) || RDMAX(p, g_s) < RDMIN(p, g_s2))                             \
   && (!(SEG_OK(p, g_s) && SEG_OK(p, g_s2) && g_s2 < g_s) || RDMAX(p, g_s2) < RDMIN(p, g_s))                             \
   && SEGIV_OK(p, (p)->min_seg) && SEGIV_OK(p, (p)->max_seg)                                                           \
   && (!(SEG_OK(p, g_s) && g_s < (p)->max_seg) || RDMAX(p, g_s) < RDMIN(p, (p)->max_seg))                              \
   && (!(SEG_OK(p, g_s) && g_s > (p)->min_seg) || RDMAX(p, (p)->min_seg) < RDMIN(p, g_s)))
#define SEGIV_OK(p, s) (RDMIN(p, s) <= RDMAX(p, s) && RDMIN(p, s) > -8192 && RDMAX(p, s) < 8192 && AXOFF(p, s) > -100000 && AXOFF(p, s) < 100000)

#define CONTRACT_K_get_num_axial_poss_per_ring_inc                                                                   \
  __CPROVER_requires(__CPROVER_is_fresh(self, sizeof(*self)) && self->min_seg > -1000 && self->max_seg < 1000 && SEG_OK(self, segment_num) && self->max_seg - self->min_seg < MAXSEGS) \
  __CPROVER_assigns()                                                                                                  \
  __CPROVER_ensures(__CPROVER_return_value == INC(self, segment_num))

/* ring_diff_to_segment_num[rd]: reader contract == what the fill loop of initialise_ring_diff_arrays establishes:
   the segment whose interval contains rd, or max_segment+1 ("impossible value") if there is none */
#define RDTAB_LO(p) K_min_int(RDMIN(p, (p)->min_seg), -((p)->num_rings - 1))
#define RDTAB_HI(p) K_max_int(RDMAX(p, (p)->max_seg), (p)->num_rings - 1)
int RD2SEG_READ(const struct PDI2* self, int rd)
__CPROVER_requires(self->ring_diff_arrays_computed && rd >= RDTAB_LO(self) && rd <= RDTAB_HI(self))
__CPROVER_assigns()
__CPROVER_ensures(__CPROVER_return_value >= self->min_seg && __CPROVER_return_value <= self->max_seg + 1)
__CPROVER_ensures(__CPROVER_return_value <= self->max_seg ==> RD_IN(self, __CPROVER_return_value, rd))
__CPROVER_ensures((SEG_OK(self, g_s) && RD_IN(self, g_s, rd)) ==> __CPROVER_return_value == g_s)
;
/* ---- "check min,max ring diff": the constructor swaps a reversed interval, initialise_ring_diff_arrays reports one as an error ----
   (the part of the class invariant PDI2_VALID that says RDMIN <= RDMAX for every segment; ghost segment g_s) */
static inline short* K_segvec_ptr(short* a, const struct PDI2* self, int seg)
{
  __CPROVER_assert(seg >= self->min_seg && seg <= self->max_seg, "per-segment vector indexed inside [min_segment,max_segment]");
  return &a[seg - self->min_seg];
}
#define SEGP(self, field, seg) K_segvec_ptr((self)->field, self, seg)
static inline void K_swap_short(short* a, short* b) { const short t = *a; *a = *b; *b = t; }
#define SEG_RANGE_OK(p) ((p)->min_seg <= (p)->max_seg && (p)->min_seg > -1000 && (p)->max_seg < 1000 && (p)->max_seg - (p)->min_seg < MAXSEGS)
#define CONTRACT_K_pdic_ctor_swap                                                                                    \
  __CPROVER_requires(__CPROVER_is_fresh(self, sizeof(*self)) && SEG_RANGE_OK(self) && g_s > -100000 && g_s < 100000)   \
  __CPROVER_requires(SEG_OK(self, g_s) ==> (g_old_min == RDMIN(self, g_s) && g_old_max == RDMAX(self, g_s)))           \
  __CPROVER_assigns(__CPROVER_object_whole(self))                                                                      \
  __CPROVER_ensures(self->min_seg == __CPROVER_old(self->min_seg) && self->max_seg == __CPROVER_old(self->max_seg))    \
  __CPROVER_ensures(SEG_OK(self, g_s) ==> (RDMIN(self, g_s) <= RDMAX(self, g_s)                                        \
                                           && ((RDMIN(self, g_s) == g_old_min && RDMAX(self, g_s) == g_old_max) || (RDMIN(self, g_s) == g_old_max && RDMAX(self, g_s) == g_old_min))))
int g_old_min, g_old_max; /* ghost: the interval ends of segment g_s on entry */
#define LC_K_pdic_ctor_swap_0                                                                                        \
  __CPROVER_assigns(segment_num, __CPROVER_object_whole(self))                                                         \
  __CPROVER_loop_invariant(SEG_RANGE_OK(self) && self->min_seg == __CPROVER_loop_entry(self->min_seg) && self->max_seg == __CPROVER_loop_entry(self->max_seg)) \
  __CPROVER_loop_invariant(segment_num >= self->min_seg && segment_num <= self->max_seg + 1)                           \
  __CPROVER_loop_invariant(SEG_OK(self, g_s) ==> (g_s < segment_num ? (RDMIN(self, g_s) <= RDMAX(self, g_s)           \
                                                       && ((RDMIN(self, g_s) == g_old_min && RDMAX(self, g_s) == g_old_max) || (RDMIN(self, g_s) == g_old_max && RDMAX(self, g_s) == g_old_min))) \
                                                                    : (RDMIN(self, g_s) == g_old_min && RDMAX(self, g_s) == g_old_max))) \
  __CPROVER_decreases(self->max_seg + 1 - segment_num)
#define CONTRACT_K_rda_check                                                                                         \
  __CPROVER_requires(__CPROVER_is_fresh(self, sizeof(*self)) && SEG_RANGE_OK(self) && g_error == 0)                    \
  __CPROVER_assigns(g_error)                                                                                           \
  __CPROVER_ensures((SEG_OK(self, g_s) && RDMIN(self, g_s) > RDMAX(self, g_s)) ==> g_error)
#define LC_K_rda_check_0                                                                                             \
  __CPROVER_assigns(segment_num, g_error)                                                                              \
  __CPROVER_loop_invariant(segment_num >= self->min_seg && segment_num <= self->max_seg + 1 && g_error == 0)           \
  __CPROVER_loop_invariant((SEG_OK(self, g_s) && g_s < segment_num) ==> RDMIN(self, g_s) <= RDMAX(self, g_s))          \
  __CPROVER_decreases(self->max_seg + 1 - segment_num)

/* ---- the block of initialise_ring_diff_arrays that FILLS ring_diff_to_segment_num (statement kernel) ----
   The table is projected onto the ghost ring difference g_rd: g_tab = its entry, [g_tab_lo, g_tab_hi] the allocated range.
   Postcondition = the reader contract RD2SEG_READ above (which the ring-pair kernels use): the entry is a segment whose
   interval contains g_rd, namely g_s if g_s's does, or max_segment+1 if no segment's does; plus: the table covers
   [RDTAB_LO, RDTAB_HI], every write is inside the allocated range. */
int g_rd, g_tab, g_tab_lo, g_tab_hi, g_tab_writes;
int K_min_rd(const struct PDI2* self) /* *min_element(min_ring_diff.begin(), min_ring_diff.end()) */
__CPROVER_assigns()
__CPROVER_ensures(SEG_OK(self, g_s) ==> __CPROVER_return_value <= RDMIN(self, g_s))
__CPROVER_ensures(SEG_OK(self, g_s2) ==> __CPROVER_return_value <= RDMIN(self, g_s2))
__CPROVER_ensures(__CPROVER_return_value <= RDMIN(self, self->min_seg) && __CPROVER_return_value > -8192)
;
int K_max_rd(const struct PDI2* self) /* *max_element(max_ring_diff.begin(), max_ring_diff.end()) */
__CPROVER_assigns()
__CPROVER_ensures(SEG_OK(self, g_s) ==> __CPROVER_return_value >= RDMAX(self, g_s))
__CPROVER_ensures(SEG_OK(self, g_s2) ==> __CPROVER_return_value >= RDMAX(self, g_s2))
__CPROVER_ensures(__CPROVER_return_value >= RDMAX(self, self->max_seg) && __CPROVER_return_value < 8192)
;
#define RD2SEG_ALLOC(lo, hi) (g_tab_lo = (lo), g_tab_hi = (hi))
#define RD2SEG_FILL(v) (g_tab = (v))
#define RD2SEG_WRITE(i, v)                                                                                            \
  do                                                                                                                  \
    {                                                                                                                 \
      __CPROVER_assert((i) >= g_tab_lo && (i) <= g_tab_hi, "ring_diff_to_segment_num written inside its index range"); \
      if ((i) == g_rd)                                                                                                \
        {                                                                                                             \
          g_tab = (v);                                                                                                \
          ++g_tab_writes;                                                                                             \
        }                                                                                                             \
    }                                                                                                                 \
  while (0)
/* what the loops establish without any assumption on the intervals: the entry is the FIRST (smallest) segment whose interval
   contains g_rd, or max_segment+1 if none does. With the class invariant "intervals of different segments are disjoint"
   (assumed, instantiated for the pair (entry, g_s)) this is the reader contract: lemma_rd2seg. */
#define RD2SEG_SPEC(self)                                                                                             \
  (g_tab >= self->min_seg && g_tab <= self->max_seg + 1 && (g_tab <= self->max_seg ==> RD_IN(self, g_tab, g_rd))      \
   && ((SEG_OK(self, g_s) && RD_IN(self, g_s, g_rd)) ==> g_tab <= g_s))
#define CONTRACT_K_rda_fill_rd2seg                                                                                   \
  __CPROVER_requires(__CPROVER_is_fresh(self, sizeof(*self)) && PDI2_VALID(self) && g_tab_writes == 0 && g_rd > -100000 && g_rd < 100000) \
  __CPROVER_assigns(g_tab, g_tab_lo, g_tab_hi, g_tab_writes)                                                           \
  __CPROVER_ensures(g_tab_lo <= RDTAB_LO(self) && g_tab_hi >= RDTAB_HI(self) && g_tab_lo <= -(self->num_rings - 1) && g_tab_hi >= self->num_rings - 1) \
  __CPROVER_ensures(g_tab_writes <= 1 && RD2SEG_SPEC(self))
#define LC_K_rda_fill_rd2seg_0                                                                                       \
  __CPROVER_assigns(ring_diff, g_tab, g_tab_writes)                                                                    \
  __CPROVER_loop_invariant(ring_diff >= min_ring_difference && ring_diff <= max_ring_difference + 1)                   \
  __CPROVER_loop_invariant(g_rd < ring_diff ? (g_tab_writes <= 1 && RD2SEG_SPEC(self)) : (g_tab == self->max_seg + 1 && g_tab_writes == 0)) \
  __CPROVER_decreases((long)max_ring_difference + 1 - ring_diff)
#define LC_K_rda_fill_rd2seg_1                                                                                       \
  __CPROVER_assigns(segment_num, g_tab, g_tab_writes)                                                                  \
  __CPROVER_loop_invariant(segment_num >= self->min_seg && segment_num <= self->max_seg + 1)                           \
  __CPROVER_loop_invariant((SEG_OK(self, g_s) && g_s < segment_num) ==> !RD_IN(self, g_s, ring_diff))                  \
  __CPROVER_loop_invariant(g_rd < ring_diff ? (g_tab_writes <= 1 && RD2SEG_SPEC(self)) : (g_tab == self->max_seg + 1 && g_tab_writes == 0)) \
  __CPROVER_decreases(self->max_seg + 1 - segment_num)
void K_init_ring_diff_arrays_if_not_done_yet(struct PDI2* self)
__CPROVER_requires(g_error == 0)
__CPROVER_assigns(self->ring_diff_arrays_computed, g_error)
__CPROVER_ensures(g_error || self->ring_diff_arrays_computed)
__CPROVER_ensures(__CPROVER_old(self->ring_diff_arrays_computed) ==> !g_error)
;
/* get_segment_num_for_ring_difference: yes iff some segment's interval contains the ring difference; then that segment */
#define CONTRACT_K_get_segment_num_for_ring_difference                                                               \
  __CPROVER_requires(__CPROVER_is_fresh(self, sizeof(*self)) && __CPROVER_is_fresh(segment_num, sizeof(int)) && PDI2_VALID(self) && g_error == 0) \
  __CPROVER_requires(ring_diff > -8192 && ring_diff < 8192)                                                            \
  __CPROVER_assigns(*segment_num, self->ring_diff_arrays_computed, g_error)                                            \
  __CPROVER_ensures(__CPROVER_old(self->ring_diff_arrays_computed) ==> (!g_error && self->ring_diff_arrays_computed))  \
  __CPROVER_ensures(!g_error ==> (__CPROVER_return_value == 0 || __CPROVER_return_value == 1))                         \
  __CPROVER_ensures((!g_error && __CPROVER_return_value == 1) ==> (self->sampling_corresponds_to_physical_rings && SEG_OK(self, *segment_num) && RD_IN(self, *segment_num, ring_diff))) \
  __CPROVER_ensures((!g_error && self->sampling_corresponds_to_physical_rings && SEG_OK(self, g_s) && RD_IN(self, g_s, ring_diff)) \
                    ==> (__CPROVER_return_value == 1 && *segment_num == g_s))

/* segment_axial_pos_to_ring1_plus_ring2[s][ax]: ASSUMED contract of the float block of initialise_ring_diff_arrays
   (under its own integrality test): ring1+ring2 == 2*ax/inc + ax_pos_num_offset[s] */
#define SPEC_RPR(p, s, ax) (2 * (ax) / INC(p, s) + AXOFF(p, s))
int RPR_READ(const struct PDI2* self, int seg, int ax)
__CPROVER_requires(self->ring_diff_arrays_computed && SEG_OK(self, seg) && ax > -100000 && ax < 100000)
__CPROVER_assigns()
__CPROVER_ensures(__CPROVER_return_value == SPEC_RPR(self, seg, ax))
;
/* get_segment_axial_pos_num_for_ring_pair. From the property ("every ring pair whose ring difference is covered lies
   in exactly one (segment, axial position)"): the segment is the one covering ring2-ring1; the axial position is the
   one whose ring1+ring2 equals this pair's (given the parity convention the constructor warns about) */
#define RING_OK(p, r) ((r) >= 0 && (r) < (p)->num_rings)
#define PARITY_OK(p, s) (INC(p, s) == 2 || (RDMAX(p, s) - AXOFF(p, s)) % 2 == 0)
#define CONTRACT_K_get_segment_axial_pos_num_for_ring_pair                                                           \
  __CPROVER_requires(__CPROVER_is_fresh(self, sizeof(*self)) && __CPROVER_is_fresh(segment_num, sizeof(int)) && __CPROVER_is_fresh(ax_pos_num, sizeof(int))) \
  __CPROVER_requires(PDI2_VALID(self) && g_error == 0 && RING_OK(self, ring1) && RING_OK(self, ring2))                \
  __CPROVER_assigns(*segment_num, *ax_pos_num, self->ring_diff_arrays_computed, g_error)                               \
  __CPROVER_ensures(__CPROVER_old(self->ring_diff_arrays_computed) ==> (!g_error && self->ring_diff_arrays_computed))  \
  __CPROVER_ensures(!g_error ==> (__CPROVER_return_value == 0 || __CPROVER_return_value == 1))                         \
  __CPROVER_ensures((!g_error && __CPROVER_return_value == 1) ==> (SEG_OK(self, *segment_num) && RD_IN(self, *segment_num, ring2 - ring1) \
                                                                   && *ax_pos_num > -50000 && *ax_pos_num < 50000))    \
  __CPROVER_ensures((!g_error && self->sampling_corresponds_to_physical_rings && SEG_OK(self, g_s) && RD_IN(self, g_s, ring2 - ring1)) \
                    ==> (__CPROVER_return_value == 1 && *segment_num == g_s))                                          \
  __CPROVER_ensures((!g_error && __CPROVER_return_value == 1 && *segment_num == g_s && PARITY_OK(self, g_s))           \
                    ==> SPEC_RPR(self, g_s, *ax_pos_num) == ring1 + ring2)

/* compute_segment_axial_pos_to_ring_pair: the list for (segment, axial position) holds exactly the ring pairs of the
   scanner with ring difference in the segment's interval and ring1+ring2 equal to this axial position's value - each once.
   Ghost pair (g_r1,g_r2): how often it is pushed. */
int g_r1, g_r2, g_rp_count_ghost;
unsigned long g_rp_pushed, g_rp_reserved;
#define RP_RESERVE(n) (g_rp_reserved = (unsigned long)(n))
#define RP_PUSH(r1, r2)                                                                                               \
  do                                                                                                                  \
    {                                                                                                                 \
      __CPROVER_assert(PAIR_BELONGS(self, segment_num, axial_pos_num, r1, r2), "only ring pairs of this (segment, axial position) are listed"); \
      ++g_rp_pushed;                                                                                                  \
      if ((r1) == g_r1 && (r2) == g_r2)                                                                               \
        ++g_rp_count_ghost;                                                                                           \
    }                                                                                                                 \
  while (0)
#define PAIR_BELONGS(p, s, ax, r1, r2)                                                                                \
  (RING_OK(p, r1) && RING_OK(p, r2) && RD_IN(p, s, (r2) - (r1)) && (r1) + (r2) == SPEC_RPR(p, s, ax))
#define CONTRACT_K_compute_segment_axial_pos_to_ring_pair                                                            \
  __CPROVER_requires(__CPROVER_is_fresh(self, sizeof(*self)) && PDI2_VALID(self) && g_s == segment_num && SEG_OK(self, segment_num)) \
  __CPROVER_requires(self->ring_diff_arrays_computed && axial_pos_num > -10000 && axial_pos_num < 10000 && g_rp_count_ghost == 0 && g_rp_pushed == 0) \
  __CPROVER_assigns(g_rp_count_ghost, g_rp_pushed, g_rp_reserved)                                                      \
  __CPROVER_ensures(g_rp_count_ghost == (PAIR_BELONGS(self, segment_num, axial_pos_num, g_r1, g_r2) ? 1 : 0))          \
  __CPROVER_ensures(g_rp_pushed <= g_rp_reserved)
#define RP_DONE (PAIR_BELONGS(self, segment_num, axial_pos_num, g_r1, g_r2) && g_r2 - g_r1 < ring_diff)
#define LC_K_compute_segment_axial_pos_to_ring_pair_0                                                                \
  __CPROVER_assigns(ring_diff, g_rp_count_ghost, g_rp_pushed)                                                          \
  /* NB the start value is min_ring_diff - 1 when min_ring_diff + ring1_plus_ring2 is negative and odd (C's %) */      \
  __CPROVER_loop_invariant(ring_diff >= min_ring_diff - 1 && ring_diff <= max_ring_diff + 2 && (ring_diff - ring1_plus_ring2) % 2 == 0) \
  __CPROVER_loop_invariant(ring_diff >= __CPROVER_loop_entry(ring_diff))                                               \
  __CPROVER_loop_invariant(g_rp_count_ghost == (RP_DONE ? 1 : 0))                                                      \
  __CPROVER_loop_invariant(g_rp_pushed <= (unsigned long)((ring_diff - __CPROVER_loop_entry(ring_diff)) / 2))          \
  __CPROVER_decreases(max_ring_diff + 2 - ring_diff)

/* get_ring_pair_for_segment_axial_pos_num (span 1 only): the unique ring pair of that (segment, axial position) */
#define CONTRACT_K_get_ring_pair_for_segment_axial_pos_num                                                           \
  __CPROVER_requires(__CPROVER_is_fresh(self, sizeof(*self)) && __CPROVER_is_fresh(ring1, sizeof(int)) && __CPROVER_is_fresh(ring2, sizeof(int))) \
  __CPROVER_requires(PDI2_VALID(self) && g_error == 0 && g_s == segment_num && SEG_OK(self, segment_num) && axial_pos_num > -10000 && axial_pos_num < 10000) \
  __CPROVER_assigns(*ring1, *ring2, self->ring_diff_arrays_computed, g_error)                                          \
  __CPROVER_ensures((!self->sampling_corresponds_to_physical_rings || RDMIN(self, segment_num) != RDMAX(self, segment_num)) ==> g_error) \
  __CPROVER_ensures((__CPROVER_old(self->ring_diff_arrays_computed) && self->sampling_corresponds_to_physical_rings && RDMIN(self, segment_num) == RDMAX(self, segment_num)) ==> !g_error) \
  __CPROVER_ensures(__CPROVER_old(self->ring_diff_arrays_computed) ==> self->ring_diff_arrays_computed)                \
  __CPROVER_ensures(!g_error ==> (*ring1 > -100000 && *ring1 < 100000 && *ring2 > -100000 && *ring2 < 100000))         \
  __CPROVER_ensures((!g_error && PARITY_OK(self, segment_num))                                                         \
                    ==> (*ring2 - *ring1 == RDMAX(self, segment_num) && *ring1 + *ring2 == SPEC_RPR(self, segment_num, axial_pos_num)))


/* ================= get_all_det_pos_pairs_for_bin / get_num_det_pos_pairs_for_bin ================= */
/* the ring-pair list of the bin's (segment, axial position): abstract sequence of g_nrp pairs; element g_j is (g_jfirst,g_jsecond) */
int g_nrp, g_j, g_jfirst, g_jsecond, g_rpl_seg, g_rpl_ax;
#define NRP_MAX 64
unsigned NUM_RP(const struct PDI1* self, int seg, int ax)
__CPROVER_assigns()
__CPROVER_ensures((seg == g_rpl_seg && ax == g_rpl_ax) ==> __CPROVER_return_value == (unsigned)g_nrp)
;
int RP_FIRST(int j)
__CPROVER_requires(0 <= j && j < g_nrp)
__CPROVER_assigns()
__CPROVER_ensures(__CPROVER_return_value >= 0 && __CPROVER_return_value < (1 << 20)) /* ring numbers (soundness assertion of the list filler) */
__CPROVER_ensures(j == g_j ==> __CPROVER_return_value == g_jfirst)
;
int RP_SECOND(int j)
__CPROVER_requires(0 <= j && j < g_nrp)
__CPROVER_assigns()
__CPROVER_ensures(__CPROVER_return_value >= 0 && __CPROVER_return_value < (1 << 20))
__CPROVER_ensures(j == g_j ==> __CPROVER_return_value == g_jsecond)
;
/* RingNumPairs& ring_pairs = get_all_ring_pairs_for_segment_axial_pos_num(seg, ax): must be the bin's own list */
#define RPLIST_GET(self, seg, ax) __CPROVER_assert((seg) == g_rpl_seg && (ax) == g_rpl_ax, "the ring-pair list of the bin's own (segment, axial position) is used")
/* std::vector<DetectionPositionPair<>> dps, projected onto ghost entry g_k */
unsigned long g_dps_size; int g_dps_resized;
unsigned long g_k;
struct DPP g_dp;
int g_wd_p1_tang, g_wd_p1_axial, g_wd_p2_tang, g_wd_p2_axial, g_wd_timing_pos;
#define DPS_RESIZE(n)                                                                                                 \
  do                                                                                                                  \
    {                                                                                                                 \
      g_dps_size = (n);                                                                                               \
      ++g_dps_resized;                                                                                                \
    }                                                                                                                 \
  while (0)
#define DPS_WRITE(idx, field, e)                                                                                      \
  do                                                                                                                  \
    {                                                                                                                 \
      __CPROVER_assert((unsigned long)(idx) < g_dps_size, "dps[] written inside the size it was resized to (std::vector::operator[] is unchecked)"); \
      if ((unsigned long)(idx) == g_k)                                                                                \
        {                                                                                                             \
          g_dp.field = (e);                                                                                           \
          ++g_wd_##field;                                                                                             \
        }                                                                                                             \
    }                                                                                                                 \
  while (0)
#define K_is_tof_data(s) ((s)->tof_mash_factor != 0)
#ifdef C01_M
#define M_OK(m) ((m) == C01_M)
#else
#define M_OK(m) 1
#endif
#ifdef C01_R
#define R_OK(r) ((r) == C01_R)
#else
#define R_OK(r) 1
#endif
#define CONTRACT_K_get_num_det_pos_pairs_for_bin                                                                     \
  __CPROVER_requires(__CPROVER_is_fresh(self, sizeof(*self)) && __CPROVER_is_fresh(bin, sizeof(*bin)))                 \
  __CPROVER_requires(self->view_mashing_factor >= 1 && self->view_mashing_factor <= 64 && self->tof_mash_factor >= 0 && self->tof_mash_factor < 1024 \
                     && g_nrp >= 0 && g_nrp <= NRP_MAX && bin->segment_num == g_rpl_seg && bin->axial_pos_num == g_rpl_ax) \
  __CPROVER_assigns()                                                                                                  \
  __CPROVER_ensures(__CPROVER_return_value == (unsigned)(g_nrp * self->view_mashing_factor * (ignore_non_spatial_dimensions ? 1 : (self->tof_mash_factor == 0 ? 1 : self->tof_mash_factor))))

/* From the property: "the set of detector pairs that a bin reports as contributing to it is exactly the set of pairs
   assigned to that bin, with the reported count": the list has count = ring pairs x view mashing x TOF mashing entries,
   every entry is written exactly once, and entry ((i * nrp + j) * T + l) is: the detector pair of uncompressed view
   view*mash+i at the bin's tangential position, the j-th ring pair of the bin's (segment, axial position), and the l-th
   unmashed TOF index of the bin's TOF index (tof*f - f/2 + l).  Ghost (g_i,g_j,g_l) stands for every entry.
   For an EVEN TOF mashing factor the bin's unmashed indices are not symmetric; the function must then report an error
   rather than write f+1 entries per slot. */
int g_i, g_l;
#define T_OF(s, ign) (((ign) || (s)->tof_mash_factor == 0) ? 1 : (s)->tof_mash_factor)
#define TOF_FACTOR_SUPPORTED(s, ign) ((ign) || (s)->tof_mash_factor == 0 || (s)->tof_mash_factor % 2 == 1)
#define CONTRACT_K_get_all_det_pos_pairs_for_bin                                                                     \
  __CPROVER_requires(__CPROVER_is_fresh(self, sizeof(*self)) && __CPROVER_is_fresh(bin, sizeof(*bin)))                 \
  __CPROVER_requires(PDI1_BASIC(self) && MASH_OK(self) && M_OK(self->view_mashing_factor) && self->view_mashing_factor <= 64 && g_error == 0 \
                     && self->tof_mash_factor >= 0 && self->tof_mash_factor < 1024 && F_OK(self->tof_mash_factor)         \
                     && (self->tab1_initialised || !TANG_TOO_LARGE(self)))                                             \
  __CPROVER_requires(bin->view_num >= 0 && bin->view_num < NN / 2 / self->view_mashing_factor                          \
                     && bin->tangential_pos_num >= MIN_TP(NN) && bin->tangential_pos_num <= MAX_TP(NN)                 \
                     && bin->timing_pos_num > -1024 && bin->timing_pos_num < 1024 && (self->tof_mash_factor > 0 || bin->timing_pos_num == 0)) \
  __CPROVER_requires(g_nrp >= 0 && g_nrp <= NRP_MAX && R_OK(g_nrp) && bin->segment_num == g_rpl_seg && bin->axial_pos_num == g_rpl_ax) \
  __CPROVER_requires(g_jfirst >= 0 && g_jfirst < (1 << 20) && g_jsecond >= 0 && g_jsecond < (1 << 20))                 \
  __CPROVER_requires(0 <= g_i && g_i < self->view_mashing_factor && 0 <= g_j && g_j < g_nrp && 0 <= g_l                \
                     && g_l < T_OF(self, ignore_non_spatial_dimensions)                                                \
                     && g_k == (unsigned long)((g_i * g_nrp + g_j) * T_OF(self, ignore_non_spatial_dimensions) + g_l)) \
  __CPROVER_requires(g_dps_resized == 0 && g_wd_p1_tang == 0 && g_wd_p1_axial == 0 && g_wd_p2_tang == 0 && g_wd_p2_axial == 0 && g_wd_timing_pos == 0) \
  __CPROVER_assigns(g_error, self->tab1_initialised, g_dps_size, g_dps_resized, g_dp, g_wd_p1_tang, g_wd_p1_axial, g_wd_p2_tang, g_wd_p2_axial, g_wd_timing_pos) \
  __CPROVER_ensures(!TOF_FACTOR_SUPPORTED(self, ignore_non_spatial_dimensions) ==> g_error)                            \
  __CPROVER_ensures(!g_error ==> (g_dps_resized == 1 && g_dps_size == (unsigned long)(g_nrp * self->view_mashing_factor * T_OF(self, ignore_non_spatial_dimensions)))) \
  __CPROVER_ensures(!g_error ==> (g_wd_p1_tang == 1 && g_wd_p1_axial == 1 && g_wd_p2_tang == 1 && g_wd_p2_axial == 1 && g_wd_timing_pos == 1)) \
  __CPROVER_ensures(!g_error ==> (g_dp.p1_tang == (unsigned)SPEC_DET1(bin->view_num * self->view_mashing_factor + g_i, bin->tangential_pos_num, NN) \
                                  && g_dp.p2_tang == (unsigned)SPEC_DET2(bin->view_num * self->view_mashing_factor + g_i, bin->tangential_pos_num, NN) \
                                  && g_dp.p1_axial == (unsigned)g_jfirst && g_dp.p2_axial == (unsigned)g_jsecond))     \
  __CPROVER_ensures(!g_error ==> g_dp.timing_pos == (ignore_non_spatial_dimensions ? 0 : bin->timing_pos_num * self->tof_mash_factor - self->tof_mash_factor / 2 + g_l))

#define TT (max_timing_pos_num - min_timing_pos_num + 1)
#define UI (uncompressed_view_num - bin->view_num * self->view_mashing_factor)
#define WD_ALL(c) (g_wd_p1_tang == (c) && g_wd_p1_axial == (c) && g_wd_p2_tang == (c) && g_wd_p2_axial == (c) && g_wd_timing_pos == (c))
#define DP_SPEC                                                                                                       \
  (g_dp.p1_tang == (unsigned)SPEC_DET1(bin->view_num * self->view_mashing_factor + g_i, bin->tangential_pos_num, NN)   \
   && g_dp.p2_tang == (unsigned)SPEC_DET2(bin->view_num * self->view_mashing_factor + g_i, bin->tangential_pos_num, NN) \
   && g_dp.p1_axial == (unsigned)g_jfirst && g_dp.p2_axial == (unsigned)g_jsecond && g_dp.timing_pos == min_timing_pos_num + g_l)
#define DP_ASSIGNS g_dp, g_wd_p1_tang, g_wd_p1_axial, g_wd_p2_tang, g_wd_p2_axial, g_wd_timing_pos
#define LC_K_get_all_det_pos_pairs_for_bin_0                                                                         \
  __CPROVER_assigns(uncompressed_view_num, current_dp_num, DP_ASSIGNS)                                                 \
  __CPROVER_loop_invariant(uncompressed_view_num >= bin->view_num * self->view_mashing_factor && uncompressed_view_num <= (bin->view_num + 1) * self->view_mashing_factor) \
  __CPROVER_loop_invariant(current_dp_num == (unsigned)(UI * g_nrp * TT))                                              \
  __CPROVER_loop_invariant(WD_ALL(g_i < UI ? 1 : 0) && (g_i < UI ==> DP_SPEC))                                         \
  __CPROVER_decreases(self->view_mashing_factor - UI)
#define DONE_J (g_i < UI || (g_i == UI && g_j < rings_iter))
#define LC_K_get_all_det_pos_pairs_for_bin_1                                                                         \
  __CPROVER_assigns(rings_iter, current_dp_num, DP_ASSIGNS)                                                            \
  __CPROVER_loop_invariant(0 <= rings_iter && rings_iter <= g_nrp)                                                     \
  __CPROVER_loop_invariant(current_dp_num == (unsigned)((UI * g_nrp + rings_iter) * TT))                               \
  __CPROVER_loop_invariant(WD_ALL(DONE_J ? 1 : 0) && (DONE_J ==> DP_SPEC))                                             \
  __CPROVER_decreases(g_nrp - rings_iter)
#define UL (uncompressed_timing_pos_num - min_timing_pos_num)
#define DONE_L (g_i < UI || (g_i == UI && (g_j < rings_iter || (g_j == rings_iter && g_l < UL))))
#define LC_K_get_all_det_pos_pairs_for_bin_2                                                                         \
  __CPROVER_assigns(uncompressed_timing_pos_num, current_dp_num, DP_ASSIGNS)                                           \
  __CPROVER_loop_invariant(uncompressed_timing_pos_num >= min_timing_pos_num && uncompressed_timing_pos_num <= max_timing_pos_num + 1) \
  __CPROVER_loop_invariant(current_dp_num == (unsigned)((UI * g_nrp + rings_iter) * TT + UL))                          \
  __CPROVER_loop_invariant(WD_ALL(DONE_L ? 1 : 0) && (DONE_L ==> DP_SPEC))                                             \
  __CPROVER_decreases(TT - UL)


/* ================= ProjDataInfo::ProjDataInfoCTI: span / max_delta -> segments (ProjDataInfo.cxx) =================
   Statement kernel: from the temporary ring-difference lists to the per-segment vectors handed to the constructor.
   Parametric in the span (job constant C01_SPAN); number of rings and max_delta symbolic.
   From the property ("ring pairs are partitioned over (segment, axial position): every ring pair whose ring difference is
   covered lies in exactly one"): the segments' ring-difference intervals are non-empty, symmetric about 0, contiguous,
   increasing with the segment number (hence pairwise disjoint) and cover exactly [-max_delta, max_delta] - this is what
   PDI2_VALID assumes of constructed data. */
#ifndef C01_SPAN
#define C01_SPAN 3
#endif
#define CTI_MAXR 128
static inline int K_vidx(int i, int n)
{
  __CPROVER_assert(i >= 0 && i < n, "std::vector<int>(num_ring) indexed inside its size");
  return i;
}
#define VIDX(i) K_vidx(i, num_ring)
/* the three output vectors, projected onto two ghost segments g_s, g_s2 */
int g_out_lo, g_out_hi, g_out_ranges;
struct SEGOUT { int min_ring_difference, max_ring_difference, num_axial_pos_per_segment; int w_min_ring_difference, w_max_ring_difference, w_num_axial_pos_per_segment; };
struct SEGOUT g_o1, g_o2;
#define OUT_RANGE(lo, hi)                                                                                             \
  do                                                                                                                  \
    {                                                                                                                 \
      __CPROVER_assert(g_out_ranges == 0 || (g_out_lo == (lo) && g_out_hi == (hi)), "the three per-segment vectors have the same index range"); \
      g_out_lo = (lo);                                                                                                \
      g_out_hi = (hi);                                                                                                \
      ++g_out_ranges;                                                                                                 \
    }                                                                                                                 \
  while (0)
#define OUT_WRITE(name, idx, e)                                                                                       \
  do                                                                                                                  \
    {                                                                                                                 \
      const int K_i = (idx);                                                                                          \
      const int K_e = (e);                                                                                            \
      __CPROVER_assert(g_out_ranges == 3 && K_i >= g_out_lo && K_i <= g_out_hi, "per-segment vector written inside its index range"); \
      if (K_i == g_s)                                                                                                 \
        {                                                                                                             \
          g_o1.name = K_e;                                                                                            \
          ++g_o1.w_##name;                                                                                            \
        }                                                                                                             \
      if (K_i == g_s2)                                                                                                \
        {                                                                                                             \
          g_o2.name = K_e;                                                                                            \
          ++g_o2.w_##name;                                                                                            \
        }                                                                                                             \
    }                                                                                                                 \
  while (0)
/* closed forms of the temporary lists (segment k >= 0), span = C01_SPAN */
#define CTI_A0 ((C01_SPAN % 2 == 1) ? -((C01_SPAN - 1) / 2) : -(C01_SPAN / 2))
#define CTI_B0 ((C01_SPAN % 2 == 1) ? CTI_A0 + C01_SPAN - 1 : CTI_A0 + C01_SPAN)
#define CTI_MIN(k) ((k) == 0 ? CTI_A0 : CTI_B0 + 1 + ((k)-1) * C01_SPAN)
#define CTI_MAXU(k) ((k) == 0 ? CTI_B0 : CTI_MIN(k) + C01_SPAN - 1) /* before the last segment is clipped to max_delta */
#define CTI_ABS(x) ((x) < 0 ? -(x) : (x))
#define CTI_TOP (g_out_hi) /* max_seg_num */
#define CTI_MAXC(k) (((k) == CTI_TOP && CTI_MAXU(k) > max_delta) ? max_delta : CTI_MAXU(k))
#define CTI_SPEC_MIN(sg) ((sg) >= 0 ? CTI_MIN(sg) : -CTI_MAXC(-(sg)))
#define CTI_SPEC_MAX(sg) ((sg) >= 0 ? CTI_MAXC(sg) : -CTI_MIN(-(sg)))
#define CTI_SPEC_NAX(sg) (C01_SPAN == 1 ? num_ring - CTI_ABS(sg) : ((sg) == 0 ? 2 * num_ring - 1 : 2 * num_ring - 1 - 2 * CTI_MIN(CTI_ABS(sg))))
#define SEGOUT_ONCE(o) ((o).w_min_ring_difference == 1 && (o).w_max_ring_difference == 1 && (o).w_num_axial_pos_per_segment == 1)
#define SEGOUT_SPEC(o, sg) ((o).min_ring_difference == CTI_SPEC_MIN(sg) && (o).max_ring_difference == CTI_SPEC_MAX(sg) && (o).num_axial_pos_per_segment == CTI_SPEC_NAX(sg))
#define CTI_ENS(c) __CPROVER_ensures(g_error || (c))
#define CONTRACT_K_cti_segments                                                                                      \
  __CPROVER_requires(span == C01_SPAN && num_ring >= 1 && num_ring <= CTI_MAXR && max_delta > -100000 && max_delta < 100000 && g_error == 0) \
  /* ghost list positions = the ghost segments' absolute values */                                                    \
  __CPROVER_requires(g_s > -1000 && g_s < 1000 && g_s2 > -1000 && g_s2 < 1000 && g_v == CTI_ABS(g_s) && g_tp == CTI_ABS(g_s2)) \
  __CPROVER_requires(g_out_ranges == 0 && g_o1.w_min_ring_difference == 0 && g_o1.w_max_ring_difference == 0 && g_o1.w_num_axial_pos_per_segment == 0 \
                     && g_o2.w_min_ring_difference == 0 && g_o2.w_max_ring_difference == 0 && g_o2.w_num_axial_pos_per_segment == 0) \
  __CPROVER_assigns(g_error, g_out_lo, g_out_hi, g_out_ranges, g_o1, g_o2)                                             \
  /* a span / max_delta combination for which no symmetric partition exists is reported as an error (segment 0 holds the    \
     ring differences -(span/2)..+(span/2), so max_delta must be at least span/2) */                                   \
  __CPROVER_ensures(g_error == ((max_delta > num_ring - 1 || span < 1 || span > 2 * num_ring - 1 || max_delta < span / 2) ? 1 : 0)) \
  CTI_ENS(g_out_ranges == 3 && g_out_lo == -g_out_hi && g_out_hi >= 0 && g_out_hi < num_ring)               \
  /* every segment's entries are written exactly once, with the closed-form values */                                 \
  CTI_ENS((g_s >= g_out_lo && g_s <= g_out_hi) ==> (SEGOUT_ONCE(g_o1) && SEGOUT_SPEC(g_o1, g_s)))            \
  CTI_ENS((g_s2 >= g_out_lo && g_s2 <= g_out_hi) ==> (SEGOUT_ONCE(g_o2) && SEGOUT_SPEC(g_o2, g_s2)))         \
  /* ... and those values form a partition of [-max_delta, max_delta] */                                              \
  CTI_ENS((g_s >= g_out_lo && g_s <= g_out_hi) ==> (g_o1.min_ring_difference <= g_o1.max_ring_difference && g_o1.num_axial_pos_per_segment >= 1)) \
  CTI_ENS((g_s >= g_out_lo && g_s2 <= g_out_hi && g_s < g_s2) ==> g_o1.max_ring_difference < g_o2.min_ring_difference) \
  CTI_ENS((g_s >= g_out_lo && g_s2 <= g_out_hi && g_s2 == g_s + 1) ==> g_o2.min_ring_difference == g_o1.max_ring_difference + 1) \
  CTI_ENS((g_s >= g_out_lo && g_s <= g_out_hi && g_s2 == -g_s) ==> g_o1.min_ring_difference == -g_o2.max_ring_difference) \
  CTI_ENS(g_s == g_out_hi ==> g_o1.max_ring_difference == max_delta)                                         \
  CTI_ENS(g_s == g_out_lo ==> g_o1.min_ring_difference == -max_delta)
/* while loop building the temporary lists; ghost indices g_v, g_tp stand for two arbitrary earlier entries */
#define TMP_OK(k) (RDmintmp[k] == CTI_MIN(k) && RDmaxtmp[k] == CTI_MAXU(k))
#define LC_K_cti_segments_0                                                                                          \
  __CPROVER_assigns(seg_num, __CPROVER_object_whole(RDmintmp), __CPROVER_object_whole(RDmaxtmp))                        \
  __CPROVER_loop_invariant(0 <= seg_num && seg_num < num_ring && TMP_OK(seg_num) && CTI_MAXU(seg_num) < max_delta + C01_SPAN + 1) \
  __CPROVER_loop_invariant((0 <= g_v && g_v <= seg_num) ==> TMP_OK(g_v))                                               \
  __CPROVER_loop_invariant((0 <= g_tp && g_tp <= seg_num) ==> TMP_OK(g_tp))                                            \
  __CPROVER_loop_invariant(seg_num == 0 || CTI_MAXU(seg_num - 1) < max_delta)                                          \
  __CPROVER_decreases(max_delta + C01_SPAN + 1 - CTI_MAXU(seg_num))
#define CTI_ASSIGNS g_o1, g_o2
#define CTI_DONE(o, sg, i) ((o).w_min_ring_difference == (((sg) == 0 || (CTI_ABS(sg) < (i) && CTI_ABS(sg) <= max_seg_num)) ? 1 : 0) \
                            && (o).w_max_ring_difference == (((sg) == 0 || (CTI_ABS(sg) < (i) && CTI_ABS(sg) <= max_seg_num)) ? 1 : 0))
#define CTI_RD_SPEC(o, sg) ((o).min_ring_difference == CTI_SPEC_MIN(sg) && (o).max_ring_difference == CTI_SPEC_MAX(sg))
#define LC_K_cti_segments_1                                                                                          \
  __CPROVER_assigns(i, CTI_ASSIGNS)                                                                                    \
  __CPROVER_loop_invariant(1 <= i && i <= max_seg_num + 1)                                                             \
  __CPROVER_loop_invariant(CTI_DONE(g_o1, g_s, i) && CTI_DONE(g_o2, g_s2, i))                                          \
  __CPROVER_loop_invariant(g_o1.w_num_axial_pos_per_segment == 0 && g_o2.w_num_axial_pos_per_segment == 0)             \
  __CPROVER_loop_invariant(((g_s == 0 || CTI_ABS(g_s) < i) && CTI_ABS(g_s) <= max_seg_num) ==> CTI_RD_SPEC(g_o1, g_s)) \
  __CPROVER_loop_invariant(((g_s2 == 0 || CTI_ABS(g_s2) < i) && CTI_ABS(g_s2) <= max_seg_num) ==> CTI_RD_SPEC(g_o2, g_s2)) \
  __CPROVER_decreases(max_seg_num + 1 - i)
#define NAX_DONE(o, sg, i) ((o).w_num_axial_pos_per_segment == (((sg) == 0 || (CTI_ABS(sg) < (i) && CTI_ABS(sg) <= max_seg_num)) ? 1 : 0))
#define LC_NAX                                                                                                        \
  __CPROVER_assigns(i, CTI_ASSIGNS)                                                                                    \
  __CPROVER_loop_invariant(1 <= i && i <= max_seg_num + 1)                                                             \
  __CPROVER_loop_invariant(NAX_DONE(g_o1, g_s, i) && NAX_DONE(g_o2, g_s2, i))                                          \
  __CPROVER_loop_invariant(g_o1.w_min_ring_difference == __CPROVER_loop_entry(g_o1.w_min_ring_difference) && g_o1.w_max_ring_difference == __CPROVER_loop_entry(g_o1.w_max_ring_difference) \
                           && g_o2.w_min_ring_difference == __CPROVER_loop_entry(g_o2.w_min_ring_difference) && g_o2.w_max_ring_difference == __CPROVER_loop_entry(g_o2.w_max_ring_difference) \
                           && g_o1.min_ring_difference == __CPROVER_loop_entry(g_o1.min_ring_difference) && g_o1.max_ring_difference == __CPROVER_loop_entry(g_o1.max_ring_difference) \
                           && g_o2.min_ring_difference == __CPROVER_loop_entry(g_o2.min_ring_difference) && g_o2.max_ring_difference == __CPROVER_loop_entry(g_o2.max_ring_difference)) \
  __CPROVER_loop_invariant(((g_s == 0 || CTI_ABS(g_s) < i) && CTI_ABS(g_s) <= max_seg_num) ==> g_o1.num_axial_pos_per_segment == CTI_SPEC_NAX(g_s)) \
  __CPROVER_loop_invariant(((g_s2 == 0 || CTI_ABS(g_s2) < i) && CTI_ABS(g_s2) <= max_seg_num) ==> g_o2.num_axial_pos_per_segment == CTI_SPEC_NAX(g_s2)) \
  __CPROVER_decreases(max_seg_num + 1 - i)
#define LC_K_cti_segments_2 LC_NAX
#define LC_K_cti_segments_3 LC_NAX


/* ================= the float block of initialise_ring_diff_arrays (three statement kernels) =================
   m_offset[s], ax_pos_num_offset[s] and segment_axial_pos_to_ring1_plus_ring2[s][ax] are computed in single precision with
   round().  Composition lemma (h_lemma_rpr, real bodies, every float ring spacing in [0.1, 100] mm): under the code's own
   integrality condition ((max_ax + min_ax) divisible by the axial positions per ring increment)
       ring1_plus_ring2[s][ax] == 2*ax/inc + ax_pos_num_offset[s]   and   ax_pos_num_offset[s] == num_rings - 1 - (max_ax + min_ax)/inc
   which is the reader contract SPEC_RPR the ring-pair kernels assume. */
#define CONTRACT_K_rda_m_offset
#define CONTRACT_K_rda_ax_offset
#define CONTRACT_K_rda_rpr
static inline float K_axial_sampling(float ring_spacing, int inc) { return ring_spacing / inc; } /* get_axial_sampling(): ring_spacing / get_num_axial_poss_per_ring_inc() */
#define K_round_value(x) K_round_float(x)
#endif
