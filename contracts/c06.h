/* Contracts for C06: ordered subsets partition the data; every subset once per iteration. */
#ifndef C06_CONTRACTS_H
#define C06_CONTRACTS_H
#include "contracts/prelude.h"

struct VS { int view_num; int segment_num; }; /* ViewSegmentNumbers */
struct SYM /* DataSymmetriesForBins_PET_CartesianGrid: the members the view/segment functions read */
{
  _Bool do_symmetry_90degrees_min_phi, do_symmetry_180degrees_min_phi, do_symmetry_swap_segment, do_symmetry_swap_s, do_symmetry_shift_z;
  int num_views;
};
#define MAXREL 8
struct VSVEC { int n; struct VS e[MAXREL]; }; /* std::vector<ViewSegmentNumbers> of the related view-segments (at most 8) */
struct PDI { int min_view_num, max_view_num, min_tof_pos_num, max_tof_pos_num; };
#ifndef C06_MAXVIEWS
#define C06_MAXVIEWS 4096
#endif
#define C06_MAXSEG 100000
int g_error;
_Bool g_fbchg;
/* spec helpers (defined in harness/c06.c): the real find_basic_view_segment_numbers applied to a copy */
_Bool FB_CHANGES(const struct SYM* self, int view, int seg);
int FB_VIEW(const struct SYM* self, int view, int seg);
int FB_SEG(const struct SYM* self, int view, int seg);

/* what the constructor establishes (DataSymmetriesForBins_PET_CartesianGrid.cxx: 90 => 180; 90 => views%4==0; 180 => views%2==0) */
#define SYM_VALID(s)                                                                                                  \
  ((s)->num_views >= 1 && (s)->num_views <= C06_MAXVIEWS                                                               \
   && (!(s)->do_symmetry_90degrees_min_phi || ((s)->do_symmetry_180degrees_min_phi && (s)->num_views % 4 == 0))        \
   && (!(s)->do_symmetry_180degrees_min_phi || (s)->num_views % 2 == 0))
#define VS_IN_DATA(s, v) ((v)->view_num >= 0 && (v)->view_num < (s)->num_views && (v)->segment_num >= -C06_MAXSEG && (v)->segment_num <= C06_MAXSEG)
#define VS_EQ(a, b) ((a).view_num == (b).view_num && (a).segment_num == (b).segment_num)
#define ABSI(x) ((x) < 0 ? -(x) : (x))

static inline void K_vsvec_push(struct VSVEC* v, int view, int seg)
{
  __CPROVER_assert(v->n < MAXREL, "related view-segment list fits in 8 entries");
  v->e[v->n].view_num = view;
  v->e[v->n].segment_num = seg;
  v->n++;
}

/* find_basic_view_segment_numbers: maps a view-segment to the representative of its symmetry class.
   From the property: the representative is related to the input by the enabled symmetries only
   (segment -> -segment; view -> views - view [180 degrees - phi]; additionally view -> view +- views/2 [90 degrees]),
   lies inside the data, and the "changed" flag is truthful. */
#define REL_VIEW(s, v0, v1)                                                                                           \
  ((s)->do_symmetry_90degrees_min_phi                                                                                  \
       ? ((((v1) - (v0)) % ((s)->num_views / 2) == 0) || (((v1) + (v0)) % ((s)->num_views / 2) == 0))                   \
       : ((s)->do_symmetry_180degrees_min_phi ? ((v1) == (v0) || (v1) + (v0) == (s)->num_views) : (v1) == (v0)))
#define REL_SEG(s, s0, s1) ((s1) == (s0) || ((s)->do_symmetry_swap_segment && (s1) == -(s0)))
#define CONTRACT_K_find_basic_vs                                                                                     \
  __CPROVER_requires(__CPROVER_is_fresh(self, sizeof(*self)) && __CPROVER_is_fresh(v_s, sizeof(*v_s)))                 \
  __CPROVER_requires(SYM_VALID(self) && VS_IN_DATA(self, v_s))                                                         \
  __CPROVER_assigns(*v_s)                                                                                              \
  __CPROVER_ensures(VS_IN_DATA(self, v_s))                                                                             \
  __CPROVER_ensures(REL_VIEW(self, __CPROVER_old(v_s->view_num), v_s->view_num) && REL_SEG(self, __CPROVER_old(v_s->segment_num), v_s->segment_num)) \
  __CPROVER_ensures(__CPROVER_return_value == (v_s->view_num != __CPROVER_old(v_s->view_num) || v_s->segment_num != __CPROVER_old(v_s->segment_num)))

#define CONTRACT_K_is_basic                                                                                          \
  __CPROVER_requires(SYM_VALID(self) && VS_IN_DATA(self, v_s))                                                         \
  __CPROVER_assigns()                                                                                                  \
  /* g_fbchg: ghost set by the harness = "find_basic_view_segment_numbers would change this view-segment" */          \
  __CPROVER_ensures(__CPROVER_return_value == !g_fbchg)

#define CONTRACT_K_num_related                                                                                       \
  __CPROVER_requires(__CPROVER_is_fresh(self, sizeof(*self)) && __CPROVER_is_fresh(vs, sizeof(*vs)))                   \
  __CPROVER_requires(SYM_VALID(self) && VS_IN_DATA(self, vs))                                                          \
  __CPROVER_assigns()                                                                                                  \
  __CPROVER_ensures(__CPROVER_return_value == 1 || __CPROVER_return_value == 2 || __CPROVER_return_value == 4 || __CPROVER_return_value == 8)

/* get_related_view_segment_numbers(vs) for a basic vs: exactly the symmetry class of vs, each member once.
   ghost indices g_a, g_b stand for "every (pair of) list position(s)". */
int g_a, g_b;
#define CONTRACT_K_get_related                                                                                       \
  __CPROVER_requires(__CPROVER_is_fresh(self, sizeof(*self)) && __CPROVER_is_fresh(vs, sizeof(*vs)) && __CPROVER_is_fresh(rel_vs, sizeof(*rel_vs))) \
  __CPROVER_requires(SYM_VALID(self) && VS_IN_DATA(self, vs) && !FB_CHANGES(self, vs->view_num, vs->segment_num))      \
  __CPROVER_assigns(*rel_vs)                                                                                           \
  __CPROVER_ensures(rel_vs->n >= 1 && rel_vs->n <= MAXREL && rel_vs->n == K_num_related(self, vs))                     \
  __CPROVER_ensures(VS_EQ(rel_vs->e[0], *vs))                                                                          \
  /* each member lies in the data, and belongs to the class of vs (its representative is vs) */                      \
  __CPROVER_ensures((0 <= g_a && g_a < rel_vs->n) ==> (VS_IN_DATA(self, &rel_vs->e[g_a])                               \
                    && ABSI(rel_vs->e[g_a].segment_num) == ABSI(vs->segment_num)                                       \
                    && FB_VIEW(self, rel_vs->e[g_a].view_num, rel_vs->e[g_a].segment_num) == vs->view_num             \
                    && FB_SEG(self, rel_vs->e[g_a].view_num, rel_vs->e[g_a].segment_num) == vs->segment_num))         \
  /* no member twice */                                                                                              \
  __CPROVER_ensures((0 <= g_a && g_a < g_b && g_b < rel_vs->n) ==> !VS_EQ(rel_vs->e[g_a], rel_vs->e[g_b]))

/* ---- find_basic_vs_nums_in_subset: ghost view-segment (g_view,g_seg); ghost counters for the output vector ---- */
int g_view, g_seg;
_Bool g_isbasic; /* ghost: is_basic(g_view,g_seg), fixed by the harness from the real find_basic_view_segment_numbers */
unsigned long out_n; /* number of push_back calls (unsigned: only counted, never constrained) */
int out_ghost;   /* how many of them pushed (g_view,g_seg) */
#define K_OUT_PUSH(view, seg)                                                                                         \
  do                                                                                                                  \
    {                                                                                                                 \
      out_n++;                                                                                                        \
      if ((view) == g_view && (seg) == g_seg)                                                                         \
        out_ghost++;                                                                                                  \
    }                                                                                                                 \
  while (0)
/* is_basic as seen by the subset loop: for the ghost pair it returns g_isbasic, for any other pair anything */
_Bool K_is_basic_ghost(int view, int seg)
__CPROVER_assigns()
__CPROVER_ensures((view == g_view && seg == g_seg) ==> __CPROVER_return_value == g_isbasic)
;
#ifdef C06_S
#define C06_S_OK(n) ((n) == C06_S) /* parametric proof: one job per number of subsets */
#else
#define C06_S_OK(n) 1
#endif
#define FIRST_VIEW (pdi->min_view_num + subset_num)
/* the ghost pair belongs to this subset's output iff ... (from the property: residue class of the view, inside the
   segment range, basic) */
#define IN_SUBSET                                                                                                     \
  (g_isbasic && min_segment_num <= g_seg && g_seg <= max_segment_num && g_view >= FIRST_VIEW && g_view <= pdi->max_view_num \
   && (g_view - FIRST_VIEW) % num_subsets == 0)
#define CONTRACT_K_find_basic_vs_nums_in_subset                                                                      \
  __CPROVER_requires(__CPROVER_is_fresh(pdi, sizeof(*pdi)))                                                            \
  __CPROVER_requires(pdi->min_view_num >= 0 && pdi->max_view_num < C06_MAXVIEWS && pdi->max_view_num >= -1 && pdi->min_view_num <= pdi->max_view_num + 1) \
  __CPROVER_requires(pdi->max_tof_pos_num >= 0 && pdi->max_tof_pos_num < 1000 && pdi->min_tof_pos_num == -pdi->max_tof_pos_num) \
  __CPROVER_requires(num_subsets >= 1 && num_subsets <= C06_MAXVIEWS && 0 <= subset_num && subset_num < num_subsets)   \
  __CPROVER_requires(C06_S_OK(num_subsets))                                                                            \
  __CPROVER_requires(-C06_MAXSEG <= min_segment_num && max_segment_num <= C06_MAXSEG && max_segment_num >= -C06_MAXSEG - 1 && min_segment_num <= max_segment_num + 1) \
  __CPROVER_requires(out_n == 0 && out_ghost == 0)                                                                     \
  __CPROVER_assigns(out_n, out_ghost)                                                                                  \
  /* every view-segment is emitted exactly once if it belongs to this subset, and never otherwise - in particular      \
     never once per TOF bin */                                                                                        \
  __CPROVER_ensures(out_ghost == (IN_SUBSET ? 1 : 0))
#define LC_K_find_basic_vs_nums_in_subset_0                                                                          \
  __CPROVER_assigns(segment_num, out_n, out_ghost)                                                                     \
  __CPROVER_loop_invariant(min_segment_num <= segment_num && segment_num <= max_segment_num + 1)          \
  __CPROVER_loop_invariant(out_ghost == ((IN_SUBSET && g_seg < segment_num) ? 1 : 0))                                  \
  __CPROVER_decreases((long)max_segment_num + 1 - segment_num)
#define LC_K_find_basic_vs_nums_in_subset_1                                                                          \
  __CPROVER_assigns(timing_pos_num, out_n, out_ghost)                                                                  \
  __CPROVER_loop_invariant(pdi->max_tof_pos_num <= timing_pos_num && timing_pos_num <= pdi->max_tof_pos_num + 1) \
  __CPROVER_loop_invariant(out_ghost == ((IN_SUBSET && (g_seg < segment_num || (g_seg == segment_num && timing_pos_num > pdi->max_tof_pos_num))) ? 1 : 0)) \
  __CPROVER_decreases((long)pdi->max_tof_pos_num + 1 - timing_pos_num)
#define LC_K_find_basic_vs_nums_in_subset_2                                                                          \
  __CPROVER_assigns(view, out_n, out_ghost)                                                                            \
  __CPROVER_loop_invariant(view >= FIRST_VIEW && view <= pdi->max_view_num + num_subsets && (view - FIRST_VIEW) % num_subsets == 0) \
  __CPROVER_loop_invariant(out_ghost == ((IN_SUBSET && (g_seg < segment_num || (g_seg == segment_num && g_view < view))) ? 1 : 0)) \
  __CPROVER_decreases((long)pdi->max_view_num + num_subsets - view)

/* ---- actual_subsets_are_approximately_balanced (PoissonLogLikelihoodWithLinearModelForMeanAndProjData.cxx), two statement kernels ----
   From the property: "Subsets are reported as balanced exactly when all subsets process the same number of viewgrams."
   Counting loops: the entry of subset s receives, exactly once, num_related(pair) for every pair that
   find_basic_vs_nums_in_subset hands to subset s (same membership predicate IN_SUBSET, segment range
   [-max_segment_num_to_process, max_segment_num_to_process]) - and lemma_related_count shows num_related(pair) is the number
   of viewgrams processed for that pair. Ghost pair (g_view,g_seg), ghost subset g_sub. */
int g_sub, g_nrel, g_add_bad;
int K_num_related_ghost(int view, int seg)
__CPROVER_assigns()
__CPROVER_ensures(__CPROVER_return_value >= 1 && __CPROVER_return_value <= 8)
__CPROVER_ensures((view == g_view && seg == g_seg) ==> __CPROVER_return_value == g_nrel)
;
/* num_vs_in_subset[s] += val for the pair (view, seg) */
#define K_COUNT_ADD(s, view, seg, val)                                                                                \
  do                                                                                                                  \
    {                                                                                                                 \
      const int K_val = (val);                                                                                        \
      __CPROVER_assert((s) >= 0 && (s) < num_subsets, "num_vs_in_subset indexed inside [0,num_subsets)");             \
      out_n++;                                                                                                        \
      if ((view) == g_view && (seg) == g_seg && (s) == g_sub)                                                         \
        {                                                                                                             \
          if (K_val == g_nrel)                                                                                        \
            out_ghost++;                                                                                              \
          else                                                                                                        \
            g_add_bad++; /* the pair was counted with a weight other than its number of related viewgrams */         \
        }                                                                                                             \
    }                                                                                                                 \
  while (0)
#define IN_SUBSET_B                                                                                                   \
  (g_isbasic && -max_segment_num_to_process <= g_seg && g_seg <= max_segment_num_to_process && g_view >= pdi->min_view_num + g_sub \
   && g_view <= pdi->max_view_num && (g_view - pdi->min_view_num - g_sub) % num_subsets == 0)
#define CONTRACT_K_balanced_count                                                                                     \
  __CPROVER_requires(__CPROVER_is_fresh(pdi, sizeof(*pdi)))                                                            \
  __CPROVER_requires(pdi->min_view_num >= 0 && pdi->max_view_num < C06_MAXVIEWS && pdi->max_view_num >= -1 && pdi->min_view_num <= pdi->max_view_num + 1) \
  __CPROVER_requires(num_subsets >= 1 && num_subsets <= C06_MAXVIEWS && C06_S_OK(num_subsets) && 0 <= g_sub && g_sub < num_subsets) \
  __CPROVER_requires(max_segment_num_to_process >= 0 && max_segment_num_to_process <= C06_MAXSEG)                      \
  __CPROVER_requires(out_n == 0 && out_ghost == 0 && g_add_bad == 0)                                                   \
  __CPROVER_assigns(out_n, out_ghost, g_add_bad)                                                                       \
  __CPROVER_ensures(out_ghost == (IN_SUBSET_B ? 1 : 0))                                                                \
  __CPROVER_ensures(g_add_bad == 0)
#define BEFORE_B(cond) ((IN_SUBSET_B && (cond)) ? 1 : 0)
#define LC_K_balanced_count_0                                                                                         \
  __CPROVER_assigns(subset_num, out_n, out_ghost, g_add_bad)                                                           \
  __CPROVER_loop_invariant(0 <= subset_num && subset_num <= num_subsets && g_add_bad == 0)                             \
  __CPROVER_loop_invariant(out_ghost == BEFORE_B(g_sub < subset_num))                                                  \
  __CPROVER_decreases(num_subsets - subset_num)
#define LC_K_balanced_count_1                                                                                         \
  __CPROVER_assigns(segment_num, out_n, out_ghost, g_add_bad)                                                          \
  __CPROVER_loop_invariant(-max_segment_num_to_process <= segment_num && segment_num <= max_segment_num_to_process + 1 && g_add_bad == 0) \
  __CPROVER_loop_invariant(out_ghost == BEFORE_B(g_sub < subset_num || (g_sub == subset_num && g_seg < segment_num)))  \
  __CPROVER_decreases((long)max_segment_num_to_process + 1 - segment_num)
#define LC_K_balanced_count_2                                                                                         \
  __CPROVER_assigns(view_num, out_n, out_ghost, g_add_bad)                                                             \
  __CPROVER_loop_invariant(view_num >= pdi->min_view_num + subset_num && view_num <= pdi->max_view_num + num_subsets   \
                           && (view_num - pdi->min_view_num - subset_num) % num_subsets == 0 && g_add_bad == 0)        \
  __CPROVER_loop_invariant(out_ghost == BEFORE_B(g_sub < subset_num || (g_sub == subset_num && (g_seg < segment_num || (g_seg == segment_num && g_view < view_num))))) \
  __CPROVER_decreases((long)pdi->max_view_num + num_subsets - view_num)
/* verdict loop: true exactly when every entry equals entry 0 (ghost subset g_sub stands for every subset; on 'false' the
   kernel's own witness g_w - the subset named in the warning - differs from entry 0) */
int g_w;
#define K_RECORD_WITNESS(s) (g_w = (s))
#ifndef C06_S
#define C06_S 4
#endif
#define CONTRACT_K_balanced_verdict                                                                                   \
  __CPROVER_requires(num_subsets == C06_S && __CPROVER_is_fresh(num_vs_in_subset, C06_S * sizeof(int)) && 0 <= g_sub && g_sub < num_subsets) \
  __CPROVER_assigns(g_w)                                                                                               \
  __CPROVER_ensures(__CPROVER_return_value ==> num_vs_in_subset[g_sub] == num_vs_in_subset[0])                         \
  __CPROVER_ensures(!__CPROVER_return_value ==> (1 <= g_w && g_w < num_subsets && num_vs_in_subset[g_w] != num_vs_in_subset[0]))
#define LC_K_balanced_verdict_0                                                                                       \
  __CPROVER_assigns(subset_num, g_w)                                                                                   \
  __CPROVER_loop_invariant(1 <= subset_num && subset_num <= (num_subsets > 1 ? num_subsets : 1))                       \
  __CPROVER_loop_invariant(g_sub < subset_num ==> num_vs_in_subset[g_sub] == num_vs_in_subset[0])                      \
  __CPROVER_decreases(num_subsets - subset_num)

/* ---- IterativeReconstruction::reconstruct: the loop over sub-iterations (statement kernel) ----
   From the property ("Within each full iteration every subset is used exactly once"): get_subset_num() is a function of
   subiteration_num (kernel above), so the driver has to present the sub-iteration numbers start, start+1, ...,
   num_subiterations to update_estimate exactly once each, in this order, unless the run is terminated early
   (terminate_iterations, set by end_of_iteration_processing: nondeterministic here). Ghost sub-iteration g_k. */
struct IRL { int subiteration_num, start_subiteration_num, num_subiterations; int terminate_iterations; };
int g_k, g_upd_calls, g_upd_last, g_upd_order_bad;
static inline void K_call_update_estimate(struct IRL* self)
{
  if (self->subiteration_num == g_k)
    ++g_upd_calls;
  if (g_upd_last != self->subiteration_num - 1)
    g_upd_order_bad = 1; /* a sub-iteration was skipped or repeated */
  g_upd_last = self->subiteration_num;
}
static inline void K_call_end_of_iteration_processing(struct IRL* self)
{
  if (nondet_bool())
    self->terminate_iterations = 1;
}
#define CONTRACT_K_ir_reconstruct_loop                                                                               \
  __CPROVER_requires(__CPROVER_is_fresh(self, sizeof(*self)) && self->start_subiteration_num >= 1 && self->num_subiterations >= 0 && self->num_subiterations < 1000000 \
                     && self->start_subiteration_num < 1000000 && self->terminate_iterations == 0)                    \
  __CPROVER_requires(g_upd_calls == 0 && g_upd_order_bad == 0 && g_upd_last == self->start_subiteration_num - 1)       \
  __CPROVER_assigns(self->subiteration_num, self->terminate_iterations, g_upd_calls, g_upd_last, g_upd_order_bad)      \
  __CPROVER_ensures(g_upd_order_bad == 0 && g_upd_calls <= 1)                                                          \
  __CPROVER_ensures(!(g_k >= self->start_subiteration_num && g_k <= self->num_subiterations) ==> g_upd_calls == 0)     \
  __CPROVER_ensures((!self->terminate_iterations && g_k >= self->start_subiteration_num && g_k <= self->num_subiterations) ==> g_upd_calls == 1) \
  __CPROVER_ensures(g_upd_calls == (g_k >= self->start_subiteration_num && g_k <= g_upd_last ? 1 : 0))
#define LC_K_ir_reconstruct_loop_0                                                                                   \
  __CPROVER_assigns(self->subiteration_num, self->terminate_iterations, g_upd_calls, g_upd_last, g_upd_order_bad)      \
  __CPROVER_loop_invariant(self->subiteration_num >= self->start_subiteration_num && self->subiteration_num <= (self->num_subiterations > self->start_subiteration_num - 1 ? self->num_subiterations : self->start_subiteration_num - 1) + 1) \
  __CPROVER_loop_invariant(g_upd_order_bad == 0 && g_upd_last == self->subiteration_num - 1)                           \
  __CPROVER_loop_invariant(g_upd_calls == ((g_k >= self->start_subiteration_num && g_k < self->subiteration_num) ? 1 : 0)) \
  __CPROVER_loop_invariant(self->terminate_iterations == 0 || self->terminate_iterations == 1)                         \
  __CPROVER_decreases((long)self->num_subiterations + 2 - self->subiteration_num)

/* ---- IterativeReconstruction::get_subset_num ---- */
#define MAXSUB 128
struct IVEC { int n; int e[MAXSUB]; }; /* VectorWithOffset<int> _current_subset_array (index range [0,n)) */
struct IR { int subiteration_num, num_subsets, start_subset_num; int randomise_subset_order; struct IVEC _current_subset_array; };
static inline int K_ivec_at(const struct IVEC* v, int i)
{
  __CPROVER_assert(0 <= i && i < v->n, "_current_subset_array index inside its range (VectorWithOffset::operator[] has no check in release builds)");
  return v->e[i];
}
/* randomly_permute_subset_order(): the REAL body is kernel K_randomly_permute_subset_order; the jobs of get_subset_num replace the call by this contract.
   Result: index range [0,num_subsets), every element a subset number, no subset number twice (ghost indices g_a < g_b) = a permutation. */
#ifndef RAND_MAX
#define RAND_MAX 2147483647 /* glibc */
#endif
static inline int K_rand(void) { int r = nondet_int(); __CPROVER_assume(0 <= r && r <= RAND_MAX); /* rand(): C standard */ return r; }
#define RP_CAT_(a, b) a##b
#define RP_CAT(a, b) RP_CAT_(a, b)
#define RP_STR_(x) #x
#define RP_STR(x) RP_STR_(x)
#if defined(C06_S) && C06_S <= 96
#define RP_N C06_S
#include RP_STR(RP_CAT(rpso_inv_, C06_S).h)
#else /* jobs in which this kernel is not called at all */
#define RP_N MAXSUB
#define RP_INIT(i) 1
#define RP_RANGE(m) 1
#define RP_VRANGE(m, j) 1
#define RP_COUNT_T(m, g) 1
#define RP_COUNT_V(m, j, g) 0
#define RP_COUNT_F(i, g) 1
#define RP_COUNT_P(p, g) 1
#endif
int g_val; /* ghost: any subset number */
#define CONTRACT_K_randomly_permute_subset_order                                                                     \
  __CPROVER_requires(__CPROVER_is_fresh(self, sizeof(*self)) && __CPROVER_is_fresh(out, sizeof(*out)))                 \
  __CPROVER_requires(self->num_subsets >= 1 && self->num_subsets <= MAXSUB && C06_S_OK(self->num_subsets))             \
  __CPROVER_assigns(*out)                                                                                              \
  __CPROVER_ensures(out->n == self->num_subsets)                                                                       \
  __CPROVER_ensures(!(0 <= g_a && g_a < out->n) || (0 <= out->e[g_a] && out->e[g_a] < self->num_subsets))              \
  __CPROVER_ensures(!(0 <= g_b && g_b < out->n) || (0 <= out->e[g_b] && out->e[g_b] < self->num_subsets))              \
  /* every subset number occurs exactly once among the num_subsets elements */                                      \
  __CPROVER_ensures(!(0 <= g_val && g_val < self->num_subsets) || RP_COUNT_F(RP_N, g_val) == 1)
/* loop 0: temp_array[k] = k */
#define LC_K_randomly_permute_subset_order_0                                                                         \
  __CPROVER_assigns(i, __CPROVER_object_whole(temp_array))                                                             \
  __CPROVER_loop_invariant(0 <= i && i <= RP_N && RP_INIT(i))                                                          \
  __CPROVER_decreases(RP_N - i)
/* loop 1: i elements drawn into the result; the RP_N - i not yet drawn are temp_array[0 .. RP_N-i): g_val is in exactly one of the two */
#define LC_K_randomly_permute_subset_order_1                                                                         \
  __CPROVER_assigns(i, index, __CPROVER_object_whole(temp_array), __CPROVER_object_whole(out->e))                      \
  __CPROVER_loop_invariant(0 <= i && i <= RP_N && out->n == RP_N)                                                      \
  __CPROVER_loop_invariant(RP_RANGE(RP_N - i))                                                                         \
  __CPROVER_loop_invariant(!(0 <= g_a && g_a < i) || (0 <= out->e[g_a] && out->e[g_a] < RP_N))                         \
  __CPROVER_loop_invariant(!(0 <= g_b && g_b < i) || (0 <= out->e[g_b] && out->e[g_b] < RP_N))                         \
  __CPROVER_loop_invariant(!(0 <= g_val && g_val < RP_N) || RP_COUNT_T(RP_N - i, g_val) + RP_COUNT_F(i, g_val) == 1)   \
  __CPROVER_decreases(RP_N - i)
/* loop 2: closing the gap at index; V = temp_array without slot j = the not yet drawn elements, unchanged by the shifting */
#define LC_K_randomly_permute_subset_order_2                                                                         \
  __CPROVER_assigns(j, __CPROVER_object_whole(temp_array))                                                             \
  __CPROVER_loop_invariant(index <= j && j <= RP_N - (i + 1))                                                          \
  __CPROVER_loop_invariant(RP_VRANGE(RP_N - i - 1, j))                                                                 \
  __CPROVER_loop_invariant(!(0 <= g_val && g_val < RP_N) || RP_COUNT_V(RP_N - i - 1, j, g_val) + RP_COUNT_F(i + 1, g_val) == 1) \
  __CPROVER_decreases(RP_N - (i + 1) - j)
#define IR_VALID(s) (C06_S_OK((s)->num_subsets) && (s)->num_subsets >= 1 && (s)->num_subsets <= MAXSUB && (s)->subiteration_num >= 1 && (s)->subiteration_num < (1 << 30) \
                     && (s)->start_subset_num >= 0 && (s)->start_subset_num < (s)->num_subsets)
int g_regen; /* ghost: how often the random order was regenerated in this call (incremented by the extraction at the call site) */
#define GB_CLAMP (g_b < 0 ? 0 : (g_b >= MAXSUB ? MAXSUB - 1 : g_b))
#define ORDER_IS_PERMUTATION(s) (!(0 <= g_val && g_val < (s)->num_subsets) || RP_COUNT_P(&(s)->_current_subset_array, g_val) == 1)
#define CONTRACT_K_get_subset_num                                                                                    \
  __CPROVER_requires(__CPROVER_is_fresh(self, sizeof(*self)) && IR_VALID(self) && g_regen == 0)                        \
  /* _current_subset_array is either still empty (never generated) or a permutation from an earlier call */          \
  __CPROVER_requires(self->_current_subset_array.n == 0 || self->_current_subset_array.n == self->num_subsets)         \
  __CPROVER_requires((0 <= g_a && g_a < self->_current_subset_array.n) ==> (0 <= self->_current_subset_array.e[g_a] && self->_current_subset_array.e[g_a] < self->num_subsets)) \
  __CPROVER_requires((0 <= g_b && g_b < self->_current_subset_array.n) ==> (0 <= self->_current_subset_array.e[GB_CLAMP] && self->_current_subset_array.e[GB_CLAMP] < self->num_subsets)) \
  __CPROVER_requires(self->_current_subset_array.n == self->num_subsets ==> ORDER_IS_PERMUTATION(self))                \
  __CPROVER_requires(g_a == (self->subiteration_num - 1) % self->num_subsets)                                          \
  __CPROVER_assigns(self->_current_subset_array, g_regen)                                                              \
  __CPROVER_ensures(0 <= __CPROVER_return_value && __CPROVER_return_value < self->num_subsets)                         \
  __CPROVER_ensures(!self->randomise_subset_order ==> __CPROVER_return_value == (self->subiteration_num - 1 + self->start_subset_num) % self->num_subsets) \
  /* randomised order: a new permutation exactly at the first sub-iteration of a full iteration (or when there is none yet), otherwise the stored one is kept; \
     sub-iteration k of the full iteration uses entry k of it */                                                       \
  __CPROVER_ensures(self->randomise_subset_order ==> g_regen == (((self->subiteration_num - 1) % self->num_subsets == 0 || __CPROVER_old(self->_current_subset_array.n) != self->num_subsets) ? 1 : 0)) \
  __CPROVER_ensures(!self->randomise_subset_order ==> g_regen == 0)                                                    \
  __CPROVER_ensures(g_regen == 0 ==> (self->_current_subset_array.n == __CPROVER_old(self->_current_subset_array.n)    \
                                      && self->_current_subset_array.e[GB_CLAMP] == __CPROVER_old(self->_current_subset_array.e[GB_CLAMP]))) \
  __CPROVER_ensures((self->randomise_subset_order && 0 <= g_b && g_b < self->num_subsets) ==> (0 <= self->_current_subset_array.e[GB_CLAMP] && self->_current_subset_array.e[GB_CLAMP] < self->num_subsets)) \
  __CPROVER_ensures(self->randomise_subset_order ==> (self->_current_subset_array.n == self->num_subsets && ORDER_IS_PERMUTATION(self) \
                                                      && __CPROVER_return_value == self->_current_subset_array.e[(self->subiteration_num - 1) % self->num_subsets]))
#endif
