/* Common prelude for every generated kernel translation unit (C, CBMC). */
#ifndef VERIF_PRELUDE_H
#define VERIF_PRELUDE_H
#include <stddef.h>
#include <stdint.h>
#include <stdbool.h>

#ifndef NULL
#define NULL ((void*)0)
#endif
#define assert(x) ((void)0) /* baseline build is -DNDEBUG: assert() expands to nothing in the code that runs */

/* stir::error(...) and C++ throw never return: modelled as "set ghost flag and leave the kernel".
   Each kernel's contract header defines K_THROW_<kernel> if it needs a return value. */
extern int g_error; /* ghost: an error was reported (exception thrown) */

#define CAST(T, e) ((T)(e))

static inline int K_min_int(int a, int b) { return b < a ? b : a; }
static inline int K_max_int(int a, int b) { return a < b ? b : a; }
static inline int K_abs_int(int a) { return a < 0 ? -a : a; }
static inline long K_min_long(long a, long b) { return b < a ? b : a; }
static inline long K_max_long(long a, long b) { return a < b ? b : a; }

int nondet_int(void);
unsigned nondet_unsigned(void);
long nondet_long(void);
unsigned long nondet_ulong(void);
float nondet_float(void);
double nondet_double(void);
_Bool nondet_bool(void);
short nondet_short(void);
unsigned char nondet_uchar(void);

#endif
