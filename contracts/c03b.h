/* Contracts for C03, part 2: the symmetry bookkeeping of DataSymmetriesForBins_PET_CartesianGrid (cylindrical branch)
   and the bin-coordinate transforms of the SymmetryOperation_PET_CartesianGrid_* classes. */
#ifndef C03B_CONTRACTS_H
#define C03B_CONTRACTS_H
#include "contracts/prelude.h"
#include "c03_ops.h" /* generated: enum of the operation classes found in SymmetryOperations_PET_CartesianGrid.inl (+ OP_trivial) */

struct Bin { int segment_num; int view_num; int axial_pos_num; int tangential_pos_num; int timing_pos_num; };
struct VS { int view_num; int segment_num; }; /* ViewSegmentNumbers */
/* a SymmetryOperation object: its class and the data members the constructors store (num_views -> view180, ...) */
struct OP { int kind; int view180, axial_pos_shift, z_shift, q; };
/* DataSymmetriesForBins_PET_CartesianGrid: the members the bookkeeping functions read */
struct SYM
{
  _Bool do_symmetry_90degrees_min_phi, do_symmetry_180degrees_min_phi, do_symmetry_swap_segment, do_symmetry_swap_s, do_symmetry_shift_z;
  int num_views;
};
#define abs(x) K_abs_int(x)
/* new SymmetryOperation_PET_CartesianGrid_X(num_views, axial_pos_shift, z_shift[, q]) */
static inline struct OP K_mkop(int kind, const int* a)
{
  struct OP o; o.kind = kind; o.view180 = a[0]; o.axial_pos_shift = a[1]; o.z_shift = a[2]; o.q = a[3];
  return o;
}
#define MKOPN(kind, ...) K_mkop(kind, (const int[5]){ __VA_ARGS__ })
/* new SymmetryOperation_PET_CartesianGrid_z_shift(axial_pos_shift, z_shift) */
static inline struct OP K_mkop2(int kind, int aps, int zs)
{
  struct OP o; o.kind = kind; o.view180 = 0; o.axial_pos_shift = aps; o.z_shift = zs; o.q = 0;
  return o;
}
#define MKOP2(kind, aps, zs) K_mkop2(kind, aps, zs)
#define MKOP_TRIVIAL() K_mkop2(OP_trivial, 0, 0)
/* image-side quantities (only enter transform_image_coordinates, not the bin transforms): any value */
int K_find_transform_z(const struct SYM* self, int segment_num, int axial_pos_num)
__CPROVER_requires(1)
__CPROVER_assigns()
__CPROVER_ensures(1)
;
int K_num_planes_per_axial_pos(const struct SYM* self, int segment_num)
__CPROVER_assigns()
__CPROVER_ensures(__CPROVER_return_value >= 1 && __CPROVER_return_value <= 4) /* 1 or 2 planes per axial position in practice */
;
/* what the constructor establishes (flag normalisation: 90 => 180, 90 => views % 4 == 0, 180 => views % 2 == 0; TOF data:
   only shift_z - not needed here) */
#define C03_MAXVIEWS 4096
#define SYM_VALID(s)                                                                                                  \
  ((s)->num_views >= 1 && (s)->num_views <= C03_MAXVIEWS                                                               \
   && (!(s)->do_symmetry_90degrees_min_phi || ((s)->do_symmetry_180degrees_min_phi && (s)->num_views % 4 == 0))        \
   && (!(s)->do_symmetry_180degrees_min_phi || (s)->num_views % 2 == 0))
/* TOF data: the constructor switches off the rotational symmetries, segment swapping and swap_s ("untested"), so a
   non-zero TOF index only occurs with (at most) the z-shift symmetry (ASSUMED: read from the constructor) */
#define TOF_OK(s, b) ((b)->timing_pos_num == 0 || (!(s)->do_symmetry_90degrees_min_phi && !(s)->do_symmetry_180degrees_min_phi && !(s)->do_symmetry_swap_segment && !(s)->do_symmetry_swap_s))
#define BIN_IN_DOMAIN(s, b)                                                                                           \
  ((b)->view_num >= 0 && (b)->view_num < (s)->num_views && (b)->segment_num > -10000 && (b)->segment_num < 10000      \
   && (b)->axial_pos_num >= 0 && (b)->axial_pos_num < 100000 && (b)->tangential_pos_num > -100000 && (b)->tangential_pos_num < 100000 \
   && (b)->timing_pos_num > -100000 && (b)->timing_pos_num < 100000)
#define BIN_EQ(a, b) ((a).segment_num == (b).segment_num && (a).view_num == (b).view_num && (a).axial_pos_num == (b).axial_pos_num \
                      && (a).tangential_pos_num == (b).tangential_pos_num && (a).timing_pos_num == (b).timing_pos_num)
/* every extracted function of this part is verified in composition (h_lemma_symmetry): no per-function contracts */
#define NO_CONTRACT
#endif
