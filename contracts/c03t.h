/* C03: setters of ProjMatrixByBinUsingRayTracing keep `already_setup` honest.
   Class invariant: already_setup ==> everything set_up() derived (symmetries object, cached members, row cache) reflects the CURRENT values of the eight
   parameters. Ghost g_setup_current = "no parameter has changed since set_up()"; the extraction turns the write of a parameter into the same write plus the
   ghost update (K_PARAM_ASSIGN: stays true only if the value is unchanged). */
#ifndef C03T_H
#define C03T_H
struct PMRT
{
  _Bool already_setup;
  _Bool restrict_to_cylindrical_FOV, use_actual_detector_boundaries;
  int num_tangential_LORs;
  _Bool do_symmetry_90degrees_min_phi, do_symmetry_180degrees_min_phi, do_symmetry_swap_segment, do_symmetry_swap_s, do_symmetry_shift_z;
};
_Bool g_setup_current;
int nondet_int(void);
_Bool nondet_bool(void);
#define K_PARAM_ASSIGN(lv, v) do { g_setup_current = g_setup_current && ((lv) == (v)); (lv) = (v); } while (0)
#define SETUP_INV(p) (!(p)->already_setup || g_setup_current)
#ifdef CANARY_PMRT_SETTERS
#define SETUP_INV_POST(p) (!SETUP_INV(p))
#else
#define SETUP_INV_POST(p) SETUP_INV(p)
#endif
#define PMRT_SETTER_CONTRACT(field)                                                                                   \
  __CPROVER_requires(__CPROVER_is_fresh(self, sizeof(*self)) && SETUP_INV(self))                                       \
  __CPROVER_assigns(self->already_setup, self->field, g_setup_current)                                                 \
  __CPROVER_ensures(SETUP_INV_POST(self))                                                                              \
  __CPROVER_ensures(self->field == val)
#define CONTRACT_K_pmrt_set_restrict_to_cylindrical_FOV PMRT_SETTER_CONTRACT(restrict_to_cylindrical_FOV)
#define CONTRACT_K_pmrt_set_num_tangential_LORs PMRT_SETTER_CONTRACT(num_tangential_LORs)
#define CONTRACT_K_pmrt_set_use_actual_detector_boundaries PMRT_SETTER_CONTRACT(use_actual_detector_boundaries)
#define CONTRACT_K_pmrt_set_do_symmetry_90degrees_min_phi PMRT_SETTER_CONTRACT(do_symmetry_90degrees_min_phi)
#define CONTRACT_K_pmrt_set_do_symmetry_180degrees_min_phi PMRT_SETTER_CONTRACT(do_symmetry_180degrees_min_phi)
#define CONTRACT_K_pmrt_set_do_symmetry_swap_segment PMRT_SETTER_CONTRACT(do_symmetry_swap_segment)
#define CONTRACT_K_pmrt_set_do_symmetry_swap_s PMRT_SETTER_CONTRACT(do_symmetry_swap_s)
#define CONTRACT_K_pmrt_set_do_symmetry_shift_z PMRT_SETTER_CONTRACT(do_symmetry_shift_z)
#endif
