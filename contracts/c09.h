/* Contracts for C09 (border clause): the neighbourhood bounds of the prior stencils.
   One generated function per site (pair of statements) in Quadratic/RelativeDifference/Logcosh priors:
     const int min_dX = max(<W>.get_min_index(), <LO> - <c>);
     const int max_dX = min(<W>.get_max_index(), <HI> - <c>);
   wmin/wmax: index range of the weights along this axis; lo/hi: index range of the image along this axis;
   c: the voxel's coordinate.  The loops run d = min_d..max_d and touch image[c + d] and weights[d]. */
#ifndef C09_CONTRACTS_H
#define C09_CONTRACTS_H
#include "contracts/prelude.h"
#define max(a, b) K_max_int(a, b)
#define min(a, b) K_min_int(a, b)
#define C09_B (1 << 28)
int g_d; /* ghost: any offset */
#define CONTRACT_STENCIL                                                                                              \
  __CPROVER_requires(-C09_B < wmin && wmin <= wmax && wmax < C09_B && -C09_B < lo && lo <= hi && hi < C09_B && lo <= c && c <= hi) \
  /* index ranges of rows that belong to other axes: any valid ranges */                                               \
  __CPROVER_requires(-C09_B < owmin && owmin <= owmax && owmax < C09_B && -C09_B < olo && olo <= ohi && ohi < C09_B)  \
  __CPROVER_requires(__CPROVER_is_fresh(min_d, sizeof(int)) && __CPROVER_is_fresh(max_d, sizeof(int)))                 \
  __CPROVER_assigns(*min_d, *max_d)                                                                                    \
  /* soundness: every visited offset addresses a voxel inside the image and a weight inside the weights array */     \
  __CPROVER_ensures((*min_d <= g_d && g_d <= *max_d) ==> (lo <= c + g_d && c + g_d <= hi && wmin <= g_d && g_d <= wmax)) \
  /* completeness: every in-image neighbour inside the weights' support is visited (needed for Hessian symmetry:       \
     the pair (v, v+d) is seen from v iff it is seen from v+d with -d when the weights range is symmetric) */         \
  __CPROVER_ensures((wmin <= g_d && g_d <= wmax && lo <= (long)c + g_d && (long)c + g_d <= hi) ==> (*min_d <= g_d && g_d <= *max_d))

/* ---- neighbour index triples: image / kappa / input at [z+A][y+B][x+C] and weights[A][B][C] ----
   From the property (value, gradient and Hessian are sums over the SAME neighbourhood of one voxel): the three offsets of an access
   are the three components of ONE neighbour offset, (dz,dy,dx) or (ddz,ddy,ddx) - never a mixture. The six loop variables are
   pairwise different values here, so that a mixture cannot pass by coincidence. */
#define IDX_DISTINCT (dz != dy && dz != dx && dy != dx && ddz != ddy && ddz != ddx && ddy != ddx && dz != ddz && dz != ddy && dz != ddx && dy != ddz && dy != ddy && dy != ddx \
                      && dx != ddz && dx != ddy && dx != ddx)
#define SAME_NEIGHBOUR(a, b, c) (((a) == dz && (b) == dy && (c) == dx) || ((a) == ddz && (b) == ddy && (c) == ddx))
#endif
