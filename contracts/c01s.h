/* C01: the setters of ProjDataInfoCylindrical keep the lazily built Michelogram tables honest.
   Class invariant: ring_diff_arrays_computed ==> the tables were built from the CURRENT min/max ring differences, ring spacing and
   axial position ranges. Ghost g_tables_current = "nothing the tables depend on has changed since they were built"; every write to such a
   member is rewritten by the extraction into K_GEOM_ASSIGN (same write + ghost update: current stays true only if the value is unchanged). */
#ifndef C01S_H
#define C01S_H
#define MAXSEGS 64
struct PDIS
{
  int min_seg, max_seg;
  _Bool ring_diff_arrays_computed;
  float ring_spacing;
  int min_ring_diff[MAXSEGS], max_ring_diff[MAXSEGS], min_axial_pos[MAXSEGS], max_axial_pos[MAXSEGS];
};
_Bool g_tables_current;
int g_s;          /* ghost segment: stands for every other segment */
int nondet_int(void);
_Bool nondet_bool(void);
float nondet_float(void);
#define SEG_OK(p, s) ((s) >= (p)->min_seg && (s) <= (p)->max_seg)
#define SEGW(p, f, s) ((p)->f[(s) - (p)->min_seg])
static inline int K_segidx(const struct PDIS* self, int seg)
{
  __CPROVER_assert(SEG_OK(self, seg), "per-segment vector indexed inside [min_segment,max_segment] (VectorWithOffset::operator[] is unchecked in release builds)");
  return seg - self->min_seg;
}
#define K_GEOM_ASSIGN(lv, v) do { g_tables_current = g_tables_current && ((lv) == (v)); (lv) = (v); } while (0)
/* ProjDataInfo::set_min/max_axial_pos_num: base-class setter = the write itself */
static inline void K_base_set_min_axial_pos_num(struct PDIS* self, int v, int seg) { K_GEOM_ASSIGN(self->min_axial_pos[K_segidx(self, seg)], v); }
static inline void K_base_set_max_axial_pos_num(struct PDIS* self, int v, int seg) { K_GEOM_ASSIGN(self->max_axial_pos[K_segidx(self, seg)], v); }
/* ProjDataInfo::set_num_axial_poss_per_segment / reduce_segment_range and the re-indexing of the ring-difference vectors: whether anything
   changed is not known to the caller */
static inline void K_base_geom_change(struct PDIS* self) { g_tables_current = g_tables_current && nondet_bool(); }

#define PDIS_PRE(p) (__CPROVER_is_fresh(p, sizeof(*(p))) && (p)->min_seg > -1000 && (p)->max_seg < 1000 && (p)->min_seg <= (p)->max_seg && (p)->max_seg - (p)->min_seg < MAXSEGS)
#define TABLES_INV(p) (!(p)->ring_diff_arrays_computed || g_tables_current)
#ifdef CANARY_SETTERS
#define TABLES_INV_POST(p) (!TABLES_INV(p))
#else
#define TABLES_INV_POST(p) TABLES_INV(p)
#endif
#define SETTER_CONTRACT(field, val)                                                                                   \
  __CPROVER_requires(PDIS_PRE(self) && SEG_OK(self, segment_num) && TABLES_INV(self))                                  \
  __CPROVER_assigns(self->ring_diff_arrays_computed, SEGW(self, field, segment_num), g_tables_current)                 \
  __CPROVER_ensures(TABLES_INV_POST(self))                                                                             \
  __CPROVER_ensures(SEGW(self, field, segment_num) == (val))
#define CONTRACT_K_set_min_ring_difference SETTER_CONTRACT(min_ring_diff, min_ring_diff_v)
#define CONTRACT_K_set_max_ring_difference SETTER_CONTRACT(max_ring_diff, max_ring_diff_v)
#define CONTRACT_K_set_min_axial_pos_num SETTER_CONTRACT(min_axial_pos, min_ax_pos_num)
#define CONTRACT_K_set_max_axial_pos_num SETTER_CONTRACT(max_axial_pos, max_ax_pos_num)
#define CONTRACT_K_set_ring_spacing                                                                                  \
  __CPROVER_requires(PDIS_PRE(self) && TABLES_INV(self) && !__CPROVER_isnanf(ring_spacing_v))                          \
  __CPROVER_assigns(self->ring_diff_arrays_computed, self->ring_spacing, g_tables_current)                             \
  __CPROVER_ensures(TABLES_INV_POST(self))                                                                             \
  __CPROVER_ensures(self->ring_spacing == ring_spacing_v)
#define CONTRACT_K_set_num_axial_poss_per_segment                                                                    \
  __CPROVER_requires(PDIS_PRE(self) && TABLES_INV(self))                                                               \
  __CPROVER_assigns(self->ring_diff_arrays_computed, g_tables_current)                                                 \
  __CPROVER_ensures(TABLES_INV_POST(self))
#define CONTRACT_K_reduce_segment_range                                                                              \
  __CPROVER_requires(PDIS_PRE(self) && TABLES_INV(self))                                                               \
  __CPROVER_assigns(self->ring_diff_arrays_computed, g_tables_current)                                                 \
  __CPROVER_ensures(TABLES_INV_POST(self))
/* the end of initialise_ring_diff_arrays: the flag is raised by the function that has just built the tables from the current values */
#endif
