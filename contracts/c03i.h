/* Contracts for C03, image side: SymmetryOperation_PET_CartesianGrid_*::transform_image_coordinates (16 classes, one contract).
   From the property: "Every element of a row ... refers to a voxel inside the image, and no voxel appears twice in a row."
   A symmetric row is the basic row with every voxel coordinate sent through transform_image_coordinates, so
   (0) each class maps (x,y,z) as its NAME says (swap_<x part>_<y part>[_zq]: 'xmy' = x <- -y, 'yx' = y <- x, 'zq' = z <- q - z;
       plus z_shift): the per-class clause is generated from the name in c03_img.c;
   (a) in-plane the result must stay inside a centred square index range [-n,n]x[-n,n] (what the symmetries' constructor
       requires of the image): (x',y') is a signed permutation of (x,y);
   (b) axially z' is z + z_shift or q - z + z_shift (that this lies inside the image's planes depends on the float-derived
       q / z_shift: not decided here);
   (c) the map is injective (lemma per class over the REAL body, two calls): two different voxels of the basic row are never
       sent to the same voxel. */
#ifndef C03I_CONTRACTS_H
#define C03I_CONTRACTS_H
struct C3 { int z, y, x; };
int g_n; /* ghost: half size of the centred in-plane index range */
#define C3_DOMAIN(c) ((c)->x >= -g_n && (c)->x <= g_n && (c)->y >= -g_n && (c)->y <= g_n && (c)->z > -100000 && (c)->z < 100000)
#define OP_DOMAIN(o) ((o)->z_shift > -100000 && (o)->z_shift < 100000 && (o)->q > -100000 && (o)->q < 100000)
#ifdef CONTRACTS_OFF
#define CONTRACT_K_op_img
#else
#define CONTRACT_K_op_img                                                                                             \
  __CPROVER_requires(__CPROVER_is_fresh(op, sizeof(*op)) && __CPROVER_is_fresh(c, sizeof(*c)) && g_n >= 0 && g_n < 100000 && C3_DOMAIN(c) && OP_DOMAIN(op)) \
  __CPROVER_assigns(*c)                                                                                                \
  __CPROVER_ensures(c->x >= -g_n && c->x <= g_n && c->y >= -g_n && c->y <= g_n)                                        \
  __CPROVER_ensures(((c->x == __CPROVER_old(c->x) || c->x == -__CPROVER_old(c->x)) && (c->y == __CPROVER_old(c->y) || c->y == -__CPROVER_old(c->y))) \
                    || ((c->x == __CPROVER_old(c->y) || c->x == -__CPROVER_old(c->y)) && (c->y == __CPROVER_old(c->x) || c->y == -__CPROVER_old(c->x)))) \
  __CPROVER_ensures(c->z == __CPROVER_old(c->z) + op->z_shift || c->z == op->q - __CPROVER_old(c->z) + op->z_shift)
#endif
/* ---- the bundle of tangential rays traced for one bin (ProjMatrixByBinUsingRayTracing, num_tangential_LORs > 1) ----
   The rays are at first, first + s_inc, ..., first + (n-1) s_inc. From the property ("the same whether it is computed
   directly or derived from a symmetry-related row, for every combination of enabled symmetries"): the row of the bin at -s is
   derived from the row at +s by mirroring; that is the directly computed row only if the bundle is CENTRED on the bin:
   first = s_in_mm - (n-1) s_inc / 2 (then the mirrored bundle is the bundle of the mirrored bin). Float statement: centred
   up to the rounding of the statement's own operations (tolerance 2^-10 s_inc + 2^-9 mm for |s| <= 4096 mm,
   2^-7 <= s_inc <= 64 mm); a bundle shifted by half a ray spacing - the integer-division slip - is far outside.
   Parametric in the number of rays (job constant). */
#ifndef C03_NRAYS
#define C03_NRAYS 2
#endif
#define CONTRACT_K_rt_first_ray                                                                                       \
  __CPROVER_requires(num_tangential_LORs == C03_NRAYS && s_in_mm >= -4096.F && s_in_mm <= 4096.F && s_inc >= 0.0078125F && s_inc <= 64.F) \
  __CPROVER_assigns()                                                                                                  \
  __CPROVER_ensures(s_in_mm - __CPROVER_return_value >= s_inc * ((C03_NRAYS - 1) * 0.5F) - (s_inc * 0.0009765625F + 0.001953125F)) \
  __CPROVER_ensures(s_in_mm - __CPROVER_return_value <= s_inc * ((C03_NRAYS - 1) * 0.5F) + (s_inc * 0.0009765625F + 0.001953125F))
#include "contracts/symctor.h"
#ifdef LEMMA_CANARY
#define LEMMA_IMG_CANARY __CPROVER_assert(0, "vacuity canary")
#else
#define LEMMA_IMG_CANARY (void)0
#endif
#define LEMMA_IMG_INJECTIVE(K)                                                                                        \
  struct OP o; struct C3 a, b;                                                                                        \
  o.kind = nondet_int(); o.view180 = nondet_int(); o.axial_pos_shift = nondet_int(); o.z_shift = nondet_int(); o.q = nondet_int(); \
  a.x = nondet_int(); a.y = nondet_int(); a.z = nondet_int(); b.x = nondet_int(); b.y = nondet_int(); b.z = nondet_int(); \
  g_n = 99999;                                                                                                        \
  __CPROVER_assume(C3_DOMAIN(&a) && C3_DOMAIN(&b) && OP_DOMAIN(&o));                                                  \
  const struct C3 a0 = a, b0 = b;                                                                                     \
  K(&o, &a);                                                                                                          \
  K(&o, &b);                                                                                                          \
  if (a.x == b.x && a.y == b.y && a.z == b.z)                                                                         \
    __CPROVER_assert(a0.x == b0.x && a0.y == b0.y && a0.z == b0.z, "two different voxels are never sent to the same voxel"); \
  LEMMA_IMG_CANARY
#endif
