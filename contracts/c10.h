/* Contracts for C10: image values written as scaled integers - the quantisation core
   (find_scale_factor and the per-element statement of convert_range, convert_range.inl; stir::round, round.inl).
   Input element type float, scale factor float; the OUTPUT type is the job parameter C10_OUT (one of the integer
   types NumericInfo knows): OUT_T, OUT_MIN, OUT_MAX, OUT_SIGNED come from its NumericInfo<> specialisation. */
#ifndef C10_CONTRACTS_H
#define C10_CONTRACTS_H
#include "contracts/prelude.h"
#include <limits.h>
#include <float.h>
#include <math.h>

#define OUT_schar 1
#define OUT_uchar 2
#define OUT_short 3
#define OUT_ushort 4
#define OUT_int 5
#define OUT_uint 6
#ifndef C10_OUT
#define C10_OUT OUT_short
#endif
#if C10_OUT == OUT_schar
typedef signed char OUT_T;
#define OUT_MIN SCHAR_MIN
#define OUT_MAX SCHAR_MAX
#define OUT_SIGNED 1
#elif C10_OUT == OUT_uchar
typedef unsigned char OUT_T;
#define OUT_MIN 0
#define OUT_MAX UCHAR_MAX
#define OUT_SIGNED 0
#elif C10_OUT == OUT_short
typedef short OUT_T;
#define OUT_MIN SHRT_MIN
#define OUT_MAX SHRT_MAX
#define OUT_SIGNED 1
#elif C10_OUT == OUT_ushort
typedef unsigned short OUT_T;
#define OUT_MIN 0
#define OUT_MAX USHRT_MAX
#define OUT_SIGNED 0
#elif C10_OUT == OUT_int
typedef int OUT_T;
#define OUT_MIN INT_MIN
#define OUT_MAX INT_MAX
#define OUT_SIGNED 1
#elif C10_OUT == OUT_uint
typedef unsigned int OUT_T;
#define OUT_MIN 0
#define OUT_MAX UINT_MAX
#define OUT_SIGNED 0
#endif
static inline double K_max_double(double a, double b) { return a < b ? b : a; }
#define FINITE_F(x) ((x) >= -FLT_MAX && (x) <= FLT_MAX)

/* data domain: extreme values zero or of magnitude >= 1e-30 ("NORMAL"); the complement is the TINY sub-domain (max/OUT_MAX
   leaves the normal float range), checked by separate jobs */
#define BIG_OR_ZERO(v) ((v) == 0 || (v) >= 1e-30f || (v) <= -1e-30f)
#ifdef C10_TINY
#define DOMAIN(mx, mn) (!(BIG_OR_ZERO(mx) && BIG_OR_ZERO(mn)))
#else
#define DOMAIN(mx, mn) (BIG_OR_ZERO(mx) && BIG_OR_ZERO(mn))
#endif
/* "x fits": x/scale, rounded, lies inside the output type with the code's 1% margin (written with products, no division) */
#define FITS(x, S) ((double)(x) * 1.005 <= (double)(S) * (double)OUT_MAX && (double)(x) * 1.005 >= (double)(S) * (double)OUT_MIN)
/* find_scale_factor (statement kernel: from 'const double data_in_max' to the end). mx, mn: the largest and the
   smallest input value (std::max_element / std::min_element); the writers pass scale_factor == 0.
   From the property: afterwards no input value overflows the output type ("never overflows the chosen type");
   the scale stays 0 only for data that convert_range may write as all zeros. */
#define CONTRACT_K_find_scale_factor                                                                                 \
  __CPROVER_requires(__CPROVER_is_fresh(scale_factor, sizeof(float)) && FINITE_F(mx) && FINITE_F(mn) && mn <= mx && DOMAIN(mx, mn)) \
  /* incoming factor: 0 (automatic) or a preferred positive factor ('scale_to_write_data'); it may only be increased */ \
  __CPROVER_requires(*scale_factor >= 0 && *scale_factor <= FLT_MAX)                                                   \
  __CPROVER_assigns(*scale_factor)                                                                                     \
  __CPROVER_ensures(FINITE_F(*scale_factor) && (__CPROVER_old(*scale_factor) > 0 ==> *scale_factor >= __CPROVER_old(*scale_factor))) \
  /* factor 0 = 'everything is written as 0': only if that is what every element becomes (unsigned output truncates negatives) */ \
  __CPROVER_ensures(*scale_factor == 0 ==> (OUT_SIGNED ? (mx == 0 && mn == 0) : mx <= 0))                              \
  __CPROVER_ensures(*scale_factor > 0 ==> (OUT_SIGNED ? (FITS(mx, *scale_factor) && FITS(mn, *scale_factor)) : (mx < 0 || FITS(mx, *scale_factor)))) \
  /* all data negative and unsigned output: the factor is negative and everything is written as 0 */                  \
  __CPROVER_ensures(*scale_factor < 0 ==> (!OUT_SIGNED && mx < 0))

/* the per-element statement of convert_range is verified in composition with find_scale_factor (h_lemma_real) */
#define CONTRACT_K_convert_elem
#define ABSD(v) ((v) < 0 ? -(v) : (v))

/* stir::round(float) */
#define CONTRACT_K_round_float                                                                                       \
  __CPROVER_requires(x > -8388608.0f && x < 8388608.0f)                                                                \
  __CPROVER_assigns()                                                                                                  \
  __CPROVER_ensures((double)__CPROVER_return_value - (double)x <= 0.5 + 6e-8 && (double)x - (double)__CPROVER_return_value <= 0.5 + 6e-8)
#endif
