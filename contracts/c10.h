/* Contracts for C10: image values written as scaled integers - the quantisation core
   (find_scale_factor and the per-element statement of convert_range, convert_range.inl; stir::round, round.inl).
   Input element type float, scale factor float; the OUTPUT type is the job parameter C10_OUT (one of the integer
   types NumericInfo knows): OUT_T, OUT_MIN, OUT_MAX, OUT_SIGNED come from its NumericInfo<> specialisation. */
#ifndef C10_CONTRACTS_H
#define C10_CONTRACTS_H
#include "contracts/prelude.h"
#include <limits.h>
#include <float.h>
#include <math.h>

#define OUT_schar 1
#define OUT_uchar 2
#define OUT_short 3
#define OUT_ushort 4
#define OUT_int 5
#define OUT_uint 6
#ifndef C10_OUT
#define C10_OUT OUT_short
#endif
#if C10_OUT == OUT_schar
typedef signed char OUT_T;
#define OUT_MIN SCHAR_MIN
#define OUT_MAX SCHAR_MAX
#define OUT_SIGNED 1
#elif C10_OUT == OUT_uchar
typedef unsigned char OUT_T;
#define OUT_MIN 0
#define OUT_MAX UCHAR_MAX
#define OUT_SIGNED 0
#elif C10_OUT == OUT_short
typedef short OUT_T;
#define OUT_MIN SHRT_MIN
#define OUT_MAX SHRT_MAX
#define OUT_SIGNED 1
#elif C10_OUT == OUT_ushort
typedef unsigned short OUT_T;
#define OUT_MIN 0
#define OUT_MAX USHRT_MAX
#define OUT_SIGNED 0
#elif C10_OUT == OUT_int
typedef int OUT_T;
#define OUT_MIN INT_MIN
#define OUT_MAX INT_MAX
#define OUT_SIGNED 1
#elif C10_OUT == OUT_uint
typedef unsigned int OUT_T;
#define OUT_MIN 0
#define OUT_MAX UINT_MAX
#define OUT_SIGNED 0
#endif
static inline double K_max_double(double a, double b) { return a < b ? b : a; }
#define FINITE_F(x) ((x) >= -FLT_MAX && (x) <= FLT_MAX)

/* data domain: extreme values zero or of magnitude >= 1e-30 ("NORMAL"); the complement is the TINY sub-domain (max/OUT_MAX
   leaves the normal float range), checked by separate jobs */
#define BIG_OR_ZERO(v) ((v) == 0 || (v) >= 1e-30f || (v) <= -1e-30f)
#ifdef C10_TINY
#define DOMAIN(mx, mn) (!(BIG_OR_ZERO(mx) && BIG_OR_ZERO(mn)))
#else
#define DOMAIN(mx, mn) (BIG_OR_ZERO(mx) && BIG_OR_ZERO(mn))
#endif
/* "x fits": x/scale, rounded, lies inside the output type with the code's 1% margin (written with products, no division) */
#define FITS(x, S) ((double)(x) * 1.005 <= (double)(S) * (double)OUT_MAX && (double)(x) * 1.005 >= (double)(S) * (double)OUT_MIN)
/* find_scale_factor (statement kernel: from 'const double data_in_max' to the end). mx, mn: the largest and the
   smallest input value (std::max_element / std::min_element); the writers pass scale_factor == 0.
   From the property: afterwards no input value overflows the output type ("never overflows the chosen type");
   the scale stays 0 only for data that convert_range may write as all zeros. */
#define CONTRACT_K_find_scale_factor                                                                                 \
  __CPROVER_requires(__CPROVER_is_fresh(scale_factor, sizeof(float)) && FINITE_F(mx) && FINITE_F(mn) && mn <= mx && DOMAIN(mx, mn)) \
  /* incoming factor: 0 (automatic) or a preferred positive factor ('scale_to_write_data'); it may only be increased */ \
  __CPROVER_requires(*scale_factor >= 0 && *scale_factor <= FLT_MAX)                                                   \
  __CPROVER_assigns(*scale_factor)                                                                                     \
  __CPROVER_ensures(FINITE_F(*scale_factor) && (__CPROVER_old(*scale_factor) > 0 ==> *scale_factor >= __CPROVER_old(*scale_factor))) \
  /* factor 0 = 'everything is written as 0': only if that is what every element becomes (unsigned output truncates negatives) */ \
  __CPROVER_ensures(*scale_factor == 0 ==> (OUT_SIGNED ? (mx == 0 && mn == 0) : mx <= 0))                              \
  __CPROVER_ensures(*scale_factor > 0 ==> (OUT_SIGNED ? (FITS(mx, *scale_factor) && FITS(mn, *scale_factor)) : (mx < 0 || FITS(mx, *scale_factor)))) \
  /* all data negative and unsigned output: the factor is negative and everything is written as 0 */                  \
  __CPROVER_ensures(*scale_factor < 0 ==> (!OUT_SIGNED && mx < 0))

/* the per-element statement of convert_range is verified in composition with find_scale_factor (h_lemma_real) */
#define CONTRACT_K_convert_elem
#define ABSD(v) ((v) < 0 ? -(v) : (v))

/* stir::round(float) */
#define CONTRACT_K_round_float                                                                                       \
  __CPROVER_requires(x > -8388608.0f && x < 8388608.0f)                                                                \
  __CPROVER_assigns()                                                                                                  \
  __CPROVER_ensures((double)__CPROVER_return_value - (double)x <= 0.5 + 6e-8 && (double)x - (double)__CPROVER_return_value <= 0.5 + 6e-8)

/* ================= exam information: the radionuclide read from an Interfile header =================
   Strings are abstracted to ids (two names are equal iff their ids are): NAME_EMPTY = "", NAME_UNKNOWN = "Unknown".
   From the property: "The exam information that the format stores (... radionuclide ...) survives the round trip": the
   writer stores the nuclide's name, half life and branching ratio under the keys "radionuclide name", "radionuclide
   halflife (sec)", "radionuclide branching factor"; the reader binds those keys to the members radionuclide_name[0],
   radionuclide_half_life[0], radionuclide_branching_ratio[0] (key table: string literals, not under contract). The block of
   post_processing must therefore produce a Radionuclide whose half life IS radionuclide_half_life[0] and whose branching
   ratio IS radionuclide_branching_ratio[0] whenever the data base does not know the name (a known name gives the data
   base entry). The constructor's contract is its declared interface: each member receives the parameter of its name. */
#define NAME_EMPTY 0
#define NAME_UNKNOWN 1
struct RN { int name; float energy, branching_ratio, half_life; int modality; };
struct IFH
{
  int radionuclide_name0, isotope_name;                 /* radionuclide_name[0], isotope_name (ids) */
  float radionuclide_half_life_0, radionuclide_branching_ratio_0; /* radionuclide_half_life[0], radionuclide_branching_ratio[0] */
  int imaging_modality;                                 /* exam_info_sptr->imaging_modality */
  struct RN exam_radionuclide;                          /* what set_radionuclide received */
};
struct RN g_db; /* ghost: the data base's answer for this (modality, name); half_life < 0: not known */
void K_db_get_radionuclide(struct RN* out, int modality, int name)
__CPROVER_requires(__CPROVER_w_ok(out, sizeof(*out)))
__CPROVER_assigns(*out)
__CPROVER_ensures(out->name == g_db.name && out->energy == g_db.energy && out->branching_ratio == g_db.branching_ratio && out->half_life == g_db.half_life && out->modality == g_db.modality)
;
#define CONTRACT_K_radionuclide_ctor                                                                                  \
  __CPROVER_requires(__CPROVER_w_ok(self, sizeof(*self)) && !__CPROVER_isnanf(renergy) && !__CPROVER_isnanf(rbranching_ratio) && !__CPROVER_isnanf(rhalf_life)) \
  __CPROVER_assigns(*self)                                                                                             \
  __CPROVER_ensures(self->name == rname && self->energy == renergy && self->branching_ratio == rbranching_ratio && self->half_life == rhalf_life && self->modality == rmodality)
#define RN_NOT_NAN(r) (!__CPROVER_isnanf((r).energy) && !__CPROVER_isnanf((r).branching_ratio) && !__CPROVER_isnanf((r).half_life))
#define HDR_NAME(s) (!((s)->radionuclide_name0 == NAME_EMPTY) ? (s)->radionuclide_name0 : (s)->isotope_name)
#define CONTRACT_K_ifh_radionuclide                                                                                   \
  __CPROVER_requires(__CPROVER_is_fresh(self, sizeof(*self)) && RN_NOT_NAN(g_db) && !__CPROVER_isnanf(self->radionuclide_half_life_0) && !__CPROVER_isnanf(self->radionuclide_branching_ratio_0)) \
  __CPROVER_assigns(self->exam_radionuclide)                                                                           \
  __CPROVER_ensures(g_db.half_life >= 0 ==> (self->exam_radionuclide.half_life == g_db.half_life && self->exam_radionuclide.branching_ratio == g_db.branching_ratio \
                                              && self->exam_radionuclide.energy == g_db.energy && self->exam_radionuclide.name == g_db.name)) \
  __CPROVER_ensures(g_db.half_life < 0 ==> (self->exam_radionuclide.half_life == self->radionuclide_half_life_0        \
                                             && self->exam_radionuclide.branching_ratio == self->radionuclide_branching_ratio_0 \
                                             && self->exam_radionuclide.modality == self->imaging_modality              \
                                             && self->exam_radionuclide.name == (HDR_NAME(self) == NAME_EMPTY ? NAME_UNKNOWN : HDR_NAME(self)) \
                                             && self->exam_radionuclide.energy == (is_spect ? -1.F : 511.F)))

/* ---- writer of the radionuclide keys (interfile.cxx) and the reader's key table (InterfileHeader constructor) ----
   Key strings are ids (one table of string literals applied to both kernels by the extraction). The writer emits
   (key, value) pairs; the key table binds a key to a member of the header object. TRUSTED between the two: KeyParser stores
   the value found under key k[1] into element 0 of the member bound to k, and operator<< / the number parser reproduce the
   float (6 significant digits by default - not decided). */
enum { KEY_NONE, KEY_RN_NAME, KEY_RN_HALFLIFE, KEY_RN_BRANCHING, KEY_COUNT };
enum { MEMBER_none, MEMBER_radionuclide_name, MEMBER_radionuclide_half_life, MEMBER_radionuclide_branching_ratio };
int g_emit_count[KEY_COUNT]; float g_emit_value[KEY_COUNT]; int g_emit_name; /* what the writer emitted under each key */
int g_bind[KEY_COUNT];                                                        /* member bound to each key by the reader */
#define K_EMIT_name(key, v) (g_emit_count[key]++, g_emit_name = (v))
#define K_EMIT_half_life(key, v) (g_emit_count[key]++, g_emit_value[key] = (v))
#define K_EMIT_branching_ratio(key, v) (g_emit_count[key]++, g_emit_value[key] = (v))
#define K_BIND(key, member) (g_bind[key] = (member))
#define EMIT_ZERO (g_emit_count[KEY_RN_NAME] == 0 && g_emit_count[KEY_RN_HALFLIFE] == 0 && g_emit_count[KEY_RN_BRANCHING] == 0)
/* the writer stores the name unless empty/"Unknown", the half life and the branching ratio when they are known (> 0), each
   under its own key, once */
#define CONTRACT_K_write_rn_info                                                                                      \
  __CPROVER_requires(__CPROVER_is_fresh(exam_radionuclide, sizeof(*exam_radionuclide)) && RN_NOT_NAN(*exam_radionuclide) && EMIT_ZERO) \
  __CPROVER_assigns(__CPROVER_object_whole(g_emit_count), __CPROVER_object_whole(g_emit_value), g_emit_name)           \
  __CPROVER_ensures(g_emit_count[KEY_RN_HALFLIFE] == (exam_radionuclide->half_life > 0 ? 1 : 0)                        \
                    && (exam_radionuclide->half_life > 0 ==> g_emit_value[KEY_RN_HALFLIFE] == exam_radionuclide->half_life)) \
  __CPROVER_ensures(g_emit_count[KEY_RN_BRANCHING] == (exam_radionuclide->branching_ratio > 0 ? 1 : 0)                 \
                    && (exam_radionuclide->branching_ratio > 0 ==> g_emit_value[KEY_RN_BRANCHING] == exam_radionuclide->branching_ratio)) \
  __CPROVER_ensures(g_emit_count[KEY_RN_NAME] == ((exam_radionuclide->name != NAME_EMPTY && exam_radionuclide->name != NAME_UNKNOWN) ? 1 : 0) \
                    && (g_emit_count[KEY_RN_NAME] == 1 ==> g_emit_name == exam_radionuclide->name))
#define CONTRACT_K_ifh_rn_keys                                                                                        \
  __CPROVER_assigns(__CPROVER_object_whole(g_bind))                                                                    \
  __CPROVER_ensures(g_bind[KEY_RN_NAME] == MEMBER_radionuclide_name && g_bind[KEY_RN_HALFLIFE] == MEMBER_radionuclide_half_life \
                    && g_bind[KEY_RN_BRANCHING] == MEMBER_radionuclide_branching_ratio)

/* ---- byte order: read_data's overloads hand the caller's byte order down ----
   From the property ("voxel values round-trip for all number types and byte orders"): every inner read of one read_data call
   uses the byte order that call was given - never the default argument (ByteOrder::native) of an overload. */
#define BYTEORDER_DEFAULT_ARGUMENT (-12345) /* marks a call that relied on the default argument 'byte_order = ByteOrder::native' */
int g_inner_calls, g_inner_wrong, g_caller_bo; _Bool g_same_type, g_contiguous;
static inline int K_inner_io(int bo)
{
  ++g_inner_calls;
  if (bo != g_caller_bo)
    ++g_inner_wrong;
  return nondet_bool() ? 1 : 0;
}
static inline void K_convert(void) {}
#define CONTRACT_K_io_byte_order_common                                                                               \
  __CPROVER_requires(byte_order >= 0 && byte_order <= 3 && g_caller_bo == byte_order && g_inner_calls == 0 && g_inner_wrong == 0) \
  __CPROVER_ensures(g_inner_wrong == 0)
#define CONTRACT_K_rd_conv                                                                                            \
  __CPROVER_requires(__CPROVER_is_fresh(scale_factor, sizeof(float)))                                                  \
  CONTRACT_K_io_byte_order_common                                                                                     \
  __CPROVER_assigns(*scale_factor, g_inner_calls, g_inner_wrong)                                                       \
  __CPROVER_ensures(g_inner_calls == 1)
#define CONTRACT_K_rd_recurse                                                                                         \
  __CPROVER_requires(n_rows >= 0 && n_rows < 100000)                                                                   \
  CONTRACT_K_io_byte_order_common                                                                                     \
  __CPROVER_assigns(g_inner_calls, g_inner_wrong)                                                                      \
  __CPROVER_ensures(__CPROVER_return_value == 1 ==> g_inner_calls == (g_contiguous ? 1 : n_rows))
#define LC_K_rd_recurse_0                                                                                             \
  __CPROVER_assigns(iter, g_inner_calls, g_inner_wrong)                                                                \
  __CPROVER_loop_invariant(iter >= 0 && iter <= n_rows && g_inner_calls == iter && g_inner_wrong == 0)                 \
  __CPROVER_decreases(n_rows - iter)

/* write side: write_data_with_fixed_scale_factor_help (1D: converts if needed, then write_data_1d; nD: recursion over the rows) */
static inline float K_convert_scale(float preferred) { float r = nondet_float(); __CPROVER_assume(r >= -1e30F && r <= 1e30F); return r; } /* convert_array may change the preferred scale factor */
#define CONTRACT_K_wr_fixed_1d                                                                                        \
  CONTRACT_K_io_byte_order_common                                                                                     \
  __CPROVER_requires(scale_factor >= -1e30F && scale_factor <= 1e30F)                                                  \
  __CPROVER_assigns(g_inner_calls, g_inner_wrong)                                                                      \
  __CPROVER_ensures(g_inner_calls <= 1)
#define CONTRACT_K_wr_fixed_recurse                                                                                   \
  __CPROVER_requires(n_rows >= 0 && n_rows < 100000)                                                                   \
  CONTRACT_K_io_byte_order_common                                                                                     \
  __CPROVER_assigns(g_inner_calls, g_inner_wrong)                                                                      \
  __CPROVER_ensures(__CPROVER_return_value == 1 ==> g_inner_calls == n_rows)
#define LC_K_wr_fixed_recurse_0 LC_K_rd_recurse_0
#endif
