/* Contracts for C02, part C: the SegmentBySinogram <-> SegmentByView conversions (rows of T tangential positions are moved
   between [axial][view] and [view][axial] order). A row is identified by its (axial, view) coordinates in the SOURCE segment;
   ghost coordinates g_i (index in the 2D object: axial position for a viewgram, view for a sinogram) and g_o (the object's own number).
   From the property ("segment by view or by sinogram ... read back unchanged through every other path"):
   - get_viewgram(v) of a segment by sinogram: row ax of the viewgram is the segment's row [ax][v], for every ax of the segment, set once;
   - get_sinogram(ax) of a segment by view: row v of the sinogram is the segment's row [v][ax];
   - the constructors' loops hand every viewgram (sinogram) of the source to set_viewgram (set_sinogram) exactly once.
   Hence dest[v][ax] = src[ax][v] and vice versa. */
#ifndef C02C_CONTRACTS_H
#define C02C_CONTRACTS_H
#include "contracts/prelude.h"
struct SEG { int min_axial_pos, max_axial_pos, min_view, max_view; };
#define SEG_OKR(s) ((s)->min_axial_pos > -100000 && (s)->max_axial_pos < 100000 && (s)->max_axial_pos > -100000 && (s)->min_axial_pos <= (s)->max_axial_pos + 1 \
                    && (s)->min_view > -100000 && (s)->max_view < 100000 && (s)->max_view > -100000 && (s)->min_view <= (s)->max_view + 1)
int g_i, g_o;                 /* ghost: index inside the 2D object / number of the object */
int g_pre_lo, g_pre_hi;       /* index range of the 2D array being filled */
int g_pre_writes, g_row_ax, g_row_view; /* the source row (axial, view) stored at index g_i */
int g_obj_number;             /* number (view resp. axial position) given to the returned object */
int g_calls, g_bad;
#define PRE_ALLOC(lo, hi) (g_pre_lo = (lo), g_pre_hi = (hi))
#define SRC_ROW(self, ax, vw) (ax), (vw)
#define PRE_SET(i, ax_vw) PRE_SET2(i, ax_vw)
#define PRE_SET2(i, ax, vw)                                                                                           \
  do                                                                                                                  \
    {                                                                                                                 \
      __CPROVER_assert((i) >= g_pre_lo && (i) <= g_pre_hi, "2D array indexed inside its range");                      \
      __CPROVER_assert((ax) >= self->min_axial_pos && (ax) <= self->max_axial_pos && (vw) >= self->min_view && (vw) <= self->max_view, "segment indexed inside its ranges"); \
      if ((i) == g_i)                                                                                                 \
        {                                                                                                             \
          ++g_pre_writes;                                                                                             \
          g_row_ax = (ax); g_row_view = (vw);                                                                         \
        }                                                                                                             \
    }                                                                                                                 \
  while (0)
#define OBJ_MAKE(n) (g_obj_number = (n))
#define CONTRACT_K_sbs_get_viewgram                                                                                   \
  __CPROVER_requires(__CPROVER_is_fresh(self, sizeof(*self)) && SEG_OKR(self) && view_num >= self->min_view && view_num <= self->max_view && g_pre_writes == 0) \
  __CPROVER_assigns(g_pre_lo, g_pre_hi, g_pre_writes, g_row_ax, g_row_view, g_obj_number)                              \
  __CPROVER_ensures(g_obj_number == view_num && g_pre_lo == self->min_axial_pos && g_pre_hi == self->max_axial_pos)    \
  __CPROVER_ensures((g_i >= self->min_axial_pos && g_i <= self->max_axial_pos) ? (g_pre_writes == 1 && g_row_ax == g_i && g_row_view == view_num) : g_pre_writes == 0)
#define LC_K_sbs_get_viewgram_0                                                                                       \
  __CPROVER_assigns(r, g_pre_writes, g_row_ax, g_row_view)                                                             \
  __CPROVER_loop_invariant(r >= self->min_axial_pos && r <= self->max_axial_pos + 1)                                   \
  __CPROVER_loop_invariant((g_i >= self->min_axial_pos && g_i < r) ? (g_pre_writes == 1 && g_row_ax == g_i && g_row_view == view_num) : g_pre_writes == 0) \
  __CPROVER_decreases(self->max_axial_pos + 1 - r)
#define CONTRACT_K_sbv_get_sinogram                                                                                   \
  __CPROVER_requires(__CPROVER_is_fresh(self, sizeof(*self)) && SEG_OKR(self) && axial_pos_num >= self->min_axial_pos && axial_pos_num <= self->max_axial_pos && g_pre_writes == 0) \
  __CPROVER_assigns(g_pre_lo, g_pre_hi, g_pre_writes, g_row_ax, g_row_view, g_obj_number)                              \
  __CPROVER_ensures(g_obj_number == axial_pos_num && g_pre_lo == self->min_view && g_pre_hi == self->max_view)         \
  __CPROVER_ensures((g_i >= self->min_view && g_i <= self->max_view) ? (g_pre_writes == 1 && g_row_view == g_i && g_row_ax == axial_pos_num) : g_pre_writes == 0)
#define LC_K_sbv_get_sinogram_0                                                                                       \
  __CPROVER_assigns(v, g_pre_writes, g_row_ax, g_row_view)                                                             \
  __CPROVER_loop_invariant(v >= self->min_view && v <= self->max_view + 1)                                             \
  __CPROVER_loop_invariant((g_i >= self->min_view && g_i < v) ? (g_pre_writes == 1 && g_row_view == g_i && g_row_ax == axial_pos_num) : g_pre_writes == 0) \
  __CPROVER_decreases(self->max_view + 1 - v)
/* constructor loops: the source's object number n (viewgram n / sinogram n) is fetched and stored under the same number */
static inline int K_src_get_object(int n) { return n; }
static inline void K_dst_set_object(int n)
{
  if (n == g_o)
    ++g_calls;
}
#define CONTRACT_K_sbv_ctor_loop                                                                                      \
  __CPROVER_requires(__CPROVER_is_fresh(self, sizeof(*self)) && SEG_OKR(self) && g_calls == 0)                         \
  __CPROVER_assigns(g_calls)                                                                                           \
  __CPROVER_ensures(g_calls == ((g_o >= self->min_view && g_o <= self->max_view) ? 1 : 0))
#define LC_K_sbv_ctor_loop_0                                                                                          \
  __CPROVER_assigns(v, g_calls)                                                                                        \
  __CPROVER_loop_invariant(v >= self->min_view && v <= self->max_view + 1 && g_calls == ((g_o >= self->min_view && g_o < v) ? 1 : 0)) \
  __CPROVER_decreases(self->max_view + 1 - v)
#define CONTRACT_K_sbs_ctor_loop                                                                                      \
  __CPROVER_requires(__CPROVER_is_fresh(self, sizeof(*self)) && SEG_OKR(self) && g_calls == 0)                         \
  __CPROVER_assigns(g_calls)                                                                                           \
  __CPROVER_ensures(g_calls == ((g_o >= self->min_axial_pos && g_o <= self->max_axial_pos) ? 1 : 0))
#define LC_K_sbs_ctor_loop_0                                                                                          \
  __CPROVER_assigns(r, g_calls)                                                                                        \
  __CPROVER_loop_invariant(r >= self->min_axial_pos && r <= self->max_axial_pos + 1 && g_calls == ((g_o >= self->min_axial_pos && g_o < r) ? 1 : 0)) \
  __CPROVER_decreases(self->max_axial_pos + 1 - r)
#endif
