/* Contracts for C02: projection data as one coherent array - the layout core:
   ProjDataInMemory::get_index and ProjDataFromStream::get_offset (bin -> element index / byte offset).
   Parametric proof: number of views V, of tangential positions T and the element size E are job constants
   (C02_V, C02_T, C02_E); segments, axial ranges, segment/timing permutations, offsets and the bin are symbolic. */
#ifndef C02_CONTRACTS_H
#define C02_CONTRACTS_H
#include "contracts/prelude.h"

int g_error;
#define K_THROW(val)                                                                                                  \
  do                                                                                                                  \
    {                                                                                                                 \
      g_error = 1;                                                                                                    \
      return val;                                                                                                     \
    }                                                                                                                 \
  while (0)

#ifndef MAXSEGS
#define MAXSEGS 5
#endif
#ifndef MAXT
#define MAXT 3
#endif
struct Bin { int segment_num, view_num, axial_pos_num, tangential_pos_num, timing_pos_num; };
/* the members of ProjDataInMemory / ProjDataFromStream / ProjDataInfo that the two functions read */
struct PD
{
  int min_seg, max_seg;                    /* index range of min/max_axial_pos_per_seg */
  short min_ax[MAXSEGS], max_ax[MAXSEGS];  /* min_axial_pos_per_seg / max_axial_pos_per_seg (held as short: domain |.|<2^15) */
  int min_view, max_view, min_tang, max_tang, min_tof, max_tof, num_tof; /* num_tof = ProjDataInfo::num_tof_bins */
  int nseq; int segment_sequence[MAXSEGS];         /* std::vector<int> segment_sequence */
  int ntseq; int timing_poss_sequence[MAXT];       /* std::vector<int> timing_poss_sequence */
  long offset_3d_data;                             /* std::streamoff */
  long offset;                                     /* ProjDataFromStream::offset */
  int storage_order;                               /* ProjDataFromStream::StorageOrder */
  int elsize;                                      /* on_disk_data_type.size_in_bytes() */
};
enum { Segment_AxialPos_View_TangPos, Timing_Segment_AxialPos_View_TangPos, Segment_View_AxialPos_TangPos, Timing_Segment_View_AxialPos_TangPos, Unsupported };

#ifndef C02_V
#define C02_V 3
#endif
#ifndef C02_T
#define C02_T 5
#endif
#ifndef C02_E
#define C02_E 4
#endif
#define NV(s) ((s)->max_view - (s)->min_view + 1)
#define NT(s) ((s)->max_tang - (s)->min_tang + 1)
#define NSEG(s) ((s)->max_seg - (s)->min_seg + 1)
#define NAXI(s, j) ((int)(s)->max_ax[j] - (int)(s)->min_ax[j] + 1) /* j = segment - min_seg */

/* per-segment vectors of ProjDataInfo (VectorWithOffset, unchecked operator[] in release builds) */
static inline int K_seg_at(const short* a, const struct PD* self, int seg)
{
  __CPROVER_assert(seg >= self->min_seg && seg <= self->max_seg, "per-segment vector indexed inside [min_segment,max_segment]");
  return a[seg - self->min_seg];
}
static inline int K_num_ax(const struct PD* self, int seg) { return K_seg_at(self->max_ax, self, seg) - K_seg_at(self->min_ax, self, seg) + 1; }
static inline int K_vec_at(const int* a, int n, int i)
{
  __CPROVER_assert(i >= 0 && i < n, "std::vector<int>::operator[] inside its size");
  return a[i];
}

/* ghosts: inverse permutations and the prefix sums of axial positions in stream order (specification state) */
int g_pos[MAXSEGS];      /* g_pos[seg - min_seg] = position of seg in segment_sequence */
int g_tpos[MAXT];        /* g_tpos[t - min_tof] = position of t in timing_poss_sequence */
long g_prefix[MAXSEGS + 1]; /* g_prefix[k] = number of axial positions of the first k segments of the sequence */

#define ALLS(P) (P(0) && P(1) && P(2) && P(3) && P(4) && (MAXSEGS <= 5 || (P(5) && P(6) && P(7))))
#define ALLT(P) (P(0) && P(1) && P(2) && (MAXT <= 3 || (P(3) && P(4) && P(5) && P(6) && P(7))))
#define SEQ_OK(k) (!((k) < NSEG(s_)) || (s_->segment_sequence[k] >= s_->min_seg && s_->segment_sequence[k] <= s_->max_seg && g_pos[s_->segment_sequence[k] - s_->min_seg] == (k)))
#define POS_OK(j) (!((j) < NSEG(s_)) || (g_pos[j] >= 0 && g_pos[j] < NSEG(s_) && s_->segment_sequence[g_pos[j]] == s_->min_seg + (j)))
#define AX_OK(j) (!((j) < NSEG(s_)) || (s_->min_ax[j] <= s_->max_ax[j] && s_->min_ax[j] > -4096 && s_->max_ax[j] < 4096))
#define PRE_OK(k) (!((k) < NSEG(s_)) || g_prefix[(k) + 1] == g_prefix[k] + NAXI(s_, s_->segment_sequence[k] - s_->min_seg))
#define TSEQ_OK(k) (!((k) < s_->num_tof) || (s_->timing_poss_sequence[k] >= s_->min_tof && s_->timing_poss_sequence[k] <= s_->max_tof && g_tpos[s_->timing_poss_sequence[k] - s_->min_tof] == (k)))
#define TPOS_OK(j) (!((j) < s_->num_tof) || (g_tpos[j] >= 0 && g_tpos[j] < s_->num_tof && s_->timing_poss_sequence[g_tpos[j]] == s_->min_tof + (j)))
/* what the constructors establish (segment_sequence / timing_poss_sequence are permutations of the segment / TOF
   ranges; offset_3d_data is the size of one TOF block - activate_TOF / the in-memory constructor) */
static inline _Bool PD_VALID_CORE(const struct PD* s_)
{
  return s_->min_seg > -1000 && s_->max_seg < 1000 && s_->min_seg <= s_->max_seg && NSEG(s_) <= MAXSEGS && s_->nseq == NSEG(s_)
         && s_->min_view > -10000 && s_->min_view < 10000 && s_->max_view > -10000 && s_->max_view < 20000 && NV(s_) == C02_V
         && s_->min_tang > -10000 && s_->min_tang < 10000 && s_->max_tang > -10000 && s_->max_tang < 20000 && NT(s_) == C02_T
         && s_->min_tof > -1000 && s_->min_tof <= s_->max_tof && s_->max_tof < 1000 && s_->num_tof == s_->max_tof - s_->min_tof + 1 && s_->num_tof <= MAXT
         && s_->ntseq == s_->num_tof
         && ALLS(SEQ_OK) && ALLS(POS_OK) && ALLS(AX_OK) && g_prefix[0] == 0 && ALLS(PRE_OK) && ALLT(TSEQ_OK) && ALLT(TPOS_OK);
}
#define TOTAL_SINOS(s) (g_prefix[NSEG(s)])

/* std::find(v.begin(), v.end(), x) - v.begin(); gq: ghost parameter = the position the caller expects (from the
   ghost inverse permutation) - lets the caller conclude the result from "no earlier element equals x" */
int K_find_int(const int* a, int n, int x, int gq)
__CPROVER_requires(n >= 0 && n <= 8 && (n == 0 || __CPROVER_r_ok(a, n * sizeof(int))))
__CPROVER_assigns()
__CPROVER_ensures(__CPROVER_return_value >= 0 && __CPROVER_return_value <= n)
__CPROVER_ensures(__CPROVER_return_value < n ==> a[__CPROVER_return_value] == x)
__CPROVER_ensures((0 <= gq && gq < __CPROVER_return_value) ==> a[gq] != x)
{
  int i = 0;
  for (; i < n; ++i)
    __CPROVER_assigns(i)
    __CPROVER_loop_invariant(0 <= i && i <= n && ((0 <= gq && gq < i) ==> a[gq] != x))
    __CPROVER_decreases(n - i)
    {
      if (a[i] == x)
        break;
    }
  return i;
}
#define GQ_SEG ((this_bin->segment_num >= self->min_seg && this_bin->segment_num <= self->max_seg) ? g_pos[this_bin->segment_num - self->min_seg] : -1)
#define GQ_TOF ((this_bin->timing_pos_num >= self->min_tof && this_bin->timing_pos_num <= self->max_tof) ? g_tpos[this_bin->timing_pos_num - self->min_tof] : -1)

/* From the property: "a single array indexed by (segment, axial position, view, tangential position, TOF bin)";
   "requests outside the index ranges are reported as errors instead of touching other data" */
#define BIN_IN_RANGE(s, b)                                                                                            \
  ((b)->segment_num >= (s)->min_seg && (b)->segment_num <= (s)->max_seg                                               \
   && (b)->axial_pos_num >= (s)->min_ax[(b)->segment_num - (s)->min_seg] && (b)->axial_pos_num <= (s)->max_ax[(b)->segment_num - (s)->min_seg] \
   && (b)->view_num >= (s)->min_view && (b)->view_num <= (s)->max_view                                                \
   && (b)->tangential_pos_num >= (s)->min_tang && (b)->tangential_pos_num <= (s)->max_tang                            \
   && (b)->timing_pos_num >= (s)->min_tof && (b)->timing_pos_num <= (s)->max_tof)
#define SEGJ(s, b) ((b)->segment_num - (s)->min_seg)
#define TIDX(s, b) ((s)->num_tof > 1 ? (long)g_tpos[(b)->timing_pos_num - (s)->min_tof] : 0L)
/* t * X for the few TOF positions of the proof domain, written without a multiplier (MAXT <= 8) */
#define TMUL(t, X) ((t) == 0 ? 0L : (t) == 1 ? (X) : (t) == 2 ? 2 * (X) : (t) == 3 ? 3 * (X) : (t) == 4 ? 4 * (X) : (t) == 5 ? 5 * (X) : (t) == 6 ? 6 * (X) : 7 * (X))
#define AXI(s, b) ((long)((b)->axial_pos_num - (s)->min_ax[SEGJ(s, b)]))
#define VWI(s, b) ((long)((b)->view_num - (s)->min_view))
#define TGI(s, b) ((long)((b)->tangential_pos_num - (s)->min_tang))
/* From the property: "a single array indexed by (segment, axial position, view, tangential position, TOF bin)":
   the element index in mixed-radix (Horner) form. ROW = number of the sinogram row (TOF block, then segments in stream
   order, then axial position); then view (radix V) and tangential position (radix T). */
#define ROW(s, b) (TMUL(TIDX(s, b), TOTAL_SINOS(s)) + g_prefix[g_pos[SEGJ(s, b)]] + AXI(s, b))
#define SPEC_INDEX_H(s, b) ((ROW(s, b) * C02_V + VWI(s, b)) * C02_T + TGI(s, b))
/* the same number with the products distributed (term by term: whole sinogram rows of earlier segments, TOF blocks,
   rows of this segment, views, tangential positions). Equal to the Horner form by distributivity of integer
   multiplication (no overflow: all operands bounded); CBMC discharges that equality only for power-of-two V and T
   (job lemma_forms_agree), for other sizes it is a listed assumption. The kernels are verified against this form for
   every (V,T) of the sweep. */
#define SPEC_INDEX(s, b)                                                                                              \
  (g_prefix[g_pos[SEGJ(s, b)]] * C02_V * C02_T + TMUL(TIDX(s, b), (s)->offset_3d_data) + AXI(s, b) * C02_V * C02_T + VWI(s, b) * C02_T + TGI(s, b))
/* instance of lemma P (h_lemma_prefix_monotone, proved from PD_VALID_CORE) for the bin's own segment: the segment's block
   of axial positions lies inside the total */
#define PREFIX_FACT(s, b)                                                                                             \
  (!((b)->segment_num >= (s)->min_seg && (b)->segment_num <= (s)->max_seg)                                             \
   || (g_prefix[g_pos[SEGJ(s, b)]] >= 0 && g_prefix[g_pos[SEGJ(s, b)]] + NAXI(s, SEGJ(s, b)) <= TOTAL_SINOS(s) && TOTAL_SINOS(s) <= (long)MAXSEGS * 8192))
#define CONTRACT_K_pdm_get_index                                                                                     \
  __CPROVER_requires(__CPROVER_is_fresh(self, sizeof(*self)) && __CPROVER_is_fresh(this_bin, sizeof(*this_bin)) && g_error == 0) \
  __CPROVER_requires(PD_VALID_CORE(self) && PREFIX_FACT(self, this_bin) && self->offset_3d_data == TOTAL_SINOS(self) * C02_V * C02_T) \
  __CPROVER_assigns(g_error)                                                                                           \
  __CPROVER_ensures(g_error == (BIN_IN_RANGE(self, this_bin) ? 0 : 1))                                                 \
  __CPROVER_ensures(!g_error ==> __CPROVER_return_value == SPEC_INDEX(self, this_bin))
#define LC_K_pdm_get_index_0                                                                                         \
  __CPROVER_assigns(i, num_axial_pos_offset)                                                                           \
  __CPROVER_loop_invariant(0 <= i && i <= index && num_axial_pos_offset == g_prefix[i])                                \
  __CPROVER_decreases(index - i)

/* byte offset in the stream, both storage orders. Sinogram order: as above, times the element size. View order
   (Segment_View_AxialPos_TangPos): inside the segment's block the row is view * (axial positions of the segment) + axial position */
#define SEGROW0(s, b) (TMUL(TIDX(s, b), TOTAL_SINOS(s)) + g_prefix[g_pos[SEGJ(s, b)]])
#define SPEC_OFFSET_H(s, b)                                                                                           \
  ((s)->offset                                                                                                        \
   + (((s)->storage_order == Segment_AxialPos_View_TangPos || (s)->storage_order == Timing_Segment_AxialPos_View_TangPos)       \
          ? (((SEGROW0(s, b) + AXI(s, b)) * C02_V + VWI(s, b)) * C02_T + TGI(s, b)) * C02_E                            \
          : ((SEGROW0(s, b) * C02_V + VWI(s, b) * NAXI(s, SEGJ(s, b)) + AXI(s, b)) * C02_T + TGI(s, b)) * C02_E))
#define SPEC_OFFSET(s, b)                                                                                             \
  ((s)->offset + g_prefix[g_pos[SEGJ(s, b)]] * C02_V * C02_T * C02_E + TMUL(TIDX(s, b), (s)->offset_3d_data)          \
   + (((s)->storage_order == Segment_AxialPos_View_TangPos || (s)->storage_order == Timing_Segment_AxialPos_View_TangPos)       \
          ? AXI(s, b) * C02_V * C02_T * C02_E + VWI(s, b) * C02_T * C02_E + TGI(s, b) * C02_E                          \
          : VWI(s, b) * NAXI(s, SEGJ(s, b)) * C02_T * C02_E + AXI(s, b) * C02_T * C02_E + TGI(s, b) * C02_E))
#define CONTRACT_K_pds_get_offset                                                                                    \
  __CPROVER_requires(__CPROVER_is_fresh(self, sizeof(*self)) && __CPROVER_is_fresh(this_bin, sizeof(*this_bin)) && g_error == 0) \
  __CPROVER_requires(PD_VALID_CORE(self) && PREFIX_FACT(self, this_bin) && self->elsize == C02_E && self->offset_3d_data == TOTAL_SINOS(self) * C02_V * C02_T * C02_E) \
  __CPROVER_requires(self->offset >= 0 && self->offset < (1L << 40))                                                   \
  __CPROVER_assigns(g_error)                                                                                           \
  __CPROVER_ensures(g_error == ((BIN_IN_RANGE(self, this_bin) && self->storage_order >= Segment_AxialPos_View_TangPos && self->storage_order <= Timing_Segment_View_AxialPos_TangPos) ? 0 : 1)) \
  __CPROVER_ensures(!g_error ==> __CPROVER_return_value == SPEC_OFFSET(self, this_bin))
#define LC_K_pds_get_offset_0 LC_K_pdm_get_index_0


/* ================= Interfile PDFS header reader: find_segment_sequence (InterfileHeader.cxx) =================
   Statement kernel: the loop that re-orders the per-segment header lists (given in STREAM order) into vectors indexed by
   segment number. Rank r (position after sorting by average ring difference) has segment number r - segment_zero_num and
   came from stream position location_and_segment_num[r].first.  From the property ("writing data with its header and
   reading the pair back yields equal geometry ... whatever the segment order in the stream"): the entry of segment
   (r - zero) in each of the three re-ordered vectors is the entry the header gave at that segment's stream position.
   Ghost rank g_r stands for every rank; the three input lists and the three output vectors are projected onto it. */
int g_r, g_zero, g_rloc;                 /* ghost rank, rank of segment 0, stream position of the ghost rank */
int g_in_min_ring_difference, g_in_max_ring_difference, g_in_num_rings_per_segment; /* header entries at stream position g_rloc */
int g_out_min_ring_diff, g_out_max_ring_diff, g_out_num_rings_per_segment;          /* re-ordered entries of segment g_r - g_zero */
int g_ow_min_ring_diff, g_ow_max_ring_diff, g_ow_num_rings_per_segment;             /* how often each was written */
int g_fss_min_seg, g_fss_max_seg;        /* index range of the re-ordered vectors */
/* location_and_segment_num[i] as built by the preceding loop (ASSUMED from reading it): .second == i - segment_zero_num,
   .first == stream position of rank i */
int LS_SEG(int i)
__CPROVER_requires(i >= 0 && i <= g_fss_max_seg - g_fss_min_seg)
__CPROVER_assigns()
__CPROVER_ensures(__CPROVER_return_value == i - g_zero)
;
int LS_LOC(int i)
__CPROVER_requires(i >= 0 && i <= g_fss_max_seg - g_fss_min_seg)
__CPROVER_assigns()
__CPROVER_ensures(__CPROVER_return_value >= 0 && __CPROVER_return_value <= g_fss_max_seg - g_fss_min_seg)
__CPROVER_ensures(i == g_r ==> __CPROVER_return_value == g_rloc)
;
#define FSS_IN(name)                                                                                                  \
  int IN_##name(int loc)                                                                                              \
  __CPROVER_requires(loc >= 0 && loc <= g_fss_max_seg - g_fss_min_seg) /* std::vector::operator[] inside its size */  \
  __CPROVER_assigns()                                                                                                 \
  __CPROVER_ensures(loc == g_rloc ==> __CPROVER_return_value == g_in_##name);
FSS_IN(min_ring_difference)
FSS_IN(max_ring_difference)
FSS_IN(num_rings_per_segment)
#define SORTED_WRITE(name, seg, e)                                                                                    \
  do                                                                                                                  \
    {                                                                                                                 \
      __CPROVER_assert((seg) >= g_fss_min_seg && (seg) <= g_fss_max_seg, "re-ordered vector written inside its index range"); \
      if ((seg) == g_r - g_zero)                                                                                      \
        {                                                                                                             \
          g_out_##name = (e);                                                                                         \
          ++g_ow_##name;                                                                                              \
        }                                                                                                             \
    }                                                                                                                 \
  while (0)
#define FSS_DONE(c) (g_ow_min_ring_diff == (c) && g_ow_max_ring_diff == (c) && g_ow_num_rings_per_segment == (c))
#define FSS_SPEC (g_out_min_ring_diff == g_in_min_ring_difference && g_out_max_ring_diff == g_in_max_ring_difference \
                  && g_out_num_rings_per_segment == g_in_num_rings_per_segment)
#define CONTRACT_K_fss_reorder                                                                                       \
  __CPROVER_requires(num_segments >= 1 && num_segments <= 1000 && g_zero >= 0 && g_zero < num_segments)                \
  __CPROVER_requires(g_fss_min_seg == -g_zero && g_fss_max_seg == num_segments - 1 - g_zero)                           \
  __CPROVER_requires(g_r >= 0 && g_r < num_segments && g_rloc >= 0 && g_rloc < num_segments && FSS_DONE(0))            \
  __CPROVER_assigns(g_out_min_ring_diff, g_out_max_ring_diff, g_out_num_rings_per_segment, g_ow_min_ring_diff, g_ow_max_ring_diff, g_ow_num_rings_per_segment) \
  __CPROVER_ensures(FSS_DONE(1) && FSS_SPEC)
#define LC_K_fss_reorder_0                                                                                           \
  __CPROVER_assigns(i, g_out_min_ring_diff, g_out_max_ring_diff, g_out_num_rings_per_segment, g_ow_min_ring_diff, g_ow_max_ring_diff, g_ow_num_rings_per_segment) \
  __CPROVER_loop_invariant(0 <= i && i <= num_segments)                                                                \
  __CPROVER_loop_invariant(FSS_DONE(g_r < i ? 1 : 0) && (g_r < i ==> FSS_SPEC))                                        \
  __CPROVER_decreases(num_segments - i)

#endif
