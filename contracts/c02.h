/* Contracts for C02: projection data as one coherent array - the layout core:
   ProjDataInMemory::get_index and ProjDataFromStream::get_offset (bin -> element index / byte offset).
   Parametric proof: number of views V, of tangential positions T and the element size E are job constants
   (C02_V, C02_T, C02_E); segments, axial ranges, segment/timing permutations, offsets and the bin are symbolic. */
#ifndef C02_CONTRACTS_H
#define C02_CONTRACTS_H
#include "contracts/prelude.h"

int g_error;
#define K_THROW(val)                                                                                                  \
  do                                                                                                                  \
    {                                                                                                                 \
      g_error = 1;                                                                                                    \
      return val;                                                                                                     \
    }                                                                                                                 \
  while (0)

#ifndef MAXSEGS
#define MAXSEGS 5
#endif
#ifndef MAXT
#define MAXT 3
#endif
struct Bin { int segment_num, view_num, axial_pos_num, tangential_pos_num, timing_pos_num; };
/* the members of ProjDataInMemory / ProjDataFromStream / ProjDataInfo that the two functions read */
struct PD
{
  int min_seg, max_seg;                    /* index range of min/max_axial_pos_per_seg */
  short min_ax[MAXSEGS], max_ax[MAXSEGS];  /* min_axial_pos_per_seg / max_axial_pos_per_seg (held as short: domain |.|<2^15) */
  int min_view, max_view, min_tang, max_tang, min_tof, max_tof, num_tof; /* num_tof = ProjDataInfo::num_tof_bins */
  int nseq; int segment_sequence[MAXSEGS];         /* std::vector<int> segment_sequence */
  int ntseq; int timing_poss_sequence[MAXT];       /* std::vector<int> timing_poss_sequence */
  long offset_3d_data;                             /* std::streamoff */
  long offset;                                     /* ProjDataFromStream::offset */
  int storage_order;                               /* ProjDataFromStream::StorageOrder */
  int elsize;                                      /* on_disk_data_type.size_in_bytes() */
};
enum { Segment_AxialPos_View_TangPos, Timing_Segment_AxialPos_View_TangPos, Segment_View_AxialPos_TangPos, Timing_Segment_View_AxialPos_TangPos, Unsupported };

#ifndef C02_V
#define C02_V 3
#endif
#ifndef C02_T
#define C02_T 5
#endif
#ifndef C02_E
#define C02_E 4
#endif
#define NV(s) ((s)->max_view - (s)->min_view + 1)
#define NT(s) ((s)->max_tang - (s)->min_tang + 1)
#define NSEG(s) ((s)->max_seg - (s)->min_seg + 1)
#define NAXI(s, j) ((int)(s)->max_ax[j] - (int)(s)->min_ax[j] + 1) /* j = segment - min_seg */

/* per-segment vectors of ProjDataInfo (VectorWithOffset, unchecked operator[] in release builds) */
static inline int K_seg_at(const short* a, const struct PD* self, int seg)
{
  __CPROVER_assert(seg >= self->min_seg && seg <= self->max_seg, "per-segment vector indexed inside [min_segment,max_segment]");
  return a[seg - self->min_seg];
}
static inline int K_num_ax(const struct PD* self, int seg) { return K_seg_at(self->max_ax, self, seg) - K_seg_at(self->min_ax, self, seg) + 1; }
static inline int K_vec_at(const int* a, int n, int i)
{
  __CPROVER_assert(i >= 0 && i < n, "std::vector<int>::operator[] inside its size");
  return a[i];
}

/* ghosts: inverse permutations and the prefix sums of axial positions in stream order (specification state) */
int g_pos[MAXSEGS];      /* g_pos[seg - min_seg] = position of seg in segment_sequence */
int g_tpos[MAXT];        /* g_tpos[t - min_tof] = position of t in timing_poss_sequence */
long g_prefix[MAXSEGS + 1]; /* g_prefix[k] = number of axial positions of the first k segments of the sequence */

#define ALLS(P) (P(0) && P(1) && P(2) && P(3) && P(4) && (MAXSEGS <= 5 || (P(5) && P(6) && P(7))))
#define ALLT(P) (P(0) && P(1) && P(2) && (MAXT <= 3 || (P(3) && P(4) && P(5) && P(6) && P(7))))
#define SEQ_OK(k) (!((k) < NSEG(s_)) || (s_->segment_sequence[k] >= s_->min_seg && s_->segment_sequence[k] <= s_->max_seg && g_pos[s_->segment_sequence[k] - s_->min_seg] == (k)))
#define POS_OK(j) (!((j) < NSEG(s_)) || (g_pos[j] >= 0 && g_pos[j] < NSEG(s_) && s_->segment_sequence[g_pos[j]] == s_->min_seg + (j)))
#define AX_OK(j) (!((j) < NSEG(s_)) || (s_->min_ax[j] <= s_->max_ax[j] && s_->min_ax[j] > -4096 && s_->max_ax[j] < 4096))
#define PRE_OK(k) (!((k) < NSEG(s_)) || g_prefix[(k) + 1] == g_prefix[k] + NAXI(s_, s_->segment_sequence[k] - s_->min_seg))
#define TSEQ_OK(k) (!((k) < s_->num_tof) || (s_->timing_poss_sequence[k] >= s_->min_tof && s_->timing_poss_sequence[k] <= s_->max_tof && g_tpos[s_->timing_poss_sequence[k] - s_->min_tof] == (k)))
#define TPOS_OK(j) (!((j) < s_->num_tof) || (g_tpos[j] >= 0 && g_tpos[j] < s_->num_tof && s_->timing_poss_sequence[g_tpos[j]] == s_->min_tof + (j)))
/* what the constructors establish (segment_sequence / timing_poss_sequence are permutations of the segment / TOF
   ranges; offset_3d_data is the size of one TOF block - activate_TOF / the in-memory constructor) */
static inline _Bool PD_VALID_CORE(const struct PD* s_)
{
  return s_->min_seg > -1000 && s_->max_seg < 1000 && s_->min_seg <= s_->max_seg && NSEG(s_) <= MAXSEGS && s_->nseq == NSEG(s_)
         && s_->min_view > -10000 && s_->min_view < 10000 && s_->max_view > -10000 && s_->max_view < 20000 && NV(s_) == C02_V
         && s_->min_tang > -10000 && s_->min_tang < 10000 && s_->max_tang > -10000 && s_->max_tang < 20000 && NT(s_) == C02_T
         && s_->min_tof > -1000 && s_->min_tof <= s_->max_tof && s_->max_tof < 1000 && s_->num_tof == s_->max_tof - s_->min_tof + 1 && s_->num_tof <= MAXT
         && s_->ntseq == s_->num_tof
         && ALLS(SEQ_OK) && ALLS(POS_OK) && ALLS(AX_OK) && g_prefix[0] == 0 && ALLS(PRE_OK) && ALLT(TSEQ_OK) && ALLT(TPOS_OK);
}
#define TOTAL_SINOS(s) (g_prefix[NSEG(s)])

/* std::find(v.begin(), v.end(), x) - v.begin(); gq: ghost parameter = the position the caller expects (from the
   ghost inverse permutation) - lets the caller conclude the result from "no earlier element equals x" */
int K_find_int(const int* a, int n, int x, int gq)
__CPROVER_requires(n >= 0 && n <= 8 && (n == 0 || __CPROVER_r_ok(a, n * sizeof(int))))
__CPROVER_assigns()
__CPROVER_ensures(__CPROVER_return_value >= 0 && __CPROVER_return_value <= n)
__CPROVER_ensures(__CPROVER_return_value < n ==> a[__CPROVER_return_value] == x)
__CPROVER_ensures((0 <= gq && gq < __CPROVER_return_value) ==> a[gq] != x)
{
  int i = 0;
  for (; i < n; ++i)
    __CPROVER_assigns(i)
    __CPROVER_loop_invariant(0 <= i && i <= n && ((0 <= gq && gq < i) ==> a[gq] != x))
    __CPROVER_decreases(n - i)
    {
      if (a[i] == x)
        break;
    }
  return i;
}
#define GQ_SEG ((this_bin->segment_num >= self->min_seg && this_bin->segment_num <= self->max_seg) ? g_pos[this_bin->segment_num - self->min_seg] : -1)
#define GQ_TOF ((this_bin->timing_pos_num >= self->min_tof && this_bin->timing_pos_num <= self->max_tof) ? g_tpos[this_bin->timing_pos_num - self->min_tof] : -1)

/* From the property: "a single array indexed by (segment, axial position, view, tangential position, TOF bin)";
   "requests outside the index ranges are reported as errors instead of touching other data" */
#define BIN_IN_RANGE(s, b)                                                                                            \
  ((b)->segment_num >= (s)->min_seg && (b)->segment_num <= (s)->max_seg                                               \
   && (b)->axial_pos_num >= (s)->min_ax[(b)->segment_num - (s)->min_seg] && (b)->axial_pos_num <= (s)->max_ax[(b)->segment_num - (s)->min_seg] \
   && (b)->view_num >= (s)->min_view && (b)->view_num <= (s)->max_view                                                \
   && (b)->tangential_pos_num >= (s)->min_tang && (b)->tangential_pos_num <= (s)->max_tang                            \
   && (b)->timing_pos_num >= (s)->min_tof && (b)->timing_pos_num <= (s)->max_tof)
#define SEGJ(s, b) ((b)->segment_num - (s)->min_seg)
#define TIDX(s, b) ((s)->num_tof > 1 ? (long)g_tpos[(b)->timing_pos_num - (s)->min_tof] : 0L)
/* t * X for the few TOF positions of the proof domain, written without a multiplier (MAXT <= 8) */
#define TMUL(t, X) ((t) == 0 ? 0L : (t) == 1 ? (X) : (t) == 2 ? 2 * (X) : (t) == 3 ? 3 * (X) : (t) == 4 ? 4 * (X) : (t) == 5 ? 5 * (X) : (t) == 6 ? 6 * (X) : 7 * (X))
#define AXI(s, b) ((long)((b)->axial_pos_num - (s)->min_ax[SEGJ(s, b)]))
#define VWI(s, b) ((long)((b)->view_num - (s)->min_view))
#define TGI(s, b) ((long)((b)->tangential_pos_num - (s)->min_tang))
/* From the property: "a single array indexed by (segment, axial position, view, tangential position, TOF bin)":
   the element index in mixed-radix (Horner) form. ROW = number of the sinogram row (TOF block, then segments in stream
   order, then axial position); then view (radix V) and tangential position (radix T). */
#define ROW(s, b) (TMUL(TIDX(s, b), TOTAL_SINOS(s)) + g_prefix[g_pos[SEGJ(s, b)]] + AXI(s, b))
#define SPEC_INDEX_H(s, b) ((ROW(s, b) * C02_V + VWI(s, b)) * C02_T + TGI(s, b))
/* the same number with the products distributed (term by term: whole sinogram rows of earlier segments, TOF blocks,
   rows of this segment, views, tangential positions). Equal to the Horner form by distributivity of integer
   multiplication (no overflow: all operands bounded); CBMC discharges that equality only for power-of-two V and T
   (job lemma_forms_agree), for other sizes it is a listed assumption. The kernels are verified against this form for
   every (V,T) of the sweep. */
#define SPEC_INDEX5(s, seg, ax, vw, tg, tof)                                                                          \
  (g_prefix[g_pos[(seg) - (s)->min_seg]] * C02_V * C02_T + TMUL(((s)->num_tof > 1 ? (long)g_tpos[(tof) - (s)->min_tof] : 0L), (s)->offset_3d_data) \
   + ((long)((ax) - (s)->min_ax[(seg) - (s)->min_seg])) * C02_V * C02_T + ((long)((vw) - (s)->min_view)) * C02_T + ((long)((tg) - (s)->min_tang)))
#define SPEC_INDEX(s, b) SPEC_INDEX5(s, (b)->segment_num, (b)->axial_pos_num, (b)->view_num, (b)->tangential_pos_num, (b)->timing_pos_num)
/* instance of lemma P (h_lemma_prefix_monotone, proved from PD_VALID_CORE) for the bin's own segment: the segment's block
   of axial positions lies inside the total */
#define PREFIX_FACT(s, b)                                                                                             \
  (!((b)->segment_num >= (s)->min_seg && (b)->segment_num <= (s)->max_seg)                                             \
   || (g_prefix[g_pos[SEGJ(s, b)]] >= 0 && g_prefix[g_pos[SEGJ(s, b)]] + NAXI(s, SEGJ(s, b)) <= TOTAL_SINOS(s) && TOTAL_SINOS(s) <= (long)MAXSEGS * 8192))
#define CONTRACT_K_pdm_get_index                                                                                     \
  __CPROVER_requires(__CPROVER_is_fresh(self, sizeof(*self)) && __CPROVER_is_fresh(this_bin, sizeof(*this_bin)) && g_error == 0) \
  __CPROVER_requires(PD_VALID_CORE(self) && PREFIX_FACT(self, this_bin) && self->offset_3d_data == TOTAL_SINOS(self) * C02_V * C02_T) \
  __CPROVER_assigns(g_error)                                                                                           \
  __CPROVER_ensures(g_error == (BIN_IN_RANGE(self, this_bin) ? 0 : 1))                                                 \
  __CPROVER_ensures(!g_error ==> __CPROVER_return_value == SPEC_INDEX(self, this_bin))
#define LC_K_pdm_get_index_0                                                                                         \
  __CPROVER_assigns(i, num_axial_pos_offset)                                                                           \
  __CPROVER_loop_invariant(0 <= i && i <= index && num_axial_pos_offset == g_prefix[i])                                \
  __CPROVER_decreases(index - i)

/* byte offset in the stream, both storage orders. Sinogram order: as above, times the element size. View order
   (Segment_View_AxialPos_TangPos): inside the segment's block the row is view * (axial positions of the segment) + axial position */
#define SEGROW0(s, b) (TMUL(TIDX(s, b), TOTAL_SINOS(s)) + g_prefix[g_pos[SEGJ(s, b)]])
#define SPEC_OFFSET_H(s, b)                                                                                           \
  ((s)->offset                                                                                                        \
   + (((s)->storage_order == Segment_AxialPos_View_TangPos || (s)->storage_order == Timing_Segment_AxialPos_View_TangPos)       \
          ? (((SEGROW0(s, b) + AXI(s, b)) * C02_V + VWI(s, b)) * C02_T + TGI(s, b)) * C02_E                            \
          : ((SEGROW0(s, b) * C02_V + VWI(s, b) * NAXI(s, SEGJ(s, b)) + AXI(s, b)) * C02_T + TGI(s, b)) * C02_E))
/* v * X for a view index 0 <= v < C02_V <= 16, written as a selection among constant multiples (no symbolic x symbolic multiplier in the specification) */
#if C02_V <= 16
#define VMUL(v, X)                                                                                                    \
  ((v) == 0 ? 0L : (v) == 1 ? (X) : (v) == 2 ? 2 * (X) : (v) == 3 ? 3 * (X) : (v) == 4 ? 4 * (X) : (v) == 5 ? 5 * (X) : (v) == 6 ? 6 * (X) : (v) == 7 ? 7 * (X) \
   : (v) == 8 ? 8 * (X) : (v) == 9 ? 9 * (X) : (v) == 10 ? 10 * (X) : (v) == 11 ? 11 * (X) : (v) == 12 ? 12 * (X) : (v) == 13 ? 13 * (X) : (v) == 14 ? 14 * (X) : 15 * (X))
#else
#define VMUL(v, X) ((v) * (X))
#endif
#define SPEC_OFFSET5(s, seg, ax, vw, tg, tof)                                                                         \
  ((s)->offset + g_prefix[g_pos[(seg) - (s)->min_seg]] * C02_V * C02_T * C02_E                                        \
   + TMUL(((s)->num_tof > 1 ? (long)g_tpos[(tof) - (s)->min_tof] : 0L), (s)->offset_3d_data)                          \
   + (((s)->storage_order == Segment_AxialPos_View_TangPos || (s)->storage_order == Timing_Segment_AxialPos_View_TangPos)       \
          ? ((long)((ax) - (s)->min_ax[(seg) - (s)->min_seg])) * C02_V * C02_T * C02_E + ((long)((vw) - (s)->min_view)) * C02_T * C02_E \
                + ((long)((tg) - (s)->min_tang)) * C02_E                                                              \
          : VMUL((long)((vw) - (s)->min_view), (long)NAXI(s, (seg) - (s)->min_seg) * C02_T * C02_E)                   \
                + ((long)((ax) - (s)->min_ax[(seg) - (s)->min_seg])) * C02_T * C02_E + ((long)((tg) - (s)->min_tang)) * C02_E))
#define SPEC_OFFSET(s, b) SPEC_OFFSET5(s, (b)->segment_num, (b)->axial_pos_num, (b)->view_num, (b)->tangential_pos_num, (b)->timing_pos_num)
#define CONTRACT_K_pds_get_offset                                                                                    \
  __CPROVER_requires(__CPROVER_is_fresh(self, sizeof(*self)) && __CPROVER_is_fresh(this_bin, sizeof(*this_bin)) && g_error == 0) \
  __CPROVER_requires(PD_VALID_CORE(self) && PREFIX_FACT(self, this_bin) && self->elsize == C02_E && self->offset_3d_data == TOTAL_SINOS(self) * C02_V * C02_T * C02_E) \
  __CPROVER_requires(self->offset >= 0 && self->offset < (1L << 40))                                                   \
  __CPROVER_assigns(g_error)                                                                                           \
  __CPROVER_ensures(g_error == ((BIN_IN_RANGE(self, this_bin) && self->storage_order >= Segment_AxialPos_View_TangPos && self->storage_order <= Timing_Segment_View_AxialPos_TangPos) ? 0 : 1)) \
  __CPROVER_ensures(!g_error ==> __CPROVER_return_value == SPEC_OFFSET(self, this_bin))
#define LC_K_pds_get_offset_0 LC_K_pdm_get_index_0


/* ================= Interfile PDFS header reader: find_segment_sequence (InterfileHeader.cxx) =================
   Statement kernel: the loop that re-orders the per-segment header lists (given in STREAM order) into vectors indexed by
   segment number. Rank r (position after sorting by average ring difference) has segment number r - segment_zero_num and
   came from stream position location_and_segment_num[r].first.  From the property ("writing data with its header and
   reading the pair back yields equal geometry ... whatever the segment order in the stream"): the entry of segment
   (r - zero) in each of the three re-ordered vectors is the entry the header gave at that segment's stream position.
   Ghost rank g_r stands for every rank; the three input lists and the three output vectors are projected onto it. */
int g_r, g_zero, g_rloc;                 /* ghost rank, rank of segment 0, stream position of the ghost rank */
int g_in_min_ring_difference, g_in_max_ring_difference, g_in_num_rings_per_segment; /* header entries at stream position g_rloc */
int g_out_min_ring_diff, g_out_max_ring_diff, g_out_num_rings_per_segment;          /* re-ordered entries of segment g_r - g_zero */
int g_ow_min_ring_diff, g_ow_max_ring_diff, g_ow_num_rings_per_segment;             /* how often each was written */
int g_fss_min_seg, g_fss_max_seg;        /* index range of the re-ordered vectors */
/* location_and_segment_num[i] as built by the preceding loop (ASSUMED from reading it): .second == i - segment_zero_num,
   .first == stream position of rank i */
int LS_SEG(int i)
__CPROVER_requires(i >= 0 && i <= g_fss_max_seg - g_fss_min_seg)
__CPROVER_assigns()
__CPROVER_ensures(__CPROVER_return_value == i - g_zero)
;
int LS_LOC(int i)
__CPROVER_requires(i >= 0 && i <= g_fss_max_seg - g_fss_min_seg)
__CPROVER_assigns()
__CPROVER_ensures(__CPROVER_return_value >= 0 && __CPROVER_return_value <= g_fss_max_seg - g_fss_min_seg)
__CPROVER_ensures(i == g_r ==> __CPROVER_return_value == g_rloc)
;
#define FSS_IN(name)                                                                                                  \
  int IN_##name(int loc)                                                                                              \
  __CPROVER_requires(loc >= 0 && loc <= g_fss_max_seg - g_fss_min_seg) /* std::vector::operator[] inside its size */  \
  __CPROVER_assigns()                                                                                                 \
  __CPROVER_ensures(loc == g_rloc ==> __CPROVER_return_value == g_in_##name);
FSS_IN(min_ring_difference)
FSS_IN(max_ring_difference)
FSS_IN(num_rings_per_segment)
#define SORTED_WRITE(name, seg, e)                                                                                    \
  do                                                                                                                  \
    {                                                                                                                 \
      __CPROVER_assert((seg) >= g_fss_min_seg && (seg) <= g_fss_max_seg, "re-ordered vector written inside its index range"); \
      if ((seg) == g_r - g_zero)                                                                                      \
        {                                                                                                             \
          g_out_##name = (e);                                                                                         \
          ++g_ow_##name;                                                                                              \
        }                                                                                                             \
    }                                                                                                                 \
  while (0)
#define FSS_DONE(c) (g_ow_min_ring_diff == (c) && g_ow_max_ring_diff == (c) && g_ow_num_rings_per_segment == (c))
#define FSS_SPEC (g_out_min_ring_diff == g_in_min_ring_difference && g_out_max_ring_diff == g_in_max_ring_difference \
                  && g_out_num_rings_per_segment == g_in_num_rings_per_segment)
#define CONTRACT_K_fss_reorder                                                                                       \
  __CPROVER_requires(num_segments >= 1 && num_segments <= 1000 && g_zero >= 0 && g_zero < num_segments)                \
  __CPROVER_requires(g_fss_min_seg == -g_zero && g_fss_max_seg == num_segments - 1 - g_zero)                           \
  __CPROVER_requires(g_r >= 0 && g_r < num_segments && g_rloc >= 0 && g_rloc < num_segments && FSS_DONE(0))            \
  __CPROVER_assigns(g_out_min_ring_diff, g_out_max_ring_diff, g_out_num_rings_per_segment, g_ow_min_ring_diff, g_ow_max_ring_diff, g_ow_num_rings_per_segment) \
  __CPROVER_ensures(FSS_DONE(1) && FSS_SPEC)
#define LC_K_fss_reorder_0                                                                                           \
  __CPROVER_assigns(i, g_out_min_ring_diff, g_out_max_ring_diff, g_out_num_rings_per_segment, g_ow_min_ring_diff, g_ow_max_ring_diff, g_ow_num_rings_per_segment) \
  __CPROVER_loop_invariant(0 <= i && i <= num_segments)                                                                \
  __CPROVER_loop_invariant(FSS_DONE(g_r < i ? 1 : 0) && (g_r < i ==> FSS_SPEC))                                        \
  __CPROVER_decreases(num_segments - i)


/* ================= ProjDataInMemory access paths (viewgram / sinogram), statement kernels =================
   The buffer (Array<1,float>) is projected onto one ghost element index g_idx; detail::copy_data_to_buffer(buffer, X, off)
   copies X.size_all() consecutive floats to buffer[off...), copy_data_from_buffer reads them.  get_index is used by CONTRACT
   (its closed form SPEC_INDEX).  From the property: "a value written through any access path (single bin, sinogram, viewgram
   ...) is read back unchanged through every other path and no other bin changes": the element of bin b always lives at
   SPEC_INDEX(b); a path writes exactly the elements of its own bins. Ghost bin g_bin: any bin of the data.
   That the copied block lies inside the buffer is not asserted here: clause E2 below shows every copied element is
   SPEC_INDEX of an in-range bin, and "index inside the buffer" for in-range bins is an obligation of lemma_index_injective. */
/* d / c for a constant c > 0 and 0 <= d < 2^48, as the unique q with q*c <= d < q*c + c (a multiplication by a constant
   instead of a 64-bit divider circuit; the assumption is satisfiable for every such d, so no path is cut) */
long nondet_long(void);
static inline long K_div(long d, long c)
{
  __CPROVER_assert(d >= 0 && d < (1L << 48) && c > 0 && c < 4096, "K_div domain");
  long q = nondet_long();
  __CPROVER_assume(q >= 0 && q <= d && q * c <= d && d - q * c < c);
  return q;
}
struct Bin g_bin;           /* ghost bin (in range) */
long g_idx;                 /* ghost element index == SPEC_INDEX(g_bin) (tied in requires) */
int g_buf_writes;           /* how often buffer[g_idx] was written */
int g_src_ax, g_src_view, g_src_tang; /* ghost: which element of the source object was written there (axial, view, tang) */
long g_read_idx;            /* ghost: the buffer index the element (g_bin's coordinates) of the destination object was read from */
int g_reads;
#define BUF_SIZE(s) (TMUL((s)->num_tof, (s)->offset_3d_data))
/* copy_data_to_buffer(buffer, v[ax] (a row of T tangential positions), off) */
#define BUF_ROW_TO(s, off, ax, view)                                                                                  \
  do                                                                                                                  \
    {                                                                                                                 \
      const long K_off = (off);                                                                                       \
      if (g_idx >= K_off && g_idx < K_off + C02_T)                                                                    \
        {                                                                                                             \
          ++g_buf_writes;                                                                                             \
          g_src_ax = (ax); g_src_view = (view); g_src_tang = (s)->min_tang + (int)(g_idx - K_off);                    \
        }                                                                                                             \
    }                                                                                                                 \
  while (0)
/* copy_data_from_buffer(buffer, viewgram[ax], off) */
#define BUF_ROW_FROM(s, off, ax, view)                                                                                \
  do                                                                                                                  \
    {                                                                                                                 \
      const long K_off = (off);                                                                                       \
      if ((ax) == g_bin.axial_pos_num && (view) == g_bin.view_num)                                                    \
        {                                                                                                             \
          ++g_reads;                                                                                                  \
          g_read_idx = K_off + (g_bin.tangential_pos_num - (s)->min_tang);                                            \
        }                                                                                                             \
    }                                                                                                                 \
  while (0)
/* whole sinogram (V x T block, views outer): copy_data_to_buffer(buffer, s, off) / from */
#define BUF_SINO_TO(s, off, ax)                                                                                       \
  do                                                                                                                  \
    {                                                                                                                 \
      const long K_off = (off);                                                                                       \
      if (g_idx >= K_off && g_idx < K_off + (long)C02_V * C02_T)                                                      \
        {                                                                                                             \
          const long K_q = K_div(g_idx - K_off, C02_T);                                                               \
          ++g_buf_writes;                                                                                             \
          g_src_ax = (ax); g_src_view = (s)->min_view + (int)K_q; g_src_tang = (s)->min_tang + (int)((g_idx - K_off) - K_q * C02_T); \
        }                                                                                                             \
    }                                                                                                                 \
  while (0)
#define BUF_SINO_FROM(s, off, ax)                                                                                     \
  do                                                                                                                  \
    {                                                                                                                 \
      const long K_off = (off);                                                                                       \
      if ((ax) == g_bin.axial_pos_num)                                                                                \
        {                                                                                                             \
          ++g_reads;                                                                                                  \
          g_read_idx = K_off + (long)(g_bin.view_num - (s)->min_view) * C02_T + (g_bin.tangential_pos_num - (s)->min_tang); \
        }                                                                                                             \
    }                                                                                                                 \
  while (0)
/* one element */
#define BUF_ONE_TO(s, off, b)                                                                                         \
  do                                                                                                                  \
    {                                                                                                                 \
      if (g_idx == (off))                                                                                             \
        {                                                                                                             \
          ++g_buf_writes;                                                                                             \
          g_src_ax = (b)->axial_pos_num; g_src_view = (b)->view_num; g_src_tang = (b)->tangential_pos_num;            \
        }                                                                                                             \
    }                                                                                                                 \
  while (0)
#define BUF_ONE_FROM(s, off)                                                                                          \
  do                                                                                                                  \
    {                                                                                                                 \
      ++g_reads;                                                                                                      \
      g_read_idx = (off);                                                                                             \
    }                                                                                                                 \
  while (0)
/* whole segment by sinogram (nax x V x T block, axial positions outer) */
#define BUF_SEG_TO(s, off, seg)                                                                                       \
  do                                                                                                                  \
    {                                                                                                                 \
      const long K_off = (off), K_n = (long)NAXI(s, (seg) - (s)->min_seg) * C02_V * C02_T;                            \
      if (g_idx >= K_off && g_idx < K_off + K_n)                                                                      \
        {                                                                                                             \
          const long K_qa = K_div(g_idx - K_off, C02_V * C02_T), K_r = (g_idx - K_off) - K_qa * (C02_V * C02_T), K_qv = K_div(K_r, C02_T); \
          ++g_buf_writes;                                                                                             \
          g_src_ax = (s)->min_ax[(seg) - (s)->min_seg] + (int)K_qa; g_src_view = (s)->min_view + (int)K_qv; g_src_tang = (s)->min_tang + (int)(K_r - K_qv * C02_T); \
        }                                                                                                             \
    }                                                                                                                 \
  while (0)
#define BUF_SEG_FROM(s, off, seg)                                                                                     \
  do                                                                                                                  \
    {                                                                                                                 \
      ++g_reads;                                                                                                      \
      g_read_idx = (off) + (long)(g_bin.axial_pos_num - (s)->min_ax[(seg) - (s)->min_seg]) * C02_V * C02_T            \
                   + (long)(g_bin.view_num - (s)->min_view) * C02_T + (g_bin.tangential_pos_num - (s)->min_tang);    \
    }                                                                                                                 \
  while (0)
#define K_RETURN_IF_ERROR(val)                                                                                        \
  do                                                                                                                  \
    {                                                                                                                 \
      if (g_error)                                                                                                    \
        return val;                                                                                                   \
    }                                                                                                                 \
  while (0)
#define PREFIX_FACT_SEG(s, seg)                                                                                       \
  (!((seg) >= (s)->min_seg && (seg) <= (s)->max_seg)                                                                   \
   || (g_prefix[g_pos[(seg) - (s)->min_seg]] >= 0 && g_prefix[g_pos[(seg) - (s)->min_seg]] + NAXI(s, (seg) - (s)->min_seg) <= TOTAL_SINOS(s) && TOTAL_SINOS(s) <= (long)MAXSEGS * 8192))
#define PATH_PRE(self)                                                                                                \
  (PD_VALID_CORE(self) && (self)->offset_3d_data == TOTAL_SINOS(self) * C02_V * C02_T && g_error == 0                   \
   && BIN_IN_RANGE(self, &g_bin) && PREFIX_FACT(self, &g_bin) && g_buf_writes == 0 && g_reads == 0)
#define SAME_VG(seg, view, tof) (g_bin.segment_num == (seg) && g_bin.view_num == (view) && g_bin.timing_pos_num == (tof))
#define SAME_SG(seg, ax, tof) (g_bin.segment_num == (seg) && g_bin.axial_pos_num == (ax) && g_bin.timing_pos_num == (tof))
#define VG_ARGS_OK(self, seg, view, tof) ((seg) >= (self)->min_seg && (seg) <= (self)->max_seg && (view) >= (self)->min_view && (view) <= (self)->max_view && (tof) >= (self)->min_tof && (tof) <= (self)->max_tof)
#define AX_IN_SEG(self, seg, ax) ((ax) >= (self)->min_ax[(seg) - (self)->min_seg] && (ax) <= (self)->max_ax[(seg) - (self)->min_seg])
#define TG_IN(self, tg) ((tg) >= (self)->min_tang && (tg) <= (self)->max_tang)
#define VW_IN(self, vw) ((vw) >= (self)->min_view && (vw) <= (self)->max_view)
/* set_viewgram (statement kernel from 'const int segment_num = v.get_segment_num();'), for an arbitrary buffer element g_idx
   and an arbitrary bin g_bin of the data:
   (E1) the element is written at most once;
   (E2) if written, it is the element SPEC_INDEX of a bin (segment, view, ax, tang, TOF) of THIS viewgram and receives
        the viewgram's value at (ax, tang);
   (E3) if g_bin is a bin of this viewgram, its element SPEC_INDEX(g_bin) is written, from v[g_bin.ax][g_bin.tang].
   With "different bins have different elements" (lemma_index_injective) E2 gives: the element of a bin outside this
   viewgram is not written. */
#define CONTRACT_K_pdm_set_viewgram                                                                                  \
  __CPROVER_requires(__CPROVER_is_fresh(self, sizeof(*self)) && PATH_PRE(self) && VG_ARGS_OK(self, v_segment_num, v_view_num, v_timing_pos_num) && PREFIX_FACT_SEG(self, v_segment_num)) \
  __CPROVER_assigns(g_error, g_buf_writes, g_src_ax, g_src_view, g_src_tang)                                           \
  __CPROVER_ensures(!g_error && __CPROVER_return_value == 1 && g_buf_writes <= 1)                                      \
  __CPROVER_ensures(g_buf_writes == 1 ==> (AX_IN_SEG(self, v_segment_num, g_src_ax) && TG_IN(self, g_src_tang)        \
                                            && g_idx == SPEC_INDEX5(self, v_segment_num, g_src_ax, v_view_num, g_src_tang, v_timing_pos_num))) \
  __CPROVER_ensures((SAME_VG(v_segment_num, v_view_num, v_timing_pos_num) && g_idx == SPEC_INDEX(self, &g_bin))        \
                    ==> (g_buf_writes == 1 && g_src_ax == g_bin.axial_pos_num && g_src_tang == g_bin.tangential_pos_num))
#define LC_K_pdm_set_viewgram_0                                                                                      \
  __CPROVER_assigns(bin.axial_pos_num, g_error, g_buf_writes, g_src_ax, g_src_view, g_src_tang)                        \
  __CPROVER_loop_invariant(bin.axial_pos_num >= self->min_ax[segment_num - self->min_seg] && bin.axial_pos_num <= self->max_ax[segment_num - self->min_seg] + 1) \
  __CPROVER_loop_invariant(!g_error && bin.segment_num == segment_num && bin.view_num == view_num && bin.timing_pos_num == timing_pos && bin.tangential_pos_num == self->min_tang) \
  __CPROVER_loop_invariant(g_buf_writes >= 0 && g_buf_writes <= 1)                                                     \
  __CPROVER_loop_invariant(g_buf_writes == 1 ==> (g_src_ax >= self->min_ax[segment_num - self->min_seg] && g_src_ax < bin.axial_pos_num && TG_IN(self, g_src_tang) \
                                            && g_idx == SPEC_INDEX5(self, segment_num, g_src_ax, view_num, g_src_tang, timing_pos))) \
  __CPROVER_loop_invariant((SAME_VG(segment_num, view_num, timing_pos) && g_idx == SPEC_INDEX(self, &g_bin) && g_bin.axial_pos_num < bin.axial_pos_num) \
                    ==> (g_buf_writes == 1 && g_src_ax == g_bin.axial_pos_num && g_src_tang == g_bin.tangential_pos_num)) \
  __CPROVER_decreases(self->max_ax[segment_num - self->min_seg] + 1 - bin.axial_pos_num)
/* get_viewgram: for an arbitrary element (ax, tang) = (g_bin.ax, g_bin.tang) of the returned viewgram: it is read exactly once,
   from SPEC_INDEX of the bin (segment, view, ax, tang, TOF) */
#define CONTRACT_K_pdm_get_viewgram                                                                                  \
  __CPROVER_requires(__CPROVER_is_fresh(self, sizeof(*self)) && PATH_PRE(self) && SAME_VG(segment_num, view_num, timing_pos)) \
  __CPROVER_assigns(g_error, g_reads, g_read_idx)                                                                      \
  __CPROVER_ensures(!g_error && g_reads == 1 && g_read_idx == SPEC_INDEX(self, &g_bin))
#define LC_K_pdm_get_viewgram_0                                                                                      \
  __CPROVER_assigns(bin.axial_pos_num, g_error, g_reads, g_read_idx)                                                   \
  __CPROVER_loop_invariant(bin.axial_pos_num >= self->min_ax[segment_num - self->min_seg] && bin.axial_pos_num <= self->max_ax[segment_num - self->min_seg] + 1) \
  __CPROVER_loop_invariant(!g_error && bin.segment_num == segment_num && bin.view_num == view_num && bin.timing_pos_num == timing_pos && bin.tangential_pos_num == self->min_tang) \
  __CPROVER_loop_invariant(g_reads == (g_bin.axial_pos_num < bin.axial_pos_num ? 1 : 0) && (g_reads == 1 ==> g_read_idx == SPEC_INDEX(self, &g_bin))) \
  __CPROVER_decreases(self->max_ax[segment_num - self->min_seg] + 1 - bin.axial_pos_num)
/* set_sinogram / get_sinogram: one V x T block */
#define SG_ARGS_OK(self, seg, ax, tof) ((seg) >= (self)->min_seg && (seg) <= (self)->max_seg && AX_IN_SEG(self, seg, ax) && (tof) >= (self)->min_tof && (tof) <= (self)->max_tof)
#define CONTRACT_K_pdm_set_sinogram                                                                                  \
  __CPROVER_requires(__CPROVER_is_fresh(self, sizeof(*self)) && PATH_PRE(self) && SG_ARGS_OK(self, s_segment_num, s_axial_pos_num, s_timing_pos_num) && PREFIX_FACT_SEG(self, s_segment_num)) \
  __CPROVER_assigns(g_error, g_buf_writes, g_src_ax, g_src_view, g_src_tang)                                           \
  __CPROVER_ensures(!g_error && __CPROVER_return_value == 1 && g_buf_writes <= 1)                                      \
  __CPROVER_ensures(g_buf_writes == 1 ==> (VW_IN(self, g_src_view) && TG_IN(self, g_src_tang)                          \
                                            && g_idx == SPEC_INDEX5(self, s_segment_num, s_axial_pos_num, g_src_view, g_src_tang, s_timing_pos_num))) \
  __CPROVER_ensures((SAME_SG(s_segment_num, s_axial_pos_num, s_timing_pos_num) && g_idx == SPEC_INDEX(self, &g_bin))   \
                    ==> (g_buf_writes == 1 && g_src_view == g_bin.view_num && g_src_tang == g_bin.tangential_pos_num))
#define CONTRACT_K_pdm_get_sinogram                                                                                  \
  __CPROVER_requires(__CPROVER_is_fresh(self, sizeof(*self)) && PATH_PRE(self) && SAME_SG(segment_num, ax_pos_num, timing_pos)) \
  __CPROVER_assigns(g_error, g_reads, g_read_idx)                                                                      \
  __CPROVER_ensures(!g_error && g_reads == 1 && g_read_idx == SPEC_INDEX(self, &g_bin))

#define SEG_ARGS_OK(self, seg, tof) ((seg) >= (self)->min_seg && (seg) <= (self)->max_seg && (tof) >= (self)->min_tof && (tof) <= (self)->max_tof)
/* ProjDataInMemory::get_bin_value / set_bin_value / set_segment(SegmentBySinogram) / get_segment_by_sinogram */
#define CONTRACT_K_pdm_get_bin_value                                                                                  \
  __CPROVER_requires(__CPROVER_is_fresh(self, sizeof(*self)) && __CPROVER_is_fresh(bin, sizeof(*bin)) && PATH_PRE(self) && PREFIX_FACT(self, bin)) \
  __CPROVER_assigns(g_error, g_reads, g_read_idx)                                                                      \
  __CPROVER_ensures(g_error == (BIN_IN_RANGE(self, bin) ? 0 : 1))                                                      \
  __CPROVER_ensures(!g_error ==> (g_reads == 1 && g_read_idx == SPEC_INDEX(self, bin)))                                \
  __CPROVER_ensures(g_error ==> g_reads == 0)
#define CONTRACT_K_pdm_set_bin_value                                                                                  \
  __CPROVER_requires(__CPROVER_is_fresh(self, sizeof(*self)) && __CPROVER_is_fresh(bin, sizeof(*bin)) && PATH_PRE(self) && PREFIX_FACT(self, bin)) \
  __CPROVER_assigns(g_error, g_buf_writes, g_src_ax, g_src_view, g_src_tang)                                           \
  __CPROVER_ensures(g_error == (BIN_IN_RANGE(self, bin) ? 0 : 1))                                                      \
  __CPROVER_ensures(g_buf_writes <= 1 && (g_buf_writes == 1 ==> (!g_error && g_idx == SPEC_INDEX(self, bin))))         \
  __CPROVER_ensures((!g_error && g_idx == SPEC_INDEX(self, bin)) ==> g_buf_writes == 1)
#define CONTRACT_K_pdm_set_segment                                                                                    \
  __CPROVER_requires(__CPROVER_is_fresh(self, sizeof(*self)) && PATH_PRE(self) && SEG_ARGS_OK(self, v_segment_num, v_timing_pos_num) && PREFIX_FACT_SEG(self, v_segment_num)) \
  __CPROVER_assigns(g_error, g_buf_writes, g_src_ax, g_src_view, g_src_tang)                                           \
  __CPROVER_ensures(!g_error && __CPROVER_return_value == 1 && g_buf_writes <= 1)                                      \
  __CPROVER_ensures(g_buf_writes == 1 ==> (AX_IN_SEG(self, v_segment_num, g_src_ax) && VW_IN(self, g_src_view) && TG_IN(self, g_src_tang) \
                                            && g_idx == SPEC_INDEX5(self, v_segment_num, g_src_ax, g_src_view, g_src_tang, v_timing_pos_num))) \
  __CPROVER_ensures((g_bin.segment_num == v_segment_num && g_bin.timing_pos_num == v_timing_pos_num && g_idx == SPEC_INDEX(self, &g_bin)) \
                    ==> (g_buf_writes == 1 && g_src_ax == g_bin.axial_pos_num && g_src_view == g_bin.view_num && g_src_tang == g_bin.tangential_pos_num))
#define CONTRACT_K_pdm_get_segment                                                                                    \
  __CPROVER_requires(__CPROVER_is_fresh(self, sizeof(*self)) && PATH_PRE(self) && g_bin.segment_num == segment_num && g_bin.timing_pos_num == timing_pos_num) \
  __CPROVER_assigns(g_error, g_reads, g_read_idx)                                                                      \
  __CPROVER_ensures(!g_error && g_reads == 1 && g_read_idx == SPEC_INDEX(self, &g_bin))

/* ================= ProjDataFromStream write paths: set_bin_value, set_viewgram, set_sinogram, set_segment (x2) =================
   Statement kernels (set_bin_value: whole function). The stream is projected onto ghost state:
     g_seek    put position after the last checked_seekp
     g_dirty   1 after a write_data that has not been followed by sino_stream->flush()
     g_foff    one arbitrary byte offset of the file (stands for every element start), g_fwrites = how often the element
               starting there was written, g_src_* = which element of the written object went there
   checked_seekp / write_data may fail (exception resp. Succeeded::no; both nondeterministic); write_data may change 'scale'.
   From the property: "written values are visible to an independent reader of the file as soon as each write call
   returns" (F: a call that returns normally leaves nothing unflushed), "read back unchanged ... whatever the ... on-disk
   number type" (S: every reader multiplies the stored numbers with scale_factor, so a call that reports success must have
   stored its block with exactly that factor) and "a value written through any access path
   ... is read back unchanged through every other path and no other bin changes ... whatever the storage order" (E1-E3
   as for the in-memory paths, with SPEC_OFFSET, the byte offset get_offset is proved to return). */
long g_seek, g_foff;
int g_dirty, g_fwrites, g_stream_null, g_stream_bad, g_nonfloat;
int g_wrong_scale; /* a write_data call stored its block with a scale factor other than the one every reader multiplies with (scale_factor) */
float g_scale_factor;
long g_blk_start, g_blk_elems; /* set_segment(by view): start and size of the one block written */
_Bool nondet_bool(void);
float nondet_float(void);
#define K_IS_NULL_STREAM (g_stream_null != 0)
#define K_BAD_STREAM (g_stream_bad != 0)
static inline void K_seekp(long off)
{
  if (nondet_bool())
    {
      g_error = 1; /* checked_seekp calls error() */
      return;
    }
  g_seek = off;
}
static inline void K_flush(void) { g_dirty = 0; }
/* write_data(*sino_stream, <block of n elements>, on_disk_data_type, scale, on_disk_byte_order): element k goes to
   byte offset g_seek + k*E. shape: 0 one value, 1 row of T (axial position ax, view vw), 2 viewgram nax x T (view vw),
   3 sinogram V x T (axial position ax), 4 segment by sinogram nax x V x T, 5 segment by view V x nax x T */
static inline int K_write_data(const struct PD* self, float* scale, int shape, int seg, int ax, int vw, int tg)
{
  const long nax = NAXI(self, seg - self->min_seg);
  const long n = shape == 0 ? 1 : shape == 1 ? C02_T : shape == 2 ? nax * C02_T : shape == 3 ? (long)C02_V * C02_T : nax * C02_V * C02_T;
  g_dirty = 1;
  if (shape == 5)
    {
      g_blk_start = g_seek;
      g_blk_elems = n;
    }
  else if (g_foff >= g_seek && g_foff < g_seek + n * C02_E)
    {
      const long d = g_foff - g_seek;
      const long k = K_div(d, C02_E);
      if (k * C02_E == d) /* g_foff is the start of element k of the block */
        {
          ++g_fwrites;
          if (shape == 0)
            {
              g_src_ax = ax; g_src_view = vw; g_src_tang = tg;
            }
          else if (shape == 1)
            {
              g_src_ax = ax; g_src_view = vw; g_src_tang = self->min_tang + (int)k;
            }
          else if (shape == 2 || shape == 3)
            {
              const long q = K_div(k, C02_T);
              g_src_ax = shape == 2 ? self->min_ax[seg - self->min_seg] + (int)q : ax;
              g_src_view = shape == 3 ? self->min_view + (int)q : vw;
              g_src_tang = self->min_tang + (int)(k - q * C02_T);
            }
          else
            {
              const long qa = K_div(k, C02_V * C02_T), r = k - qa * (C02_V * C02_T), qv = K_div(r, C02_T);
              g_src_ax = self->min_ax[seg - self->min_seg] + (int)qa;
              g_src_view = self->min_view + (int)qv;
              g_src_tang = self->min_tang + (int)(r - qv * C02_T);
            }
        }
    }
  *scale = nondet_float(); /* the factor write_data really used: stored number = value / *scale */
  if (*scale != g_scale_factor)
    g_wrong_scale = 1;
  return nondet_bool() ? 1 : 0;
}
#define K_PROPAGATE_OR_RETURN(val)                                                                                    \
  do                                                                                                                  \
    {                                                                                                                 \
      if (g_error)                                                                                                    \
        return val;                                                                                                   \
    }                                                                                                                 \
  while (0)
#define PDS_PRE(self)                                                                                                 \
  (PD_VALID_CORE(self) && (self)->elsize == C02_E && (self)->offset_3d_data == TOTAL_SINOS(self) * C02_V * C02_T * C02_E \
   && (self)->offset >= 0 && (self)->offset < (1L << 40) && g_error == 0 && BIN_IN_RANGE(self, &g_bin) && PREFIX_FACT(self, &g_bin) \
   && g_dirty == 0 && g_fwrites == 0 && g_wrong_scale == 0 && (self)->storage_order >= Segment_AxialPos_View_TangPos && (self)->storage_order <= Unsupported)
#define PDS_ASSIGNS g_error, g_wrong_scale, g_dirty, g_seek, g_fwrites, g_src_ax, g_src_view, g_src_tang, g_blk_start, g_blk_elems
#define IS_G_BIN(b) ((b)->segment_num == g_bin.segment_num && (b)->axial_pos_num == g_bin.axial_pos_num && (b)->view_num == g_bin.view_num \
                     && (b)->tangential_pos_num == g_bin.tangential_pos_num && (b)->timing_pos_num == g_bin.timing_pos_num)
/* set_bin_value: F; E1-E3 for the one element */
#define CONTRACT_K_pds_set_bin_value                                                                                  \
  __CPROVER_requires(__CPROVER_is_fresh(self, sizeof(*self)) && __CPROVER_is_fresh(this_bin, sizeof(*this_bin)) && PDS_PRE(self) && PREFIX_FACT(self, this_bin)) \
  __CPROVER_assigns(PDS_ASSIGNS)                                                                                       \
  __CPROVER_ensures(!g_error ==> (g_dirty == 0 && g_wrong_scale == 0)) /* F, S */                                                                 \
  __CPROVER_ensures(g_fwrites <= 1 && (g_fwrites == 1 ==> (BIN_IN_RANGE(self, this_bin) && g_foff == SPEC_OFFSET(self, this_bin)))) \
  __CPROVER_ensures((!g_error && IS_G_BIN(this_bin) && g_foff == SPEC_OFFSET(self, &g_bin)) ==> g_fwrites == 1)        \
  __CPROVER_ensures(!BIN_IN_RANGE(self, this_bin) ==> (g_error && g_fwrites == 0 && g_dirty == 0))
/* set_viewgram, both storage orders (row by row / in one go) */
#define CONTRACT_K_pds_set_viewgram                                                                                   \
  __CPROVER_requires(__CPROVER_is_fresh(self, sizeof(*self)) && PDS_PRE(self) && VG_ARGS_OK(self, v_segment_num, v_view_num, v_timing_pos_num) && PREFIX_FACT_SEG(self, v_segment_num)) \
  __CPROVER_assigns(PDS_ASSIGNS)                                                                                       \
  __CPROVER_ensures(!g_error ==> (g_dirty == 0 && g_wrong_scale == 0 && __CPROVER_return_value == 1)) /* F, S: normal return = success = flushed */ \
  __CPROVER_ensures(g_fwrites <= 1)                                                                                    \
  __CPROVER_ensures(g_fwrites == 1 ==> (AX_IN_SEG(self, v_segment_num, g_src_ax) && TG_IN(self, g_src_tang)           \
                                         && g_foff == SPEC_OFFSET5(self, v_segment_num, g_src_ax, v_view_num, g_src_tang, v_timing_pos_num))) \
  __CPROVER_ensures((!g_error && SAME_VG(v_segment_num, v_view_num, v_timing_pos_num) && g_foff == SPEC_OFFSET(self, &g_bin)) \
                    ==> (g_fwrites == 1 && g_src_ax == g_bin.axial_pos_num && g_src_tang == g_bin.tangential_pos_num))
#define LC_K_pds_set_viewgram_0                                                                                       \
  __CPROVER_assigns(bin.axial_pos_num, scale, succeeded, PDS_ASSIGNS)                                                  \
  __CPROVER_loop_invariant(bin.axial_pos_num >= self->min_ax[segment_num - self->min_seg] && bin.axial_pos_num <= self->max_ax[segment_num - self->min_seg] + 1) \
  __CPROVER_loop_invariant(!g_error && succeeded == 1 && g_wrong_scale == 0 && bin.segment_num == segment_num && bin.view_num == view_num && bin.timing_pos_num == timing_pos && bin.tangential_pos_num == self->min_tang) \
  __CPROVER_loop_invariant(g_fwrites >= 0 && g_fwrites <= 1)                                                           \
  __CPROVER_loop_invariant(g_fwrites == 1 ==> (g_src_ax >= self->min_ax[segment_num - self->min_seg] && g_src_ax < bin.axial_pos_num && TG_IN(self, g_src_tang) \
                                         && g_foff == SPEC_OFFSET5(self, segment_num, g_src_ax, view_num, g_src_tang, timing_pos))) \
  __CPROVER_loop_invariant((SAME_VG(segment_num, view_num, timing_pos) && g_foff == SPEC_OFFSET(self, &g_bin) && g_bin.axial_pos_num < bin.axial_pos_num) \
                    ==> (g_fwrites == 1 && g_src_ax == g_bin.axial_pos_num && g_src_tang == g_bin.tangential_pos_num)) \
  __CPROVER_decreases(self->max_ax[segment_num - self->min_seg] + 1 - bin.axial_pos_num)
/* set_sinogram, both storage orders (in one go / row by row over the views); failure is reported by the return value */
#define CONTRACT_K_pds_set_sinogram                                                                                   \
  __CPROVER_requires(__CPROVER_is_fresh(self, sizeof(*self)) && PDS_PRE(self) && SG_ARGS_OK(self, s_segment_num, s_axial_pos_num, s_timing_pos_num) && PREFIX_FACT_SEG(self, s_segment_num)) \
  __CPROVER_assigns(PDS_ASSIGNS)                                                                                       \
  __CPROVER_ensures(!g_error && (__CPROVER_return_value == 1 ==> (g_dirty == 0 && g_wrong_scale == 0))) /* F, S */                                \
  __CPROVER_ensures(g_fwrites <= 1)                                                                                    \
  __CPROVER_ensures(g_fwrites == 1 ==> (VW_IN(self, g_src_view) && TG_IN(self, g_src_tang)                             \
                                         && g_foff == SPEC_OFFSET5(self, s_segment_num, s_axial_pos_num, g_src_view, g_src_tang, s_timing_pos_num))) \
  __CPROVER_ensures((__CPROVER_return_value == 1 && SAME_SG(s_segment_num, s_axial_pos_num, s_timing_pos_num) && g_foff == SPEC_OFFSET(self, &g_bin)) \
                    ==> (g_fwrites == 1 && g_src_view == g_bin.view_num && g_src_tang == g_bin.tangential_pos_num))
#define LC_K_pds_set_sinogram_0                                                                                       \
  __CPROVER_assigns(bin.view_num, scale, succeeded, PDS_ASSIGNS)                                                       \
  __CPROVER_loop_invariant(bin.view_num >= self->min_view && bin.view_num <= self->max_view + 1)                       \
  __CPROVER_loop_invariant(!g_error && succeeded == 1 && g_wrong_scale == 0 && bin.segment_num == segment_num && bin.axial_pos_num == ax_pos_num && bin.timing_pos_num == timing_pos && bin.tangential_pos_num == self->min_tang) \
  __CPROVER_loop_invariant(g_fwrites >= 0 && g_fwrites <= 1)                                                           \
  __CPROVER_loop_invariant(g_fwrites == 1 ==> (g_src_view >= self->min_view && g_src_view < bin.view_num && TG_IN(self, g_src_tang) \
                                         && g_foff == SPEC_OFFSET5(self, segment_num, ax_pos_num, g_src_view, g_src_tang, timing_pos))) \
  __CPROVER_loop_invariant((SAME_SG(segment_num, ax_pos_num, timing_pos) && g_foff == SPEC_OFFSET(self, &g_bin) && g_bin.view_num < bin.view_num) \
                    ==> (g_fwrites == 1 && g_src_view == g_bin.view_num && g_src_tang == g_bin.tangential_pos_num))     \
  __CPROVER_decreases(self->max_view + 1 - bin.view_num)
/* set_segment: by sinogram (writes the block itself in sinogram order, otherwise converts and calls the other one, used
   by CONTRACT) and by view (mirror image). gk_depth: ghost recursion depth, bounds the mutual recursion to one hop for the
   four supported storage orders. */
#define ORDER_SUPPORTED(self) ((self)->storage_order >= Segment_AxialPos_View_TangPos && (self)->storage_order <= Timing_Segment_View_AxialPos_TangPos)
#define ORDER_SINO(self) ((self)->storage_order == Segment_AxialPos_View_TangPos || (self)->storage_order == Timing_Segment_AxialPos_View_TangPos)
#define SEG_PRE(self) (__CPROVER_is_fresh(self, sizeof(*self)) && PDS_PRE(self) && ORDER_SUPPORTED(self) && SEG_ARGS_OK(self, v_segment_num, v_timing_pos_num) && PREFIX_FACT_SEG(self, v_segment_num))
/* one block holding the whole segment is written at the offset of the segment's first bin (the order of the elements
   inside a SegmentByView block - [view][axial][tang] - against SPEC_OFFSET is NOT proved: symbolic nax as a radix) */
#define SEG_BLOCK_BY_VIEW(self)                                                                                       \
  (g_blk_start == SPEC_OFFSET5(self, v_segment_num, (self)->min_ax[v_segment_num - (self)->min_seg], (self)->min_view, (self)->min_tang, v_timing_pos_num) \
   && g_blk_elems == (long)NAXI(self, v_segment_num - (self)->min_seg) * C02_V * C02_T)
#define SEG_E2(self)                                                                                                  \
  (g_fwrites == 1 ==> (AX_IN_SEG(self, v_segment_num, g_src_ax) && VW_IN(self, g_src_view) && TG_IN(self, g_src_tang)  \
                       && g_foff == SPEC_OFFSET5(self, v_segment_num, g_src_ax, g_src_view, g_src_tang, v_timing_pos_num)))
#define SEG_E3(self)                                                                                                  \
  ((g_bin.segment_num == v_segment_num && g_bin.timing_pos_num == v_timing_pos_num && g_foff == SPEC_OFFSET(self, &g_bin)) \
   ==> (g_fwrites == 1 && g_src_ax == g_bin.axial_pos_num && g_src_view == g_bin.view_num && g_src_tang == g_bin.tangential_pos_num))
#define CONTRACT_K_pds_set_segment_by_sinogram                                                                        \
  __CPROVER_requires(SEG_PRE(self))                                                                                    \
  __CPROVER_assigns(PDS_ASSIGNS)                                                                                       \
  __CPROVER_ensures(!g_error && (__CPROVER_return_value == 1 ==> (g_dirty == 0 && g_wrong_scale == 0))) /* F, S */                                \
  __CPROVER_ensures(ORDER_SINO(self) ? (g_fwrites <= 1 && SEG_E2(self) && (__CPROVER_return_value == 1 ==> SEG_E3(self))) \
                                     : (__CPROVER_return_value == 1 ==> SEG_BLOCK_BY_VIEW(self)))
#define CONTRACT_K_pds_set_segment_by_view                                                                            \
  __CPROVER_requires(SEG_PRE(self))                                                                                    \
  __CPROVER_assigns(PDS_ASSIGNS)                                                                                       \
  __CPROVER_ensures(!g_error && (__CPROVER_return_value == 1 ==> (g_dirty == 0 && g_wrong_scale == 0))) /* F, S */                                \
  __CPROVER_ensures(ORDER_SINO(self) ? (g_fwrites <= 1 && SEG_E2(self) && (__CPROVER_return_value == 1 ==> SEG_E3(self))) \
                                     : (__CPROVER_return_value == 1 ==> SEG_BLOCK_BY_VIEW(self)))

/* ================= ProjDataFromStream read paths: get_bin_value, get_viewgram, get_sinogram =================
   read_data(*sino_stream, <block>, on_disk_data_type, scale, on_disk_byte_order) reads the block at the get position
   (g_seek); it may fail and returns the factor the caller still has to apply in 'scale'. Ghost: the element of the
   returned object that belongs to g_bin: g_reads = how often it was read, g_read_off = from which byte offset;
   g_mult = how often the object was multiplied with scale_factor, g_mult_bad = with anything else; g_unscaled = a block was
   read with a returned factor != 1 (which the functions do not apply).
   From the property ("read back unchanged through every other path ... whatever the storage order ... on-disk number
   type"): R1 a call that returns normally has read the element of every bin of the object exactly once, from
   SPEC_OFFSET(bin) - the place the write paths store it; R2 and has multiplied it exactly once with scale_factor (the
   factor the write paths divide by), all blocks having been read with factor 1. */
int g_mult, g_mult_bad, g_unscaled;
long g_read_off;
#define K_SCALE_OBJECT(x)                                                                                             \
  do                                                                                                                  \
    {                                                                                                                 \
      if ((x) == g_scale_factor)                                                                                      \
        ++g_mult;                                                                                                     \
      else                                                                                                            \
        ++g_mult_bad;                                                                                                 \
    }                                                                                                                 \
  while (0)
static inline int K_read_data(const struct PD* self, float* scale, int shape, int seg, int ax, int vw)
{
  const _Bool inside = (shape == 0 || shape >= 4) ? 1 : shape == 1 ? (g_bin.axial_pos_num == ax && g_bin.view_num == vw) : shape == 2 ? g_bin.view_num == vw : g_bin.axial_pos_num == ax;
  if (inside && g_bin.segment_num == seg)
    {
      const long tg = g_bin.tangential_pos_num - self->min_tang;
      const long axi = g_bin.axial_pos_num - self->min_ax[seg - self->min_seg], vwi = g_bin.view_num - self->min_view;
      /* element number inside the block: row [t]; viewgram [ax][t]; sinogram [view][t]; segment by sinogram [ax][view][t]; segment by view [view][ax][t] */
      const long k = shape == 0 ? 0 : shape == 1 ? tg : shape == 2 ? axi * C02_T + tg : shape == 3 ? vwi * C02_T + tg
                   : shape == 4 ? axi * C02_V * C02_T + vwi * C02_T + tg : VMUL(vwi, (long)NAXI(self, seg - self->min_seg) * C02_T) + axi * C02_T + tg;
      ++g_reads;
      g_read_off = g_seek + k * C02_E;
    }
  *scale = nondet_float();
  if (*scale != 1.F)
    g_unscaled = 1;
  return nondet_bool() ? 1 : 0;
}
#define PDS_READ_PRE(self) (PDS_PRE(self) && g_reads == 0 && g_mult == 0 && g_mult_bad == 0 && g_unscaled == 0 && g_scale_factor == g_scale_factor)
#define PDS_READ_ASSIGNS g_error, g_seek, g_reads, g_read_off, g_mult, g_mult_bad, g_unscaled
#define READ_OK (g_reads == 1 && g_read_off == SPEC_OFFSET(self, &g_bin) && g_mult == 1 && g_mult_bad == 0 && g_unscaled == 0)
#define CONTRACT_K_pds_get_bin_value                                                                                  \
  __CPROVER_requires(__CPROVER_is_fresh(self, sizeof(*self)) && __CPROVER_is_fresh(this_bin, sizeof(*this_bin)) && PDS_READ_PRE(self) && PREFIX_FACT(self, this_bin)) \
  __CPROVER_assigns(PDS_READ_ASSIGNS)                                                                                  \
  __CPROVER_ensures((!g_error && IS_G_BIN(this_bin)) ==> READ_OK)                                                      \
  __CPROVER_ensures(!BIN_IN_RANGE(self, this_bin) ==> (g_error && g_reads == 0))
#define CONTRACT_K_pds_get_viewgram                                                                                   \
  __CPROVER_requires(__CPROVER_is_fresh(self, sizeof(*self)) && PDS_READ_PRE(self) && SAME_VG(segment_num, view_num, timing_pos)) \
  __CPROVER_assigns(PDS_READ_ASSIGNS)                                                                                  \
  __CPROVER_ensures(!g_error ==> READ_OK)
#define LC_K_pds_get_viewgram_0                                                                                       \
  __CPROVER_assigns(bin.axial_pos_num, scale, succeeded, PDS_READ_ASSIGNS)                                             \
  __CPROVER_loop_invariant(bin.axial_pos_num >= self->min_ax[segment_num - self->min_seg] && bin.axial_pos_num <= self->max_ax[segment_num - self->min_seg] + 1) \
  __CPROVER_loop_invariant(!g_error && succeeded == 1 && g_unscaled == 0 && scale == 1.F && g_mult == 0 && g_mult_bad == 0 && bin.segment_num == segment_num && bin.view_num == view_num && bin.timing_pos_num == timing_pos && bin.tangential_pos_num == self->min_tang) \
  __CPROVER_loop_invariant(g_reads == (g_bin.axial_pos_num < bin.axial_pos_num ? 1 : 0) && (g_reads == 1 ==> g_read_off == SPEC_OFFSET(self, &g_bin))) \
  __CPROVER_decreases(self->max_ax[segment_num - self->min_seg] + 1 - bin.axial_pos_num)
#define CONTRACT_K_pds_get_sinogram                                                                                   \
  __CPROVER_requires(__CPROVER_is_fresh(self, sizeof(*self)) && PDS_READ_PRE(self) && SAME_SG(segment_num, ax_pos_num, timing_pos)) \
  __CPROVER_assigns(PDS_READ_ASSIGNS)                                                                                  \
  __CPROVER_ensures(!g_error ==> READ_OK)
#define LC_K_pds_get_sinogram_0                                                                                       \
  __CPROVER_assigns(bin.view_num, scale, succeeded, PDS_READ_ASSIGNS)                                                  \
  __CPROVER_loop_invariant(bin.view_num >= self->min_view && bin.view_num <= self->max_view + 1)                       \
  __CPROVER_loop_invariant(!g_error && succeeded == 1 && g_unscaled == 0 && scale == 1.F && g_mult == 0 && g_mult_bad == 0 && bin.segment_num == segment_num && bin.axial_pos_num == ax_pos_num && bin.timing_pos_num == timing_pos && bin.tangential_pos_num == self->min_tang) \
  __CPROVER_loop_invariant(g_reads == (g_bin.view_num < bin.view_num ? 1 : 0) && (g_reads == 1 ==> g_read_off == SPEC_OFFSET(self, &g_bin))) \
  __CPROVER_decreases(self->max_view + 1 - bin.view_num)

/* ================= ProjData base class: loops that build segment / related-viewgram / fill paths from the smaller ones =================
   The called set_viewgram / get_viewgram / set_segment are identified by their index arguments and counted for one ghost
   key (g_k1, g_k2, g_k3); calls may fail nondeterministically. A Segment's get_viewgram(v) is the viewgram with view
   number v of that segment (Segment API, trusted). From the property ("segment by view or by sinogram, related viewgrams,
   bulk fill or iteration ... read back unchanged through every other path"): each loop hands every part of the object to
   the smaller path exactly once, with the part's own indices, and reports failure if one of them fails. */
int g_k1, g_k2, g_k3;       /* ghost key: view (or index in the related set) / segment / TOF */
int g_calls, g_bad, g_failed; /* calls with the ghost key; calls with indices that do not belong to the object; failed calls */
static inline int K_segment_get_viewgram(int view_num) { return view_num; }
static inline int K_call_set_viewgram(int view)
{
  if (view == g_k1)
    ++g_calls;
  if (nondet_bool())
    {
      g_failed = 1;
      return 0;
    }
  return 1;
}
static inline int K_call_set_segment(int seg, int tof)
{
  if (seg == g_k2 && tof == g_k3)
    ++g_calls;
  if (nondet_bool())
    {
      g_failed = 1;
      return 0;
    }
  return 1;
}
int g_want_seg, g_want_tof; /* get_segment_*: the segment / TOF the caller asked for */
static inline void K_fetch_viewgram(int view, int seg, int tof)
{
  if (seg != g_want_seg || tof != g_want_tof)
    ++g_bad;
  else if (view == g_k1)
    ++g_calls;
}
#define PD_LOOP_PRE(self) (__CPROVER_is_fresh(self, sizeof(*self)) && PD_VALID_CORE(self) && g_calls == 0 && g_bad == 0 && g_failed == 0 && g_error == 0)
#define K1_IS_VIEW(self) (g_k1 >= (self)->min_view && g_k1 <= (self)->max_view)
#define CONTRACT_K_pd_set_segment                                                                                     \
  __CPROVER_requires(PD_LOOP_PRE(self))                                                                                \
  __CPROVER_assigns(g_calls, g_failed)                                                                                 \
  __CPROVER_ensures(g_calls <= 1 && (!K1_IS_VIEW(self) ==> g_calls == 0))                                              \
  __CPROVER_ensures(__CPROVER_return_value == 1 ==> (!g_failed && (K1_IS_VIEW(self) ==> g_calls == 1)))                \
  __CPROVER_ensures(__CPROVER_return_value == 0 ==> g_failed)
#define LC_K_pd_set_segment(name)                                                                                     \
  __CPROVER_assigns(view_num, g_calls, g_failed)                                                                       \
  __CPROVER_loop_invariant(view_num >= self->min_view && view_num <= self->max_view + 1 && !g_failed)                  \
  __CPROVER_loop_invariant(g_calls == ((K1_IS_VIEW(self) && g_k1 < view_num) ? 1 : 0))                                 \
  __CPROVER_decreases(self->max_view + 1 - view_num)
#define LC_K_pd_set_segment_by_sinogram_0 LC_K_pd_set_segment(0)
#define LC_K_pd_set_segment_by_view_0 LC_K_pd_set_segment(0)
#define CONTRACT_K_pd_get_segment                                                                                     \
  __CPROVER_requires(PD_LOOP_PRE(self) && g_want_seg == segment_num && g_want_tof == timing_pos)                       \
  __CPROVER_assigns(g_calls, g_bad)                                                                                    \
  __CPROVER_ensures(g_bad == 0 && g_calls == (K1_IS_VIEW(self) ? 1 : 0))
#define LC_K_pd_get_segment                                                                                           \
  __CPROVER_assigns(view_num, g_calls, g_bad)                                                                          \
  __CPROVER_loop_invariant(view_num >= self->min_view && view_num <= self->max_view + 1 && g_bad == 0)                 \
  __CPROVER_loop_invariant(g_calls == ((K1_IS_VIEW(self) && g_k1 < view_num) ? 1 : 0))                                 \
  __CPROVER_decreases(self->max_view + 1 - view_num)
#define LC_K_pd_get_segment_by_sinogram_0 LC_K_pd_get_segment
#define LC_K_pd_get_segment_by_view_0 LC_K_pd_get_segment
#define CONTRACT_K_pd_set_related_viewgrams                                                                           \
  __CPROVER_requires(n_viewgrams >= 0 && n_viewgrams <= 64 && g_calls == 0 && g_failed == 0)                           \
  __CPROVER_assigns(g_calls, g_failed)                                                                                 \
  __CPROVER_ensures(g_calls <= 1 && (!(0 <= g_k1 && g_k1 < n_viewgrams) ==> g_calls == 0))                             \
  __CPROVER_ensures(__CPROVER_return_value == 1 ==> (!g_failed && ((0 <= g_k1 && g_k1 < n_viewgrams) ==> g_calls == 1))) \
  __CPROVER_ensures(__CPROVER_return_value == 0 ==> g_failed)
#define LC_K_pd_set_related_viewgrams_0                                                                               \
  __CPROVER_assigns(r_viewgrams_iter, g_calls, g_failed)                                                               \
  __CPROVER_loop_invariant(0 <= r_viewgrams_iter && r_viewgrams_iter <= n_viewgrams && !g_failed)                      \
  __CPROVER_loop_invariant(g_calls == ((0 <= g_k1 && g_k1 < r_viewgrams_iter) ? 1 : 0))                                \
  __CPROVER_decreases(n_viewgrams - r_viewgrams_iter)
#define K23_IN(self) (g_k2 >= (self)->min_seg && g_k2 <= (self)->max_seg && g_k3 >= (self)->min_tof && g_k3 <= (self)->max_tof)
/* fill(value): TOF outer, segment inner; fill(proj_data): segment outer, TOF inner. Every (segment, TOF) of the data is
   set exactly once (from the source's segment with the same two numbers); a failing set_segment is an error */
#define CONTRACT_K_pd_fill                                                                                            \
  __CPROVER_requires(PD_LOOP_PRE(self))                                                                                \
  __CPROVER_assigns(g_calls, g_failed, g_error)                                                                        \
  __CPROVER_ensures(g_calls <= 1 && (!K23_IN(self) ==> g_calls == 0))                                                  \
  __CPROVER_ensures(!g_error ==> (!g_failed && (K23_IN(self) ==> g_calls == 1)))                                       \
  __CPROVER_ensures(g_error ==> g_failed)
#define CONTRACT_K_pd_fill_value CONTRACT_K_pd_fill
#define CONTRACT_K_pd_fill_from CONTRACT_K_pd_fill
#define LC_K_pd_fill_value_0                                                                                          \
  __CPROVER_assigns(timing_pos_num, g_calls, g_failed, g_error)                                                        \
  __CPROVER_loop_invariant(timing_pos_num >= self->min_tof && timing_pos_num <= self->max_tof + 1 && !g_failed && !g_error) \
  __CPROVER_loop_invariant(g_calls == ((K23_IN(self) && g_k3 < timing_pos_num) ? 1 : 0))                               \
  __CPROVER_decreases(self->max_tof + 1 - timing_pos_num)
#define LC_K_pd_fill_value_1                                                                                          \
  __CPROVER_assigns(segment_num, g_calls, g_failed, g_error)                                                           \
  __CPROVER_loop_invariant(segment_num >= self->min_seg && segment_num <= self->max_seg + 1 && !g_failed && !g_error)  \
  __CPROVER_loop_invariant(g_calls == ((K23_IN(self) && (g_k3 < timing_pos_num || (g_k3 == timing_pos_num && g_k2 < segment_num))) ? 1 : 0)) \
  __CPROVER_decreases(self->max_seg + 1 - segment_num)
#define LC_K_pd_fill_from_0                                                                                           \
  __CPROVER_assigns(segment_num, g_calls, g_failed, g_error)                                                           \
  __CPROVER_loop_invariant(segment_num >= self->min_seg && segment_num <= self->max_seg + 1 && !g_failed && !g_error)  \
  __CPROVER_loop_invariant(g_calls == ((K23_IN(self) && g_k2 < segment_num) ? 1 : 0))                                  \
  __CPROVER_decreases(self->max_seg + 1 - segment_num)
#define LC_K_pd_fill_from_1                                                                                           \
  __CPROVER_assigns(timing_pos_num, g_calls, g_failed, g_error)                                                        \
  __CPROVER_loop_invariant(timing_pos_num >= self->min_tof && timing_pos_num <= self->max_tof + 1 && !g_failed && !g_error) \
  __CPROVER_loop_invariant(g_calls == ((K23_IN(self) && (g_k2 < segment_num || (g_k2 == segment_num && g_k3 < timing_pos_num))) ? 1 : 0)) \
  __CPROVER_decreases(self->max_tof + 1 - timing_pos_num)

/* get_segment_by_sinogram / get_segment_by_view: each reads the whole block itself for "its" storage order and otherwise
   converts the result of the other one (called BY CONTRACT; the conversion constructors keep the values: trusted) */
#define GETSEG_PRE(self, tof) (__CPROVER_is_fresh(self, sizeof(*self)) && PDS_READ_PRE(self) && ORDER_SUPPORTED(self) && g_bin.segment_num == segment_num && g_bin.timing_pos_num == (tof))
#define CONTRACT_K_pds_get_segment_by_sinogram                                                                        \
  __CPROVER_requires(GETSEG_PRE(self, timing_num))                                                                     \
  __CPROVER_assigns(PDS_READ_ASSIGNS)                                                                                  \
  __CPROVER_ensures(!g_error ==> READ_OK)
#define CONTRACT_K_pds_get_segment_by_view                                                                            \
  __CPROVER_requires(GETSEG_PRE(self, timing_pos))                                                                     \
  __CPROVER_assigns(PDS_READ_ASSIGNS)                                                                                  \
  __CPROVER_ensures(!g_error ==> READ_OK)

/* ================= where the layout description comes from: ProjDataInMemory constructor, ProjDataFromStream::activate_TOF =================
   Both add up axial positions * views * tangential positions over the segments (in SEGMENT order) and store the identity TOF
   sequence. Ghost g_sprefix: prefix sums of the axial positions in segment order; ghost TOF position g_t.
   Postcondition = the TOF part of PD_VALID_CORE and "offset_3d_data is the size of one TOF block" (in elements resp. bytes). That
   the total in segment order equals the total in stream order (g_prefix[NSEG]) is order-independence of a sum: not proved. */
long g_sprefix[MAXSEGS + 1];
int g_t, g_tseq_len, g_tseq_at_t, g_tseq_writes;
#define SPRE_OK(k) (!((k) < NSEG(s_)) || g_sprefix[(k) + 1] == g_sprefix[k] + NAXI(s_, k))
static inline _Bool LAYOUT_PRE(const struct PD* s_)
{
  return s_->min_seg > -1000 && s_->max_seg < 1000 && s_->min_seg <= s_->max_seg && NSEG(s_) <= MAXSEGS
         && s_->min_view > -10000 && s_->min_view < 10000 && s_->max_view > -10000 && s_->max_view < 20000 && NV(s_) == C02_V
         && s_->min_tang > -10000 && s_->min_tang < 10000 && s_->max_tang > -10000 && s_->max_tang < 20000 && NT(s_) == C02_T
         && g_t > -100000 && g_t < 100000 && s_->min_tof > -1000 && s_->min_tof <= s_->max_tof && s_->max_tof < 1000 && s_->num_tof == s_->max_tof - s_->min_tof + 1 && s_->num_tof <= MAXT
         && ALLS(AX_OK) && g_sprefix[0] == 0 && ALLS(SPRE_OK);
}
#define TSEQ_RESIZE(self, n) (g_tseq_len = (n))
#define TSEQ_WRITE(self, i, v)                                                                                        \
  do                                                                                                                  \
    {                                                                                                                 \
      __CPROVER_assert((i) >= 0 && (i) < g_tseq_len, "timing_poss_sequence written inside its size");                 \
      if ((i) == g_t)                                                                                                 \
        {                                                                                                             \
          g_tseq_at_t = (v);                                                                                          \
          ++g_tseq_writes;                                                                                            \
        }                                                                                                             \
    }                                                                                                                 \
  while (0)
#define LAYOUT_POST(self, bytes)                                                                                      \
  (g_tseq_len == self->num_tof && ((g_t >= 0 && g_t < self->num_tof) ==> (g_tseq_writes == 1 && g_tseq_at_t == self->min_tof + g_t)) \
   && self->offset_3d_data == g_sprefix[NSEG(self)] * C02_V * C02_T * (bytes))
#define CONTRACT_K_pdm_ctor_layout                                                                                    \
  __CPROVER_requires(__CPROVER_is_fresh(self, sizeof(*self)) && LAYOUT_PRE(self) && g_tseq_writes == 0)                \
  __CPROVER_assigns(self->offset_3d_data, g_tseq_len, g_tseq_at_t, g_tseq_writes)                                      \
  __CPROVER_ensures(LAYOUT_POST(self, 1))
#define LC_LAYOUT_SUM(bytes_unused)                                                                                   \
  __CPROVER_assigns(segment_num, sum)                                                                                  \
  __CPROVER_loop_invariant(segment_num >= self->min_seg && segment_num <= self->max_seg + 1                            \
                           && g_sprefix[segment_num - self->min_seg] >= 0 && g_sprefix[segment_num - self->min_seg] <= (long)(segment_num - self->min_seg) * 8192 \
                           && sum == g_sprefix[segment_num - self->min_seg] * C02_V * C02_T)                          \
  __CPROVER_decreases(self->max_seg + 1 - segment_num)
#define LC_LAYOUT_TSEQ                                                                                                \
  __CPROVER_assigns(i, timing_pos_num, g_tseq_at_t, g_tseq_writes)                                                     \
  __CPROVER_loop_invariant(i >= 0 && i <= self->num_tof && timing_pos_num == self->min_tof + i)                        \
  __CPROVER_loop_invariant(g_tseq_writes == ((g_t >= 0 && g_t < i) ? 1 : 0) && (g_tseq_writes == 1 ==> g_tseq_at_t == self->min_tof + g_t)) \
  __CPROVER_decreases(self->num_tof - i)
#define LC_K_pdm_ctor_layout_0 LC_LAYOUT_SUM(1)
#define LC_K_pdm_ctor_layout_1 LC_LAYOUT_TSEQ
/* activate_TOF: additionally maps the storage order to its 'Timing_' form (error for an unsupported one) */
#define CONTRACT_K_pds_activate_TOF                                                                                   \
  __CPROVER_requires(__CPROVER_is_fresh(self, sizeof(*self)) && LAYOUT_PRE(self) && g_tseq_writes == 0 && g_error == 0 && self->elsize == C02_E \
                     && self->storage_order >= Segment_AxialPos_View_TangPos && self->storage_order <= Unsupported)    \
  __CPROVER_assigns(self->offset_3d_data, self->storage_order, g_error, g_tseq_len, g_tseq_at_t, g_tseq_writes)        \
  __CPROVER_ensures(g_error == (__CPROVER_old(self->storage_order) == Unsupported ? 1 : 0))                            \
  __CPROVER_ensures(!g_error ==> (LAYOUT_POST(self, C02_E)                                                             \
                                  && self->storage_order == ((__CPROVER_old(self->storage_order) == Segment_View_AxialPos_TangPos || __CPROVER_old(self->storage_order) == Timing_Segment_View_AxialPos_TangPos) \
                                                                 ? Timing_Segment_View_AxialPos_TangPos : Timing_Segment_AxialPos_View_TangPos)))
#define LC_K_pds_activate_TOF_0 LC_LAYOUT_SUM(1)
#define LC_K_pds_activate_TOF_1 LC_LAYOUT_TSEQ
#endif
