/* Contracts for C08 (OSSPS): the bounds clause - thresholding.h kernels (float sequences), the strictly positive
   denominator (threshold_min_to_small_positive_value, min_positive_element), and the relaxation statement of
   OSSPSReconstruction::update_estimate. Sequences are float arrays of symbolic length <= C08_MAXLEN with loop contracts;
   ghost index g_j stands for every element. */
#ifndef C08_CONTRACTS_H
#define C08_CONTRACTS_H
#include "contracts/prelude.h"
#include <stdlib.h>
#include <float.h>

#ifndef C08_MAXLEN
#define C08_MAXLEN 4096
#endif
long g_j;       /* ghost element index */
float g_old;    /* ghost: value of element g_j before the call */
#define NOT_NAN(x) ((x) == (x))
#define SEQ_OK(begin, end)                                                                                            \
  (__CPROVER_same_object(begin, end) && __CPROVER_POINTER_OFFSET(begin) == 0 && (end) - (begin) >= 0 && (end) - (begin) <= C08_MAXLEN \
   && __CPROVER_OBJECT_SIZE(begin) == (size_t)((end) - (begin)) * sizeof(float) && __CPROVER_w_ok(begin, ((end) - (begin)) * sizeof(float)))
/* element index of a pointer into a sequence that starts at offset 0 of its object */
#define PTR_IDX(p) ((long)__CPROVER_POINTER_OFFSET(p) / (long)sizeof(float))
#define PTR_ALIGNED(p) ((long)__CPROVER_POINTER_OFFSET(p) % (long)sizeof(float) == 0)
#define GHOST_IN(begin, end) (0 <= g_j && g_j < (end) - (begin))
#define SEQ_ASSIGNS(begin, end) __CPROVER_object_whole(begin)
#define CLAMP(x, lo, hi) ((x) > (hi) ? (hi) : ((lo) > (x) ? (lo) : (x)))

/* threshold_upper_lower: from the property ("clamp(..., 0, upper bound)": iterates lie within [0, upper bound]):
   every element becomes clamp(old, new_min, new_max) - exactly, nothing else changes */
#define CONTRACT_K_threshold_upper_lower                                                                             \
  __CPROVER_requires(SEQ_OK(begin, end) && NOT_NAN(new_min) && NOT_NAN(new_max) && new_min <= new_max)                 \
  __CPROVER_requires(!GHOST_IN(begin, end) || (begin[g_j] == g_old && NOT_NAN(g_old)))                                 \
  __CPROVER_assigns(begin != end : SEQ_ASSIGNS(begin, end))                                                            \
  __CPROVER_ensures(GHOST_IN(begin, end) ==> (begin[g_j] == CLAMP(g_old, new_min, new_max) && new_min <= begin[g_j] && begin[g_j] <= new_max))
#define THR_LOOP(EXPR)                                                                                                \
  __CPROVER_assigns(iter, SEQ_ASSIGNS(begin, end))                                                                     \
  __CPROVER_loop_invariant(__CPROVER_same_object(iter, begin) && PTR_ALIGNED(iter) && PTR_IDX(iter) >= 0 && PTR_IDX(iter) <= PTR_IDX(end)) \
  __CPROVER_loop_invariant(GHOST_IN(begin, end) ==> begin[g_j] == (g_j < PTR_IDX(iter) ? (EXPR) : g_old))               \
  __CPROVER_decreases(PTR_IDX(end) - PTR_IDX(iter))
#define LC_K_threshold_upper_lower_0 THR_LOOP(CLAMP(g_old, new_min, new_max))

#define CONTRACT_K_threshold_upper                                                                                   \
  __CPROVER_requires(SEQ_OK(begin, end) && NOT_NAN(new_max))                                                           \
  __CPROVER_requires(!GHOST_IN(begin, end) || (begin[g_j] == g_old && NOT_NAN(g_old)))                                 \
  __CPROVER_assigns(begin != end : SEQ_ASSIGNS(begin, end))                                                            \
  __CPROVER_ensures(GHOST_IN(begin, end) ==> (begin[g_j] == (g_old > new_max ? new_max : g_old) && begin[g_j] <= new_max))
#define LC_K_threshold_upper_0 THR_LOOP(g_old > new_max ? new_max : g_old)

#define CONTRACT_K_threshold_lower                                                                                   \
  __CPROVER_requires(SEQ_OK(begin, end) && NOT_NAN(new_min))                                                           \
  __CPROVER_requires(!GHOST_IN(begin, end) || (begin[g_j] == g_old && NOT_NAN(g_old)))                                 \
  __CPROVER_assigns(begin != end : SEQ_ASSIGNS(begin, end))                                                            \
  __CPROVER_ensures(GHOST_IN(begin, end) ==> (begin[g_j] == (new_min > g_old ? new_min : g_old) && begin[g_j] >= new_min))
#define LC_K_threshold_lower_0 THR_LOOP(new_min > g_old ? new_min : g_old)

#define CONTRACT_K_min_positive_element
#define CONTRACT_K_threshold_min_to_small_positive_value
#define LC_K_min_positive_element_0
#define LC_K_min_positive_element_1
/* (contract text below kept for reference; the bounded job uses the real bodies) min_positive_element: end if there is no strictly positive element, otherwise a pointer to a strictly positive
   element that is <= every strictly positive element (ghost g_j) */
#define CONTRACT_K_min_positive_element_UNUSED                                                                              \
  __CPROVER_requires(SEQ_OK(start, end))                                                                               \
  __CPROVER_requires(!GHOST_IN(start, end) || NOT_NAN(start[g_j]))                                                     \
  __CPROVER_assigns()                                                                                                  \
  __CPROVER_ensures(__CPROVER_same_object(__CPROVER_return_value, start) && __CPROVER_return_value - start >= 0 && __CPROVER_return_value - start <= end - start) \
  __CPROVER_ensures(__CPROVER_return_value != end ==> *__CPROVER_return_value > 0)                                     \
  __CPROVER_ensures((GHOST_IN(start, end) && start[g_j] > 0) ==> (__CPROVER_return_value != end && *__CPROVER_return_value <= start[g_j]))
/* ghosts of the entry values (the parameter `start` itself is advanced by the code) */
const float* g_start0;
#define LC_K_min_positive_element_0_UNUSED                                                                           \
  __CPROVER_assigns(start)                                                                                             \
  __CPROVER_loop_invariant(__CPROVER_same_object(start, g_start0) && PTR_ALIGNED(start) && PTR_IDX(start) >= 0 && PTR_IDX(start) <= PTR_IDX(end)) \
  __CPROVER_loop_invariant((0 <= g_j && g_j < PTR_IDX(start)) ==> !(g_start0[g_j] > 0))                                \
  __CPROVER_decreases(PTR_IDX(end) - PTR_IDX(start))
#define LC_K_min_positive_element_1_UNUSED                                                                           \
  __CPROVER_assigns(start, result)                                                                                     \
  __CPROVER_loop_invariant(__CPROVER_same_object(start, g_start0) && PTR_ALIGNED(start) && PTR_IDX(start) >= 0 && PTR_IDX(start) < PTR_IDX(end)) \
  __CPROVER_loop_invariant(__CPROVER_same_object(result, g_start0) && PTR_ALIGNED(result) && PTR_IDX(result) >= 0 && PTR_IDX(result) <= PTR_IDX(start) \
                           && g_start0[PTR_IDX(result)] > 0)                                                           \
  __CPROVER_loop_invariant((0 <= g_j && g_j <= PTR_IDX(start) && g_start0[g_j] > 0) ==> g_start0[PTR_IDX(result)] <= g_start0[g_j]) \
  __CPROVER_decreases(PTR_IDX(end) - PTR_IDX(start))

/* std::fill on floats */
static inline void K_std_fill_f(float* first, float* last, float value)
{
  for (float* p = first; p != last; ++p)
    *p = value;
}

/* threshold_min_to_small_positive_value: from the property ("D the strictly positive precomputed curvature"): afterwards
   every element is strictly positive. Domain: no NaN; small_number > 0; the product (smallest positive element) *
   small_number does not underflow to 0 (C08_MINPOS) */
#define C08_MINPOS 1e-30f
#define CONTRACT_K_threshold_min_to_small_positive_value_UNUSED                                                      \
  __CPROVER_requires(SEQ_OK(begin, end) && small_number >= 1e-7f && small_number <= 1.0f)                              \
  __CPROVER_requires(!GHOST_IN(begin, end) || (begin[g_j] == g_old && NOT_NAN(g_old) && (g_old <= 0 || g_old >= C08_MINPOS))) \
  __CPROVER_assigns(begin != end : SEQ_ASSIGNS(begin, end))                                                            \
  __CPROVER_ensures(GHOST_IN(begin, end) ==> begin[g_j] > 0)                                                           \
  __CPROVER_ensures((GHOST_IN(begin, end) && g_old > 0) ==> begin[g_j] == g_old)

/* the relaxation statement of update_estimate. From the property: zeta_n = alpha / (1 + gamma n) "for full iteration n";
   sub-iteration k (1-based, as get_subset_num() uses it) belongs to full iteration n = (k - 1) / num_subsets. */
#ifndef C08_S
#define C08_S 4
#endif
#define FULL_ITER(k, N) (((k)-1) / (N))
#define CONTRACT_K_relaxation                                                                                        \
  __CPROVER_requires(num_subsets == C08_S && subiteration_num >= 1 && subiteration_num <= 100000000)                   \
  /* a run may have been resumed at any earlier sub-iteration: the schedule must not depend on where it started */   \
  __CPROVER_requires(start_subiteration_num >= 1 && start_subiteration_num <= subiteration_num)                        \
  __CPROVER_requires(C08_SUBDOMAIN(subiteration_num, num_subsets))                                                     \
  __CPROVER_assigns()                                                                                                  \
  __CPROVER_ensures(__CPROVER_return_value == FULL_ITER(subiteration_num, num_subsets))                                \
  /* weaker clause: the iteration number of this or of the next full iteration (see known_findings.txt) */            \
  __CPROVER_ensures(__CPROVER_return_value == FULL_ITER(subiteration_num, num_subsets)                                 \
                    || __CPROVER_return_value == FULL_ITER(subiteration_num, num_subsets) + 1)
#ifdef C08_LAST_OF_ITERATION
#define C08_SUBDOMAIN(k, N) ((k) % (N) == 0)
#else
#define C08_SUBDOMAIN(k, N) ((k) % (N) != 0)
#endif

/* ---- the tail of OSSPSReconstruction::update_estimate after the additive update ("now threshold image") ----
   Statement kernel. From the property: "maps lambda to clamp(lambda + ..., 0, upper bound). Iterates therefore always lie
   within [0, upper bound]": whatever the tail does, afterwards every element equals clamp(old, 0, (float)upper_bound). */
/* *std::min_element / *std::max_element over the image (used by the log message; any other use must respect this contract) */
float K_min_elem(const float* begin, const float* end)
__CPROVER_requires(SEQ_OK(begin, end) && begin != end)
__CPROVER_assigns()
__CPROVER_ensures(GHOST_IN(begin, end) ==> !(begin[g_j] < __CPROVER_return_value))
;
float K_max_elem(const float* begin, const float* end)
__CPROVER_requires(SEQ_OK(begin, end) && begin != end)
__CPROVER_assigns()
__CPROVER_ensures(GHOST_IN(begin, end) ==> !(begin[g_j] > __CPROVER_return_value))
;
#define CONTRACT_K_ossps_clamp_tail                                                                                  \
  __CPROVER_requires(SEQ_OK(begin, end) && begin != end && upper_bound >= 0 && upper_bound <= FLT_MAX)                 \
  __CPROVER_requires(!GHOST_IN(begin, end) || (begin[g_j] == g_old && NOT_NAN(g_old)))                                 \
  __CPROVER_assigns(SEQ_ASSIGNS(begin, end))                                                                           \
  __CPROVER_ensures(GHOST_IN(begin, end) ==> (begin[g_j] == CLAMP(g_old, 0.F, (float)upper_bound) && 0.F <= begin[g_j] && begin[g_j] <= (float)upper_bound))

/* ---- the additive update of OSSPSReconstruction::update_estimate, for ONE voxel (statement kernel) ----
   Each std::transform over whole images becomes the same operation on this voxel's values V_<image> (the images are traversed in the
   same order: begin_all()..end_all() of images with equal index ranges - trusted). Float operations are not evaluated: K_op returns
   an arbitrary (non-NaN) value and LOGS (operation, operands, result); the contract is a statement about the DATAFLOW.
   From the property: "maps lambda to clamp(lambda + zeta_n N grad_S Phi(lambda) / D ...), D the strictly positive precomputed curvature
   (minus the approximate log-likelihood Hessian applied to a uniform image, plus twice the prior's surrogate curvature)":
     numerator = grad * N;  D = positive(threshold)(precomputed [+ 2 * curvature(lambda) when there is a prior]);
     numerator / D, times zeta_n (times the step 1);  lambda + that  - each step exactly once, in this order, nothing else;
     the denominator is computed at the first sub-iteration of a run (and stored) or at every sub-iteration when the prior's
     curvature depends on the image (then not stored); otherwise the stored one is used. */
enum { OP_MUL = 1, OP_DIV, OP_ADD, OP_SUB, OP_CURV, OP_THRESH };
#define MAXOPS 12
int g_nops, g_log_kind[MAXOPS]; float g_log_a[MAXOPS], g_log_b[MAXOPS], g_log_r[MAXOPS];
float V_numerator_ptr, V_precomputed_denominator_ptr, V_current_image_estimate; /* this voxel of the three images */
float g_G, g_P, g_X;  /* their values on entry */
int g_relax_n, g_relax_calls; float g_relax_z;
float nondet_float(void);
static inline float K_fresh_value(void) { return nondet_float(); }
static inline float K_op(int kind, float a, float b)
{
  float r = nondet_float();
  __CPROVER_assume(!__CPROVER_isnanf(r));
  __CPROVER_assert(g_nops < MAXOPS, "operation log large enough");
  g_log_kind[g_nops] = kind; g_log_a[g_nops] = a; g_log_b[g_nops] = b; g_log_r[g_nops] = r; ++g_nops;
  return r;
}
static inline float K_relax_value(int n)
{
  float z = nondet_float();
  __CPROVER_assume(!__CPROVER_isnanf(z));
  g_relax_n = n; g_relax_z = z; ++g_relax_calls;
  return z;
}
#define LOG_IS(i, kind, a, b) ((i) < g_nops && g_log_kind[i] == (kind) && g_log_a[i] == (a) && g_log_b[i] == (b))
static inline _Bool K_update_dataflow_ok(_Bool recompute, _Bool prior_is_zero, _Bool first, int num_subsets)
{
  int i = 0;
  if (!LOG_IS(i, OP_MUL, g_G, (float)num_subsets)) return 0; /* K_op's operands are floats: the int num_subsets is converted */
  const float r1 = g_log_r[i++];
  float P_after = g_P, d;
  if (recompute || first)
    {
      float w = g_P;
      if (!prior_is_zero)
        {
          if (!LOG_IS(i, OP_CURV, g_X, 0.F)) return 0;
          const float c = g_log_r[i++];
          if (!LOG_IS(i, OP_MUL, c, 2.F)) return 0;
          const float m = g_log_r[i++];
          if (!LOG_IS(i, OP_ADD, m, g_P)) return 0;
          w = g_log_r[i++];
        }
      if (!LOG_IS(i, OP_THRESH, w, 10.E-6F)) return 0;
      d = g_log_r[i++];
      if (!recompute) P_after = d;
    }
  else
    d = g_P;
  if (!LOG_IS(i, OP_DIV, r1, d)) return 0;
  const float r2 = g_log_r[i++];
  if (g_relax_calls != 1) return 0;
  if (!LOG_IS(i, OP_MUL, r2, g_relax_z)) return 0;
  const float r3 = g_log_r[i++];
  if (!LOG_IS(i, OP_MUL, r3, 1.F)) return 0;
  const float r4 = g_log_r[i++];
  if (!LOG_IS(i, OP_ADD, g_X, r4)) return 0;
  const float xn = g_log_r[i++];
  return i == g_nops && V_current_image_estimate == xn && V_precomputed_denominator_ptr == P_after;
}
#define NOT_NAN3 (!__CPROVER_isnanf(V_numerator_ptr) && !__CPROVER_isnanf(V_precomputed_denominator_ptr) && !__CPROVER_isnanf(V_current_image_estimate))
#define CONTRACT_K_ossps_update_voxel                                                                                 \
  __CPROVER_requires(num_subsets >= 1 && num_subsets <= 4096 && subiteration_num >= 1 && start_subiteration_num >= 1 && start_subiteration_num <= subiteration_num \
                     && subiteration_num < 100000000 && g_nops == 0 && g_relax_calls == 0 && NOT_NAN3                 \
                     && g_G == V_numerator_ptr && g_P == V_precomputed_denominator_ptr && g_X == V_current_image_estimate) \
  __CPROVER_assigns(V_numerator_ptr, V_precomputed_denominator_ptr, V_current_image_estimate, g_nops, __CPROVER_object_whole(g_log_kind), __CPROVER_object_whole(g_log_a), \
                    __CPROVER_object_whole(g_log_b), __CPROVER_object_whole(g_log_r), g_relax_n, g_relax_calls, g_relax_z)  \
  __CPROVER_ensures(K_update_dataflow_ok(recompute_penalty_term_in_denominator, prior_is_zero, subiteration_num == start_subiteration_num, num_subsets))
#endif
