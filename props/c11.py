"""C11 - VectorWithOffset<T> / Array<1,T> as index-range maps (DESIGN.md section 6, C11)."""
import os
import re

from vlib.runner import Job
from vlib import extract

VERIF = os.path.dirname(os.path.dirname(os.path.abspath(__file__)))
F = "src/include/stir/VectorWithOffset.inl"
CLS = r"VectorWithOffset<T>::"

METHODS0 = "get_min_index|get_max_index|get_length|size|empty|capacity|get_capacity_min_index|get_capacity_max_index|begin|end|check_state|init|recycle|_destruct_and_deallocate"
METHODSN = "reserve|resize|grow|set_offset|set_min_index|fill|at"
FIELDS = "length|start|num|begin_allocated_memory|end_allocated_memory|allocated_memory_sptr|pointer_access"

# common surface-syntax rules for every VectorWithOffset member function (count None: any number of times)
COMMON = [
    # container indexing through the offset base pointer: num[e] -> VWO_AT(obj, e) == *(begin + off + (e - start)), the
    # same address for every e (in or out of range); avoids CBMC's unreliable handling of out-of-block base pointers
    (r"\b(v|il|iv)\.num\[([^\]]+)\]", r"VWO_AT(\1, \2)", None),
    (r"(?<![\w>.])num\[([^\]]+)\]", r"VWO_AT(self, \1)", None),
    (r"\bthis->", "self->", None),
    (r"\breturn \*this;", "return self;", None),
    # no-argument member calls:  obj.f() / obj->f() / f()
    (r"\b(\w+)(?:->|\.)(%s)\(\s*\)" % METHODS0, r"K_vwo_\2(\1)", None),
    (r"(?<![\w>.])(%s)\(\s*\)" % METHODS0, r"K_vwo_\1(self)", None),
    # member calls with arguments
    (r"\b(\w+)(?:->|\.)(%s)\(" % METHODSN, r"K_vwo_\2(\1, ", None),
    (r"(?<![\w>.])(%s)\((?!self)" % METHODSN, r"K_vwo_\1(self, ", None),
    # check_state() is assert-only (NDEBUG): dropped, listed
    (r"K_vwo_check_state\(\w+\);", "", None),
    # bare data members -> self->member
    (r"(?<![\w>.])(%s)\b(?!\s*\()" % FIELDS, r"self->\1", None),
    # reference parameters are pointers in C
    (r"\b(v|il|iv)\.", r"\1->", None),
    (r"static_cast<([^<>]+)>\(", r"CAST(\1, ", None),
    (r"\bstd::min\(", "K_min_int(", None),
    (r"\bstd::max\(", "K_max_int(", None),
    (r"\bnullptr\b", "NULL", None),
    (r"\bsize_t\(", "CAST(size_t, ", None),
]


def K(name, func, c_header, rules=(), nth=0, loops=0, cxx=None, file=F, **kw):
    d = dict(name=name, file=file, func=func, nth=nth, c_header=c_header, rules=list(rules) + COMMON, loops=loops,
             cxx_name=cxx or func)
    d.update(kw)
    return d


ITER = (r"typename VectorWithOffset<T>::(?:const_)?iterator\(", "(", 1)

KERNELS = [
    K("K_vwo_get_min_index", CLS + r"get_min_index\(\) const", "int K_vwo_get_min_index(const struct VWO* self)",
      cxx="VectorWithOffset<T>::get_min_index"),
    K("K_vwo_get_max_index", CLS + r"get_max_index\(\) const", "int K_vwo_get_max_index(const struct VWO* self)",
      cxx="VectorWithOffset<T>::get_max_index"),
    K("K_vwo_get_length", CLS + r"get_length\(\) const", "int K_vwo_get_length(const struct VWO* self)",
      cxx="VectorWithOffset<T>::get_length"),
    K("K_vwo_size", CLS + r"size\(\) const", "size_t K_vwo_size(const struct VWO* self)", cxx="VectorWithOffset<T>::size"),
    K("K_vwo_empty", CLS + r"empty\(\) const", "_Bool K_vwo_empty(const struct VWO* self)", cxx="VectorWithOffset<T>::empty"),
    K("K_vwo_capacity", CLS + r"capacity\(\) const", "size_t K_vwo_capacity(const struct VWO* self)",
      cxx="VectorWithOffset<T>::capacity", disable_checks=["pointer"]),
    K("K_vwo_get_capacity_min_index", CLS + r"get_capacity_min_index\(\) const",
      "int K_vwo_get_capacity_min_index(const struct VWO* self)", cxx="VectorWithOffset<T>::get_capacity_min_index",
      disable_checks=["pointer", "signed-overflow"]),
    K("K_vwo_get_capacity_max_index", CLS + r"get_capacity_max_index\(\) const",
      "int K_vwo_get_capacity_max_index(const struct VWO* self)", cxx="VectorWithOffset<T>::get_capacity_max_index",
      disable_checks=["pointer", "signed-overflow"]),
    K("K_vwo_begin", CLS + r"begin\(\)(?=\s*\{)", "T* K_vwo_begin(const struct VWO* self)", rules=[ITER],
      cxx="VectorWithOffset<T>::begin"),
    K("K_vwo_end", CLS + r"end\(\)(?=\s*\{)", "T* K_vwo_end(const struct VWO* self)", rules=[ITER], cxx="VectorWithOffset<T>::end"),
    K("K_vwo_index", CLS + r"operator\[\]\(int i\)(?=\s*\{)", "T* K_vwo_index(struct VWO* self, int i)",
      rules=[(r"return num\[i\];", "return &num[i];", 1)], cxx="VectorWithOffset<T>::operator[]"),
    K("K_vwo_at", CLS + r"at\(int i\)(?=\s*\{)", "T* K_vwo_at(struct VWO* self, int i)",
      rules=[(r"return num\[i\];", "return &num[i];", 1), (r'throw std::out_of_range\("[^"]*"\);', "K_THROW(NULL);", 1)],
      cxx="VectorWithOffset<T>::at"),
    K("K_vwo_set_offset", CLS + r"set_offset\(const int min_index\)", "void K_vwo_set_offset(struct VWO* self, const int min_index)",
      cxx="VectorWithOffset<T>::set_offset"),
    K("K_vwo_fill", CLS + r"fill\(const T& n\)", "void K_vwo_fill(struct VWO* self, const T n)",
      rules=[(r"std::fill\(", "K_std_fill(", 1)], cxx="VectorWithOffset<T>::fill"),
    K("K_vwo_equals", CLS + r"operator==\(const VectorWithOffset& iv\) const", "_Bool K_vwo_equals(const struct VWO* self, const struct VWO* iv)",
      rules=[(r"std::equal\(", "K_std_equal(", 1)], cxx="VectorWithOffset<T>::operator=="),
]

SPTR_RESET = (r"self->allocated_memory_sptr = nullptr;", "K_sptr_reset(&self->allocated_memory_sptr);", 1)
KERNELS += [
    K("K_vwo_init0", CLS + r"init\(\)", "void K_vwo_init0(struct VWO* self)", cxx="VectorWithOffset<T>::init()",
      rules=[(r"allocated_memory_sptr = nullptr;", "allocated_memory_sptr = NULL /* fresh object: nothing to release */;", 1)]),
    K("K_vwo__destruct_and_deallocate", CLS + r"_destruct_and_deallocate\(\)", "void K_vwo__destruct_and_deallocate(struct VWO* self)",
      rules=[(r"this->allocated_memory_sptr = nullptr;", "K_sptr_reset(&self->allocated_memory_sptr);", 1)],
      cxx="VectorWithOffset<T>::_destruct_and_deallocate"),
    K("K_vwo_recycle", CLS + r"recycle\(\)", "void K_vwo_recycle(struct VWO* self)", cxx="VectorWithOffset<T>::recycle",
      rules=[(r"this->init\(\);", "K_vwo_init0(self);", 1)]),
    K("K_vwo_reserve", CLS + r"reserve\(const int new_capacity_min_index, const int new_capacity_max_index\)",
      "void K_vwo_reserve(struct VWO* self, const int new_capacity_min_index, const int new_capacity_max_index)",
      rules=[(r"shared_ptr<T\[\]> (\w+)\(new T\[(\w+)\]\);", r"T* \1 = K_new_T(\2);", 1),
             (r"std::copy\(([^;]*)\);", r"K_std_copy(\1, GK_K_vwo_reserve);", 1), (r"\.get\(\)", "", 2), (r"std::move\((\w+)\)", r"\1", 1),
             (r"\b0U\b", "0U", 1)],
      cxx="VectorWithOffset<T>::reserve(int,int)"),
    K("K_vwo_resize", CLS + r"resize\(const int min_index, const int max_index\)",
      "void K_vwo_resize(struct VWO* self, const int min_index, const int max_index)", cxx="VectorWithOffset<T>::resize(int,int)"),
    K("K_vwo_grow", CLS + r"grow\(const int min_index, const int max_index\)",
      "void K_vwo_grow(struct VWO* self, const int min_index, const int max_index)", cxx="VectorWithOffset<T>::grow(int,int)"),
    K("K_vwo_assign", CLS + r"operator=\(const VectorWithOffset& il\)", "struct VWO* K_vwo_assign(struct VWO* self, const struct VWO* il)",
      rules=[(r"this == &il", "self == il", 1), (r"std::copy\(([^;]*)\);", r"K_std_copy(\1, GK_K_vwo_assign);", 1)], cxx="VectorWithOffset<T>::operator="),
    K("K_arr1_resize", r"Array<1, elemT>::resize\(const int min_index, const int max_index\)",
      "void K_arr1_resize(struct VWO* self, const int min_index, const int max_index)", file="src/include/stir/Array.inl",
      rules=[(r"this->num\[([^\]]+)\]", r"VWO_AT(self, \1)", 3), (r"assign\((VWO_AT\(self, i\)), 0\);", r"\1 = 0;", 3),
             (r"base_type::resize\(", "K_vwo_resize(self, ", 1), (r"\bsize_type\b", "size_t", 1)],
      loops=3, cxx="Array<1,elemT>::resize(int,int)"),
]

KERNELS.append(dict(name="K_arr_is_contiguous", file="src/include/stir/Array.inl", cxx_name="Array<num_dimensions,elemT>::is_contiguous (num_dimensions >= 2)",
                    func=r"Array<num_dimensions, elemT>::is_contiguous\(\) const", c_header="_Bool K_arr_is_contiguous(const struct ARRN* self)", loops=1,
                    rules=[(r"auto mem = &\(\*this->begin_all\(\)\);", "long mem = ARR_BEGIN_ALL_ADDR(self);", 1),
                           (r"auto i = this->get_min_index\(\)", "int i = self->min_index", 1), (r"this->get_max_index\(\)", "self->max_index", (1, 3)),
                           (r"\(\*this\)\[([^\]]+)\]\.is_contiguous\(\)", r"SUBARR_CONTIG(self, \1)", 1),
                           (r"\(\*this\)\[([^\]]+)\]\.size_all\(\)", r"SUBARR_SIZE(self, \1)", 1),
                           (r"&\(\*\(\*this\)\[([^\]]+)\]\.begin_all\(\)\)", r"SUBARR_ADDR(self, \1)", 1)]))

_ITER = [(r"typename base_type::iterator iter = this->begin\(\);|auto iter = this->begin\(\);", "int iter = 0;", 1),
         (r"typename IndexRange<num_dimensions>::const_iterator range_iter = range\.begin\(\);|auto range_iter = range\.begin\(\);", "int range_iter = 0;", 1),
         (r"iter != this->end\(\)", "iter != ARR_N(self)", 1),
         (r"base_type::resize\(range\.get_min_index\(\), range\.get_max_index\(\)\);", "K_outer_resize(self, range->min_index, range->max_index);", 1)]
KERNELS.append(dict(name="K_arrn_init", file="src/include/stir/Array.inl", cxx_name="Array<num_dimensions,elemT>::init (num_dimensions >= 2)",
                    func=r"Array<num_dimensions, elemT>::init\(const IndexRange<num_dimensions>& range, elemT\* const data_ptr, bool copy_data\)",
                    c_header="void K_arrn_init(struct ARRN* self, const struct RANGEN* range, const long data_ptr, _Bool copy_data)", loops=1,
                    rules=_ITER + [(r"auto ptr = data_ptr;", "long ptr = data_ptr;", 1),
                                   (r"\(\*iter\)\.init\(\*range_iter, ptr, copy_data\);", "K_SUB_INIT(self, iter, range_iter, ptr, copy_data);", 1),
                                   (r"ptr \+= range_iter->size_all\(\);", "ptr += RANGE_SIZE(range, range_iter);", 1)]))
KERNELS.append(dict(name="K_arrn_resize", file="src/include/stir/Array.inl", cxx_name="Array<num_dimensions,elemT>::resize (num_dimensions >= 2)",
                    func=r"Array<num_dimensions, elemT>::resize\(const IndexRange<num_dimensions>& range\)",
                    c_header="void K_arrn_resize(struct ARRN* self, const struct RANGEN* range)", loops=1,
                    rules=_ITER + [(r"\(\*iter\)\.resize\(\*range_iter\);", "K_SUB_RESIZE(self, iter, range_iter);", 1)]))

ERR = (r'\berror\("[^"]*"\);', "K_THROW(self);", 1)
for nm, op in (("plus", r"\+="), ("minus", "-="), ("mult", r"\*="), ("div", "/=")):
    KERNELS.append(K("K_vwo_%s_assign" % nm, CLS + r"operator%s\(const VectorWithOffset& v\)" % op,
                     "struct VWO* K_vwo_%s_assign(struct VWO* self, const struct VWO* v)" % nm, rules=[ERR], loops=1,
                     cxx="VectorWithOffset<T>::operator" + op.replace("\\", "")))

EXPECTED_MEMBERS = ["T* num", "unsigned int length", "int start", "T* begin_allocated_memory", "T* end_allocated_memory",
                    "shared_ptr<T[]> allocated_memory_sptr", "mutable bool pointer_access"]


def extra_gen(repo, gen_dir, metas):
    """Fidelity guard: the data members of VectorWithOffset<T> must be exactly those of struct VWO."""
    src = extract.strip_comments(open(os.path.join(repo, "src/include/stir/VectorWithOffset.h")).read())
    m = re.search(r"class VectorWithOffset\s*\{(.*)\n\};", src, flags=re.S)
    if not m:
        raise extract.ExtractionError("class VectorWithOffset not found in VectorWithOffset.h")
    body = m.group(1)
    members = re.findall(r"^\s*((?:mutable\s+)?(?:T\*|unsigned int|int|bool|shared_ptr<T\[\]>|size_t|unsigned)\s+\w+);", body, flags=re.M)
    members = [re.sub(r"\s+", " ", x.strip()) for x in members]
    if members != EXPECTED_MEMBERS:
        raise extract.ExtractionError("VectorWithOffset data members changed: %s" % members)
    metas.append({"kernel": "struct VWO", "file": "src/include/stir/VectorWithOffset.h", "function": "data members",
                  "members": members})


HARNESS = os.path.join(VERIF, "harness", "c11.c")
TYPES_QUICK = ["unsigned"]
TYPES_THOROUGH = ["unsigned", "int", "unsigned short"]  # float elements: NaN != NaN makes "copied element equals the source element" fail for a reason that is not the container's (removed after a false alarm in the thorough tier)

# (kernel, helper contracts to use instead of bodies, loop contracts?, extra flags)
ENFORCE = [
    ("K_vwo_get_min_index", [], False), ("K_vwo_get_max_index", [], False), ("K_vwo_get_length", [], False),
    ("K_vwo_size", [], False), ("K_vwo_empty", [], False), ("K_vwo_capacity", [], False),
    ("K_vwo_get_capacity_min_index", [], False), ("K_vwo_get_capacity_max_index", [], False),
    ("K_vwo_begin", [], False), ("K_vwo_end", [], False), ("K_vwo_index", [], False), ("K_vwo_at", [], False),
    ("K_vwo_set_offset", [], False),
    ("K_vwo_fill", ["K_std_fill"], False), ("K_vwo_equals", ["K_std_equal"], False),
    ("K_std_copy", [], True), ("K_std_fill", [], True), ("K_std_equal", [], True),
    ("K_vwo_plus_assign", [], True), ("K_vwo_minus_assign", [], True), ("K_vwo_mult_assign", [], True),
    ("K_vwo_div_assign", [], True),
    ("K_vwo_init0", [], False), ("K_vwo__destruct_and_deallocate", [], False), ("K_vwo_recycle", [], False),
    ("K_vwo_reserve", ["K_std_copy"], False), ("K_vwo_resize", ["K_vwo_reserve"], False), ("K_vwo_grow", ["K_vwo_resize"], False),
    ("K_vwo_assign", ["K_std_copy"], False), ("K_arr1_resize", ["K_vwo_resize"], True),
]


TIER_B = ("K_vwo_reserve", "K_vwo_resize", "K_vwo_grow", "K_vwo_assign", "K_arr1_resize")
CHECKS = ["--bounds-check", "--pointer-check", "--signed-overflow-check", "--div-by-zero-check"]
# no --pointer-overflow-check: `num = begin - start` is deliberately outside its block (the real code does this);
# element arithmetic (+ - * /) overflow and division by zero are the caller's concern, so the arithmetic-operator jobs
# run on unsigned element types and the division job without the div-by-zero check.


def jobs(tier, gen_dir):
    out = []
    types = TYPES_THOROUGH if tier == "thorough" else TYPES_QUICK
    for t in types:
        for kern, repl, lc in ENFORCE:
            tt = t
            checks = list(CHECKS)
            shards = 1
            if kern in TIER_B:
                # 1-byte elements: the container logic is independent of sizeof(T) (scaling is done by the compiler);
                # keeps the offset arithmetic in the contracts division-free
                tt = "unsigned char"
                shards = int(os.environ.get("C11_SHARDS", "6"))
                if t != types[0]:
                    continue
            if kern in ("K_vwo_mult_assign", "K_vwo_div_assign"):
                tt = "unsigned char"  # 8-bit multiplier/divider: the container logic does not depend on the element width
                if t != types[0]:
                    continue
            elif kern.endswith("_assign") and kern != "K_vwo_assign" and t != "unsigned":
                continue  # signed/float element arithmetic is not the container's obligation
            if kern == "K_vwo_div_assign":
                checks.remove("--div-by-zero-check")
            defs = {"T_ELEM": tt}
            if kern in TIER_B and os.environ.get("C11_MAXLEN"):
                defs["VWO_MAXLEN"] = os.environ["C11_MAXLEN"]
            if tt == "float":
                defs["T_IS_FLOAT"] = None
            out.append(Job("c11/%s/%s" % (tt.replace(" ", "_"), kern), HARNESS, "h_" + kern, enforce=kern, replace=repl,
                           loop_contracts=lc, defines=defs, flags=checks, timeout=300, params={"T": tt}, kernels=[kern],
                           min_obligations=3, no_base_flags=True, replay="vwo", shards=shards,
                           backend=os.environ.get("C11_BACKEND", "kissat") if kern in TIER_B else "sat"))
            if kern.endswith("_assign") and kern != "K_vwo_assign":
                d2 = dict(defs)
                d2["SELF_EMPTY"] = None
                out.append(Job("c11/%s/%s/self_empty" % (tt.replace(" ", "_"), kern), HARNESS, "h_" + kern, enforce=kern,
                               loop_contracts=lc, defines=d2, flags=checks, timeout=300, params={"T": tt, "self": "empty"},
                               kernels=[kern], min_obligations=3, no_base_flags=True, replay="vwo"))
        if t == types[0]:
            out.append(Job("c11/K_arr_is_contiguous", os.path.join(VERIF, "harness", "c11b.c"), "h_K_arr_is_contiguous", enforce="K_arr_is_contiguous",
                           loop_contracts=True, flags=CHECKS, timeout=300, kernels=["K_arr_is_contiguous"], min_obligations=3, no_base_flags=True,
                           backend="kissat", params={"sub-arrays": "symbolic number <= 8"}))
            out.append(Job("c11/canary/K_arr_is_contiguous", os.path.join(VERIF, "harness", "c11b.c"), "h_K_arr_is_contiguous", enforce="K_arr_is_contiguous",
                           loop_contracts=True, defines={"CANARY_K_arr_is_contiguous": None}, flags=[], timeout=300, kind="canary",
                           expect_fail=r"K_arr_is_contiguous\.postcondition", kernels=["K_arr_is_contiguous"], no_base_flags=True))
            for kk in ("K_arrn_init", "K_arrn_resize"):
                out.append(Job("c11/" + kk, os.path.join(VERIF, "harness", "c11b.c"), "h_" + kk, enforce=kk, loop_contracts=True, flags=CHECKS, timeout=300, kernels=[kk],
                               min_obligations=3, no_base_flags=True, backend="kissat", params={"sub-arrays": "symbolic number <= 8"}))
                out.append(Job("c11/canary/" + kk, os.path.join(VERIF, "harness", "c11b.c"), "h_" + kk, enforce=kk, loop_contracts=True, defines={"CANARY_" + kk: None}, flags=[],
                               timeout=300, kind="canary", expect_fail=kk + r"\.postcondition", kernels=[kk], no_base_flags=True))
        # vacuity canaries: contract + `ensures(false)` must fail
        for kern in ("K_vwo_plus_assign", "K_vwo_at", "K_vwo_set_offset"):
            if t != types[0]:
                continue
            out.append(Job("c11/%s/canary/%s" % (t, kern), HARNESS, "h_" + kern, enforce=kern, loop_contracts=kern.endswith("_assign"),
                           defines={"T_ELEM": t, "CANARY_" + kern: None}, flags=[], timeout=300,
                           kind="canary", expect_fail=r"%s\.postcondition" % kern, kernels=[kern], no_base_flags=True))
    return out


TRUSTED = [
    "shared_ptr<T[]> modelled as a sole-owner raw pointer (reset == free)",
    "std::copy/std::fill/std::equal modelled by K_std_* (each verified against its own contract)",
    "new T[n] modelled as malloc (indeterminate contents)",
    "history quantifier: induction over operations (each preserves VWO_VALID and specifies the whole new view) is argued in DESIGN.md, not machine-checked",
    "domain: |indices| < 10^6, length and capacity <= 65536 elements (VWO_MAXIDX/VWO_MAXLEN)",
]
ASSUMPTIONS = [
    "buffer of a vector is its own allocation object of exactly capacity*sizeof(T) bytes (memory-viewing vectors: the viewed block is modelled as exactly that object)",
]
UNDECIDED_CLAUSES = ["Array<n>, n>=2 beyond is_contiguous / init / resize (sub-arrays abstracted to what these functions read and write of them); FullArrayIterator row-major order; shared-memory views aliasing; move construction/assignment"]


def param_summary(tier):
    return {"T": TYPES_THOROUGH if tier == "thorough" else TYPES_QUICK, "length/capacity": "symbolic <= 65536",
            "indices": "symbolic, |i| < 10^6"}


# ---------------- native replay (real headers from the working tree, ASan) ----------------
import subprocess

REPLAY_OPS = {"K_vwo_plus_assign": "plus", "K_vwo_minus_assign": "minus", "K_vwo_mult_assign": "mult", "K_vwo_div_assign": "div",
              "K_vwo_at": "at", "K_vwo_set_offset": "set_offset", "K_vwo_fill": "fill", "K_vwo_equals": "equals",
              "K_vwo_assign": "assign", "K_vwo_resize": "resize", "K_vwo_grow": "grow", "K_arr1_resize": "array_resize", "K_arr_is_contiguous": "contig", "K_arrn_init": "arrn", "K_arrn_resize": "arrn"}


def _num(v, default=0):
    m = re.match(r"^-?\d+", str(v))
    return int(m.group(0)) if m else default


def build_replay(workroot, repo):
    exe = os.path.join(workroot, "c11_replay")
    if os.path.exists(exe):
        return exe, ""
    cmd = ["g++", "-std=c++17", "-g", "-fsanitize=address", "-DNDEBUG", "-I", os.path.join(repo, "src/include"),
           "-I", os.path.join(repo, "_build/src/include"), os.path.join(VERIF, "replay", "c11.cpp"),
           os.path.join(repo, "_build/src/buildblock/libbuildblock.a"), "-o", exe]
    p = subprocess.run(cmd, capture_output=True, text=True, timeout=600)
    if p.returncode != 0:
        return None, p.stderr[-800:]
    return exe, ""


def run_native(exe, args):
    p = subprocess.run([exe] + [str(a) for a in args], capture_output=True, text=True, timeout=120)
    out = (p.stdout + p.stderr)
    if p.returncode == 1 and "CONFIRMED" in p.stdout:
        return "confirmed", p.stdout.strip().splitlines()[-1]
    if "AddressSanitizer" in out:
        m = re.search(r"ERROR: AddressSanitizer: (\S+).*?\n.*?\n\s+#0 \S+ in ([^\n]*)", out, flags=re.S)
        return "confirmed", "AddressSanitizer: " + (m.group(1) + " in " + m.group(2) if m else "memory error")
    if p.returncode == 0:
        return "not-reproduced", p.stdout.strip()[-200:]
    return "unavailable", "replay driver rc=%d %s" % (p.returncode, out[-200:])


def replay(job, o, workroot, repo):
    kern = job.kernels[0] if job.kernels else ""
    op = REPLAY_OPS.get(kern)
    if not op:
        return {"status": "unavailable", "detail": "no native replay for kernel %s" % kern}
    exe, err = build_replay(workroot, repo)
    if not exe:
        return {"status": "unavailable", "detail": "replay driver did not compile: " + err}
    v = o.get("inputs", {})
    tried = []
    # 1. the verifier's counterexample
    cands = []
    if "a.length" in v:
        cands.append([_num(v.get("a.start")), _num(v.get("a.length")), _num(v.get("b.start")), _num(v.get("b.length")),
                      _num(v.get("h:x", 0))])
    # 2. replay search: small exhaustive neighbourhood (ranges differing at one end, empty operands, index at the edges,
    #    operands longer than the live range but within capacity)
    xs_needed = op in ("at", "set_offset", "fill")
    for amin in (0, -2, 3):
        for alen in (0, 1, 4):
            for bmin in (amin, amin + 1, amin - 2):
                for blen in (alen, alen + 3, max(alen - 1, 0), 0, alen + 5, alen + 7):
                    for x in ((amin - 1, amin, amin + alen - 1, amin + alen) if xs_needed else (0,)):
                        cands.append([amin, alen, bmin, blen, x])
    for c in cands[:700]:
        for extra in ((0, 0), (2, 5), (5, 0)):
            st, detail = run_native(exe, [op] + c + list(extra))
            tried.append(c)
            if st == "confirmed":
                return {"status": "confirmed", "detail": detail, "from_verifier_counterexample": c is cands[0] and "a.length" in v,
                        "command": "c11_replay %s %s %s" % (op, " ".join(map(str, c)), " ".join(map(str, extra))),
                        "build": "g++ -std=c++17 -fsanitize=address -DNDEBUG -I/repo/src/include -I/repo/_build/src/include replay/c11.cpp /repo/_build/src/buildblock/libbuildblock.a"}
    return {"status": "not-reproduced", "detail": "%d native inputs tried" % len(tried)}
