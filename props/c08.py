"""C08 - OSSPS: iterates within bounds, strictly positive denominator, relaxation schedule (DESIGN.md section 6, C08)."""
import os
import re

from vlib.runner import Job
from vlib import extract

VERIF = os.path.dirname(os.path.dirname(os.path.abspath(__file__)))
HARNESS = os.path.join(VERIF, "harness", "c08.c")
TH = "src/include/stir/thresholding.h"
OSSPS = "src/iterative/OSSPS/OSSPSReconstruction.cxx"
ITER = (r"for \(forw_iterT iter = begin;", "for (float* iter = begin;", 1)

def _lambda_to_ops(txt, v1, v2):
    """boost lambda expression over _1/_2 (+ - * / and plain operands) -> nested K_op(...) text"""
    import ast
    py = re.sub(r"(?<=[\d.])F\b", "", txt)
    tree = ast.parse(py.strip(), mode="eval").body
    ops = {ast.Mult: "OP_MUL", ast.Div: "OP_DIV", ast.Add: "OP_ADD", ast.Sub: "OP_SUB"}

    def emit(n):
        if isinstance(n, ast.BinOp) and type(n.op) in ops:
            return "K_op(%s, %s, %s)" % (ops[type(n.op)], emit(n.left), emit(n.right))
        if isinstance(n, ast.Name):
            return {"_1": v1, "_2": v2}.get(n.id, n.id)
        if isinstance(n, ast.Constant) and isinstance(n.value, (int, float)):
            return "%sF" % (repr(float(n.value)))
        raise extract.ExtractionError("update_estimate: lambda expression '%s' uses something other than + - * / over _1, _2, names and numbers" % txt)
    return emit(tree)


def _transform(m):
    in1, in2, outv, lam = m.group(1), m.group(2), m.group(3), m.group(4)
    if in2 is None and "_2" in lam:
        raise extract.ExtractionError("update_estimate: std::transform with one input range uses _2")
    return "V_%s = %s;" % (outv, _lambda_to_ops(lam, "V_" + in1, "V_" + (in2 or in1)))


KERNELS = [
    dict(name="K_threshold_upper_lower", file=TH, cxx_name="stir::threshold_upper_lower",
         func=r"threshold_upper_lower\(forw_iterT begin, forw_iterT end, const elemT new_min, const elemT new_max\)",
         c_header="void K_threshold_upper_lower(float* begin, float* end, const float new_min, const float new_max)", loops=1, rules=[ITER]),
    dict(name="K_threshold_upper", file=TH, cxx_name="stir::threshold_upper", func=r"threshold_upper\(forw_iterT begin, forw_iterT end, const elemT new_max\)",
         c_header="void K_threshold_upper(float* begin, float* end, const float new_max)", loops=1, rules=[ITER]),
    dict(name="K_threshold_lower", file=TH, cxx_name="stir::threshold_lower", func=r"threshold_lower\(forw_iterT begin, forw_iterT end, const elemT new_min\)",
         c_header="void K_threshold_lower(float* begin, float* end, const float new_min)", loops=1, rules=[ITER]),
    dict(name="K_min_positive_element", file="src/include/stir/min_positive_element.h", cxx_name="stir::min_positive_element",
         func=r"min_positive_element\(ForwardIter_t start, ForwardIter_t end\)",
         c_header="float* K_min_positive_element(float* start, float* end)", loops=2,
         rules=[(r"ForwardIter_t result = start;", "float* result = start;", 1)]),
    dict(name="K_threshold_min_to_small_positive_value", file=TH, cxx_name="stir::threshold_min_to_small_positive_value",
         func=r"threshold_min_to_small_positive_value\(ForwardIter_t begin, ForwardIter_t end, const elemT& small_number\)",
         c_header="void K_threshold_min_to_small_positive_value(float* begin, float* end, const float small_number)", loops=0,
         rules=[(r"const ForwardIter_t smallest_positive_element_iter = min_positive_element\(begin, end\);",
                 "float* const smallest_positive_element_iter = K_min_positive_element(begin, end);", 1),
                (r"\bthreshold_lower\(", "K_threshold_lower(", 1), (r"std::fill\(", "K_std_fill_f(", 1)]),
    dict(name="K_relaxation", file=OSSPS, cxx_name="OSSPSReconstruction<TargetT>::update_estimate: iteration number used in the relaxation statement",
         func=r"OSSPSReconstruction<TargetT>::update_estimate\(TargetT& current_image_estimate\)",
         span=(r"const float relaxation_parameter\s*=", r";"),
         c_header="int K_relaxation(const int subiteration_num, const int num_subsets, const int start_subiteration_num)", loops=0,
         post="return relaxation_iteration;", inline_local_consts=True,
         # the statement has the shape  alpha / (1 + gamma * (N_EXPR))  (counted rule = static fact); the kernel is N_EXPR
         rules=[(r"const float relaxation_parameter\s*=\s*this->relaxation_parameter / \(1 \+ this->relaxation_gamma \* \((.*)\)\);",
                 r"const int relaxation_iteration = (\1);", 1),
                (r"this->subiteration_num\b|this->get_subiteration_num\(\)", "subiteration_num", (1, 3)),
                (r"this->start_subiteration_num\b|this->get_start_subiteration_num\(\)", "start_subiteration_num", (0, 3)),
                (r"this->num_subsets\b|this->get_num_subsets\(\)", "num_subsets", (1, 2))]),
    dict(name="K_ossps_update_voxel", file=OSSPS, cxx_name="OSSPSReconstruction<TargetT>::update_estimate: from the multiplication with num_subsets to the additive update, for one voxel (statement kernel)",
         func=r"OSSPSReconstruction<TargetT>::update_estimate\(TargetT& current_image_estimate\)",
         span=(r"std::transform\(numerator_ptr->begin_all\(\), numerator_ptr->end_all\(\), numerator_ptr->begin_all\(\), _1 \* this->num_subsets\);", r"current_image_estimate \+= \*numerator_ptr;"),
         c_header="void K_ossps_update_voxel(const _Bool recompute_penalty_term_in_denominator, const _Bool prior_is_zero, const int subiteration_num, const int start_subiteration_num, "
                  "const int num_subsets, const _Bool write_update_image)", loops=0,
         rules=[(r"info\(boost::format\((?:\"[^\"]*\"|[^;\"])*\);", "", 5),
                (r"if \(write_update_image\)\s*\{.*?\n    \}", "", 1),
                (r"unique_ptr<TargetT> work_image_ptr\(current_image_estimate\.get_empty_copy\(\)\);", "float V_work_image_ptr = K_fresh_value();", 1),
                (r"static_cast<PriorWithParabolicSurrogate<TargetT>&>\(\*get_prior_ptr\(\)\)\s*\.parabolic_surrogate_curvature\(\*work_image_ptr, current_image_estimate\);",
                 "V_work_image_ptr = K_op(OP_CURV, V_current_image_estimate, 0.F);", 1),
                (r"this->num_subsets\b", "num_subsets", (1, 3)),
                # std::transform(in1.begin_all(), in1.end_all(), [in2.begin_all(),] out.begin_all(), <boost lambda over _1, _2>): the lambda's arithmetic
                # is translated operator by operator into logged operations on this voxel's values
                (r"std::transform\(\s*(\w+)->begin_all\(\),\s*\1->end_all\(\),\s*(?:(\w+)->begin_all\(\),\s*)?(\w+)->begin_all\(\),\s*([^;]*?)\);", _transform, (3, 8)),
                (r"\*work_image_ptr = \*precomputed_denominator_ptr;", "V_work_image_ptr = V_precomputed_denominator_ptr;", 1),
                (r"\*precomputed_denominator_ptr = \*work_image_ptr;", "V_precomputed_denominator_ptr = V_work_image_ptr;", 1),
                (r"threshold_min_to_small_positive_value\(work_image_ptr->begin_all\(\), work_image_ptr->end_all\(\), 10\.E-6F\);", "V_work_image_ptr = K_op(OP_THRESH, V_work_image_ptr, 10.E-6F);", 1),
                (r"current_image_estimate \+= \*numerator_ptr;", "V_current_image_estimate = K_op(OP_ADD, V_current_image_estimate, V_numerator_ptr);", 1),
                (r"const float relaxation_parameter\s*=\s*this->relaxation_parameter / \(1 \+ this->relaxation_gamma \* \(([^;]*)\)\);", r"const float relaxation_parameter = K_relax_value(\1);", 1),
                (r"this->get_subiteration_num\(\)|this->subiteration_num\b", "subiteration_num", (1, 3)), (r"this->get_start_subiteration_num\(\)", "start_subiteration_num", (1, 2)),
                (r"this->num_subsets\b", "num_subsets", (0, 2)), (r"this->objective_function_sptr->prior_is_zero\(\)", "prior_is_zero", 1)]),
    dict(name="K_ossps_clamp_tail", file=OSSPS, cxx_name="OSSPSReconstruction<TargetT>::update_estimate: block after the additive update ('now threshold image')",
         func=r"OSSPSReconstruction<TargetT>::update_estimate\(TargetT& current_image_estimate\)",
         span=(r"\{\s*const float current_min\b", r"\n  \}"),
         c_header="void K_ossps_clamp_tail(float* begin, float* end, const double upper_bound)", loops=0,
         rules=[(r"info\(boost::format\([^;]*;", "", (0, 2)),
                (r"\*std::min_element\(current_image_estimate\.begin_all\(\), current_image_estimate\.end_all\(\)\)", "K_min_elem(begin, end)", (0, 2)),
                (r"\*std::max_element\(current_image_estimate\.begin_all\(\), current_image_estimate\.end_all\(\)\)", "K_max_elem(begin, end)", (0, 2)),
                (r"current_image_estimate\.begin_all\(\)", "begin", (1, 4)), (r"current_image_estimate\.end_all\(\)", "end", (1, 4)),
                (r"static_cast<float>\(", "CAST(float, ", (1, 2)), (r"(?<![\w.>])threshold_(upper_lower|upper|lower)\(", r"K_threshold_\1(", (1, 3))]),
]

STATIC_FACTS = []


def extra_gen(repo, gen_dir, metas):
    """Supporting static fact (syntactic): after `current_image_estimate += *numerator_ptr;` the only statement of
    update_estimate that writes current_image_estimate is threshold_upper_lower(begin_all, end_all, 0.F, float(upper_bound))."""
    del STATIC_FACTS[:]
    src = extract.strip_comments(open(os.path.join(repo, OSSPS)).read())
    start, bo, bc = extract.find_function(src, r"OSSPSReconstruction<TargetT>::update_estimate\(TargetT& current_image_estimate\)")
    body = src[bo:bc]
    m = re.search(r"current_image_estimate \+= \*numerator_ptr;", body)
    if not m:
        raise extract.ExtractionError("update_estimate: additive update statement not found")
    tail = body[m.end():]
    blk = re.search(r"\{\s*const float current_min\b.*?\n  \}", tail, flags=re.S)
    if not blk:
        raise extract.ExtractionError("update_estimate: block 'now threshold image' not found after the additive update")
    rest = tail[:blk.start()] + tail[blk.end():]
    if "current_image_estimate" in rest:
        raise extract.ExtractionError("update_estimate: the image is used after the additive update outside the thresholding block (kernel K_ossps_clamp_tail)")
    STATIC_FACTS.append("OSSPSReconstruction::update_estimate: after 'current_image_estimate += *numerator_ptr' the image is only used inside the block "
                        "that kernel K_ossps_clamp_tail extracts (syntactic scan)")
    n = len(re.findall(r"threshold_min_to_small_positive_value\(work_image_ptr->begin_all\(\), work_image_ptr->end_all\(\), 10\.E-6F\);", body))
    if n != 1:
        raise extract.ExtractionError("update_estimate: denominator is no longer thresholded by threshold_min_to_small_positive_value(..., 10.E-6F) exactly once")
    STATIC_FACTS.append("the relaxation statement has the shape relaxation_parameter / (1 + relaxation_gamma * (n)); the kernel K_relaxation is the "
                        "integer expression n (counted extraction rule)")
    STATIC_FACTS.append("the denominator work image is passed through threshold_min_to_small_positive_value(..., 10.E-6F) before the division (syntactic scan)")
    metas.append({"kernel": "static facts", "file": OSSPS, "function": "update_estimate tail", "facts": list(STATIC_FACTS)})


SUBSETS = {"quick": [1, 2, 3, 4, 7, 8, 12, 16], "thorough": list(range(1, 33)) + [48, 64, 96]}
CHK = ["--signed-overflow-check", "--div-by-zero-check", "--bounds-check", "--pointer-check"]


def jobs(tier, gen_dir):
    out = []

    def enforce(k, repl=(), lc=True, suffix="", **kw):
        out.append(Job("c08/" + k + suffix, HARNESS, "h_" + k, enforce=k, replace=list(repl), loop_contracts=lc, kernels=[k], flags=kw.pop("flags", CHK),
                       no_base_flags=True, min_obligations=3, timeout=300, backend=kw.pop("backend", "sat"), **kw))

    for k in ("K_threshold_upper_lower", "K_threshold_upper", "K_threshold_lower"):
        enforce(k)
    enforce("K_ossps_clamp_tail", repl=["K_threshold_upper_lower", "K_threshold_upper", "K_threshold_lower", "K_min_elem", "K_max_elem"], lc=False)
    enforce("K_ossps_update_voxel", lc=False, object_bits=10)
    out.append(Job("c08/canary/K_ossps_update_voxel", HARNESS, "h_K_ossps_update_voxel", enforce="K_ossps_update_voxel", kernels=["K_ossps_update_voxel"], kind="canary",
                   defines={"CANARY_K_ossps_update_voxel": None}, expect_fail=r"K_ossps_update_voxel\.postcondition", no_base_flags=True, timeout=300, object_bits=10))
    # strictly positive denominator: real bodies of threshold_min_to_small_positive_value, min_positive_element, threshold_lower and the
    # std::fill model, sequences of at most 6 elements, loops unwound (BOUNDED stand-in: "no NaN anywhere" needs a quantifier)
    out.append(Job("c08/bounded_positive_denominator", HARNESS, "h_bounded_positive_denominator", kind="lemma",
                   kernels=["K_threshold_min_to_small_positive_value", "K_min_positive_element", "K_threshold_lower"], flags=CHK, no_base_flags=True,
                   min_obligations=3, timeout=300, backend="sat", unwind=8, bounded="sequence length <= 6 (loops unwound 8 times with unwinding assertions)"))
    for S in SUBSETS[tier]:
        enforce("K_relaxation", lc=False, suffix="/S=%d/not-last-subiteration" % S, defines={"C08_S": S},
                params={"num_subsets": S, "sub-iteration": "not the last of a full iteration"})
        enforce("K_relaxation", lc=False, suffix="/S=%d/last-subiteration" % S, defines={"C08_S": S, "C08_LAST_OF_ITERATION": None},
                params={"num_subsets": S, "sub-iteration": "last of a full iteration"})
    for k in ("K_threshold_upper_lower", "K_relaxation"):
        out.append(Job("c08/canary/" + k, HARNESS, "h_" + k, enforce=k, kernels=[k], kind="canary", loop_contracts=k != "K_relaxation",
                       defines={"CANARY_" + k: None}, expect_fail=r"%s\.postcondition" % k, no_base_flags=True, timeout=300))
    return out


TRUSTED = ["iterators are pointers into one float array (begin_all()/end_all() of a contiguous image)",
           "std::fill modelled by K_std_fill_f (verified against its contract)"]
ASSUMPTIONS = ["domain: no NaN in the sequences; sequence length <= 4096 (loop contracts: unbounded in the loop, bounded by the array object)",
               "threshold_min_to_small_positive_value: positive elements >= 1e-30 (otherwise smallest*small_number may underflow to 0)"]
UNDECIDED_CLAUSES = ["the additive update formula itself (gradient, curvature: array expressions through virtual objective-function calls)",
                     "restart equivalence", "that current_image_estimate is contiguous (begin_all/end_all as pointers)"]


def param_summary(tier):
    return {"sequence length": "symbolic <= 4096", "bounds": "all floats (no NaN), new_min <= new_max", "relaxation": "alpha, gamma in [0,1e6], sub-iteration <= 10^6, subsets <= 1000"}


# ---------------- native replay (header-only, real templates) ----------------
import subprocess


def replay(job, o, workroot, repo):
    if "update_voxel" in job.name:
        from vlib import native
        exe = os.path.join(workroot, "c08_ossps_replay")
        if not os.path.exists(exe):
            exe, info = native.build(repo, os.path.join(VERIF, "replay", "c08_ossps.cpp"), exe)
            if not exe:
                return {"status": "unavailable", "detail": "replay driver did not build: " + info}
        for mode in (["formula"], []):
            st, detail = native.run(exe, mode, timeout=900)
            if st == "confirmed":
                return {"status": "confirmed", "detail": detail, "command": "c08_ossps_replay " + " ".join(mode), "from_verifier_counterexample": False}
        return {"status": "not-reproduced", "detail": "c08_ossps_replay formula: first sub-iteration of 3 OSSPS configurations against the formula (" + str(detail)[:120] + ")"}
    if "relaxation" in job.name:
        # resume clause: a run resumed at sub-iteration k+1 must continue the schedule of the uninterrupted run
        from vlib import native
        exe = os.path.join(workroot, "c08_ossps_replay")
        if not os.path.exists(exe):
            exe, info = native.build(repo, os.path.join(VERIF, "replay", "c08_ossps.cpp"), exe)
            if not exe:
                return {"status": "unavailable", "detail": "replay driver did not build: " + info}
        st, detail = native.run(exe, [], timeout=900)
        if st == "confirmed":
            return {"status": "confirmed", "detail": detail, "command": "c08_ossps_replay", "from_verifier_counterexample": False}
        return {"status": "not-reproduced", "detail": "c08_ossps_replay: 4 OSSPS configurations, resumed vs uninterrupted run (" + str(detail)[:120] + "); the relaxation statement "
                                                      "itself is local to update_estimate"}
    exe = os.path.join(workroot, "c08_replay")
    if not os.path.exists(exe):
        cmd = ["g++", "-std=c++17", "-g", "-O1", "-DNDEBUG", "-I", os.path.join(repo, "src/include"), "-I", os.path.join(repo, "_build/src/include"),
               os.path.join(VERIF, "replay", "c08.cpp"), os.path.join(repo, "_build/src/buildblock/libbuildblock.a"), "-o", exe]
        p = subprocess.run(cmd, capture_output=True, text=True, timeout=900)
        if p.returncode != 0:
            return {"status": "unavailable", "detail": "replay driver did not compile: " + p.stderr[-600:]}
    p = subprocess.run([exe], capture_output=True, text=True, timeout=600)
    if p.returncode == 1 and "CONFIRMED" in p.stdout:
        return {"status": "confirmed", "detail": p.stdout.strip().splitlines()[-1], "command": "c08_replay", "from_verifier_counterexample": False}
    return {"status": "not-reproduced", "detail": "c08_replay: all sequences of length <= 3 over 8 special values"}
