"""C06 - ordered subsets partition the data; every subset once per iteration (DESIGN.md section 6, C06)."""
import os

from vlib.runner import Job

VERIF = os.path.dirname(os.path.dirname(os.path.abspath(__file__)))
HARNESS = os.path.join(VERIF, "harness", "c06.c")
INL = "src/include/stir/recon_buildblock/DataSymmetriesForBins_PET_CartesianGrid.inl"
MEMBERS = (r"(?<![\w>.])(do_symmetry_90degrees_min_phi|do_symmetry_180degrees_min_phi|do_symmetry_swap_segment|do_symmetry_swap_s|do_symmetry_shift_z|num_views)\b",
           r"self->\1", (1, 99))

PLL = "src/recon_buildblock/PoissonLogLikelihoodWithLinearModelForMeanAndProjData.cxx"
KERNELS = [
    dict(name="K_find_basic_vs", file=INL, cxx_name="DataSymmetriesForBins_PET_CartesianGrid::find_basic_view_segment_numbers",
         func=r"DataSymmetriesForBins_PET_CartesianGrid::find_basic_view_segment_numbers\(ViewSegmentNumbers& v_s\) const",
         c_header="_Bool K_find_basic_vs(const struct SYM* self, struct VS* v_s)", loops=0,
         rules=[(r"v_s\.segment_num\(\)", "v_s->segment_num", (3, 5)), (r"v_s\.view_num\(\)", "v_s->view_num", (10, 20)), MEMBERS]),
    dict(name="K_num_related", file=INL, cxx_name="DataSymmetriesForBins_PET_CartesianGrid::num_related_view_segment_numbers",
         func=r"DataSymmetriesForBins_PET_CartesianGrid::num_related_view_segment_numbers\(const ViewSegmentNumbers& vs\) const",
         c_header="int K_num_related(const struct SYM* self, const struct VS* vs)", loops=0,
         rules=[(r"vs\.view_num\(\)", "vs->view_num", 2), (r"vs\.segment_num\(\)", "vs->segment_num", 1), MEMBERS]),
    dict(name="K_get_related", file=INL, cxx_name="DataSymmetriesForBins_PET_CartesianGrid::get_related_view_segment_numbers",
         func=r"DataSymmetriesForBins_PET_CartesianGrid::get_related_view_segment_numbers\(std::vector<ViewSegmentNumbers>& rel_vs,\s*const ViewSegmentNumbers& vs\) const",
         c_header="void K_get_related(const struct SYM* self, struct VSVEC* rel_vs, const struct VS* vs)", loops=0,
         rules=[(r"vs\.segment_num\(\)", "vs->segment_num", 1), (r"vs\.view_num\(\)", "vs->view_num", 1),
                # reserve() has no effect on the contents: dropped
                (r"rel_vs\.reserve\(num_related_view_segment_numbers\(vs\)\);", "", 1),
                (r"rel_vs\.resize\(0\);", "rel_vs->n = 0;", 1),
                # release-build no-op; the same fact is the obligation of lemma_related_count / the n == num_related postcondition
                (r"assert\(rel_vs\.size\(\) == static_cast<unsigned>\(num_related_view_segment_numbers\(vs\)\)\);", "", 1),
                (r"rel_vs\.push_back\(ViewSegmentNumbers\(([^,()]+), ([^,()]+)\)\);", r"K_vsvec_push(rel_vs, \1, \2);", 8),
                MEMBERS]),
    dict(name="K_is_basic", file="src/buildblock/DataSymmetriesForViewSegmentNumbers.cxx",
         cxx_name="DataSymmetriesForViewSegmentNumbers::is_basic",
         func=r"DataSymmetriesForViewSegmentNumbers::is_basic\(const ViewSegmentNumbers& v_s\) const",
         c_header="_Bool K_is_basic(const struct SYM* self, const struct VS* v_s)", loops=0,
         rules=[(r"ViewSegmentNumbers copy = v_s;", "struct VS copy = *v_s;", 1),
                (r"find_basic_view_segment_numbers\(copy\)", "K_find_basic_vs(self, &copy)", 1)]),
    dict(name="K_find_basic_vs_nums_in_subset", file="src/recon_buildblock/find_basic_vs_nums_in_subset.cxx",
         cxx_name="detail::find_basic_vs_nums_in_subset",
         func=r"find_basic_vs_nums_in_subset\(const ProjDataInfo& proj_data_info,\s*const DataSymmetriesForViewSegmentNumbers& symmetries,\s*"
              r"const int min_segment_num,\s*const int max_segment_num,\s*const int subset_num,\s*const int num_subsets\)",
         c_header="void K_find_basic_vs_nums_in_subset(const struct PDI* pdi, const int min_segment_num, const int max_segment_num, "
                  "const int subset_num, const int num_subsets)", loops=3,
         rules=[(r"std::vector<ViewSegmentNumbers> vs_nums_to_process;", "", 1),
                (r"proj_data_info\.get_(min|max)_(tof_pos|view)_num\(\)", r"pdi->\1_\2_num", 4),
                (r"const ViewSegmentNumbers view_segment_num\(view, segment_num\);", "", 1),
                (r"symmetries\.is_basic\(view_segment_num\)", "K_is_basic_ghost(view, segment_num)", 1),
                (r"vs_nums_to_process\.push_back\(view_segment_num\);", "K_OUT_PUSH(view, segment_num);", 1),
                (r"return vs_nums_to_process;", "return;", 1)]),
    dict(name="K_balanced_count", file=PLL, cxx_name="PoissonLogLikelihoodWithLinearModelForMeanAndProjData::actual_subsets_are_approximately_balanced: counting loops (statement kernel)",
         func=r"PoissonLogLikelihoodWithLinearModelForMeanAndProjData<TargetT>::actual_subsets_are_approximately_balanced\(\s*std::string& warning_message\) const",
         span=(r"for \(int subset_num = 0; subset_num < this->num_subsets; \+\+subset_num\)", r"num_related_view_segment_numbers\(view_segment_num\);\s*\}\s*\}"),
         c_header="void K_balanced_count(const struct PDI* pdi, const int num_subsets, const int max_segment_num_to_process)", loops=3,
         rules=[(r"this->num_subsets", "num_subsets", 2), (r"this->max_segment_num_to_process", "max_segment_num_to_process", 2),
                (r"this->proj_data_sptr->get_(min|max)_view_num\(\)", r"pdi->\1_view_num", 2),
                (r"const ViewSegmentNumbers view_segment_num\(view_num, segment_num\);", "", 1),
                (r"symmetries\.is_basic\(view_segment_num\)", "K_is_basic_ghost(view_num, segment_num)", 1),
                (r"num_vs_in_subset\[subset_num\] \+= symmetries\.num_related_view_segment_numbers\(view_segment_num\);",
                 "K_COUNT_ADD(subset_num, view_num, segment_num, K_num_related_ghost(view_num, segment_num));", 1)]),
    dict(name="K_balanced_verdict", file=PLL, cxx_name="PoissonLogLikelihoodWithLinearModelForMeanAndProjData::actual_subsets_are_approximately_balanced: verdict loop (statement kernel)",
         func=r"PoissonLogLikelihoodWithLinearModelForMeanAndProjData<TargetT>::actual_subsets_are_approximately_balanced\(\s*std::string& warning_message\) const",
         span=(r"for \(int subset_num = 1; subset_num < this->num_subsets; \+\+subset_num\)", r"return true;"),
         c_header="_Bool K_balanced_verdict(const int* num_vs_in_subset, const int num_subsets)", loops=1,
         rules=[(r"this->num_subsets", "num_subsets", 1),
                (r"std::stringstream str\(warning_message\);.*?warning_message = str\.str\(\);", "K_RECORD_WITNESS(subset_num);", 1),
                (r"\btrue\b", "1", 1), (r"\bfalse\b", "0", 1)]),
    dict(name="K_ir_reconstruct_loop", file="src/recon_buildblock/IterativeReconstruction.cxx", cxx_name="IterativeReconstruction<TargetT>::reconstruct: the sub-iteration loop (statement kernel)",
         func=r"IterativeReconstruction<TargetT>::reconstruct\(shared_ptr<TargetT> const& target_data_sptr\)",
         span=(r"for \(subiteration_num = start_subiteration_num;", r"this->end_of_iteration_processing\(\*target_data_sptr\);\s*\}"),
         c_header="void K_ir_reconstruct_loop(struct IRL* self)", loops=1,
         rules=[(r"(?<![\w>.])(subiteration_num|start_subiteration_num|num_subiterations)\b", r"self->\1", (4, 6)), (r"this->terminate_iterations", "self->terminate_iterations", 1),
                (r"== false", "== 0", 1), (r"this->update_estimate\(\*target_data_sptr\);", "K_call_update_estimate(self);", 1),
                (r"this->end_of_iteration_processing\(\*target_data_sptr\);", "K_call_end_of_iteration_processing(self);", 1)]),
    dict(name="K_randomly_permute_subset_order", file="src/recon_buildblock/IterativeReconstruction.cxx",
         cxx_name="IterativeReconstruction<TargetT>::randomly_permute_subset_order",
         func=r"IterativeReconstruction<TargetT>::randomly_permute_subset_order\(\) const",
         c_header="void K_randomly_permute_subset_order(const struct IR* self, struct IVEC* out)", loops=3,
         rules=[  # VectorWithOffset<int>(n) has the index range [0,n) (C11); the returned vector is written in place (out->e), its length is n
                (r"VectorWithOffset<int> temp_array\(this->num_subsets\), final_array\(this->num_subsets\);",
                 "int temp_array[RP_N]; int* const final_array = out->e; out->n = self->num_subsets;", 1),
                # the log message does not change the result: dropped (exact count)
                (r"\{\s*std::stringstream s;.*?info\(s\.str\(\), 2\);\s*\}", "", 1),
                (r"\brand\(\)", "K_rand()", 1),
                (r"return final_array;", "return;", 1),
                (r"\bthis->", "self->", (4, 12))]),
    dict(name="K_get_subset_num", file="src/recon_buildblock/IterativeReconstruction.cxx",
         cxx_name="IterativeReconstruction<TargetT>::get_subset_num",
         func=r"IterativeReconstruction<TargetT>::get_subset_num\(\)", c_header="int K_get_subset_num(struct IR* self)", loops=0,
         rules=[(r"this->_current_subset_array = this->randomly_permute_subset_order\(\);",
                 "{ struct IVEC K_tmp; K_randomly_permute_subset_order(self, &K_tmp); self->_current_subset_array = K_tmp; ++g_regen; }", 1),  # returns by value, then assigned
                (r"this->_current_subset_array\[([^\]]+)\]", r"K_ivec_at(&self->_current_subset_array, \1)", 1),
                (r"this->_current_subset_array\.get_length\(\)", "self->_current_subset_array.n", (0, 2)),
                (r"\bthis->", "self->", (5, 12))]),
]

from props.c03 import KERNELS_C as _SYMCTOR  # the constructor kernels (specs shared with C03)
KERNELS += _SYMCTOR
HARNESS_S = os.path.join(VERIF, "harness", "c06s.c")
CHK = ["--signed-overflow-check", "--div-by-zero-check", "--bounds-check", "--pointer-check"]
STATIC_FACTS = []


RPSO_MAX = 96  # largest number of subsets for which the permutation kernel's invariants are generated


def _rpso_headers(gen_dir):
    """Loop invariants of K_randomly_permute_subset_order quantify over the (constant, per job) number of subsets N; they are written out
    as finite conjunctions per N (CBMC's SAT back end has no reliable forall). T = temp_array, V(k) = T without the slot j being shifted."""
    for N in range(1, RPSO_MAX + 1):
        conj = lambda terms: " && ".join(terms) if terms else "1"
        T = lambda k: "temp_array[%d]" % k
        V = lambda k: "(%d < (j) ? temp_array[%d] : temp_array[%d])" % (k, k, k + 1)
        L = ["/* generated by props/c06.py for N = %d */" % N]
        L.append("#define RP_INIT(i) (%s)" % conj(["(!(%d < (i)) || %s == %d)" % (k, T(k), k) for k in range(N)]))
        L.append("#define RP_RANGE(m) (%s)" % conj(["(!(%d < (m)) || (0 <= %s && %s < %d))" % (k, T(k), T(k), N) for k in range(N)]))
        L.append("#define RP_VRANGE(m, j) (%s)" % conj(["(!(%d < (m)) || (0 <= %s && %s < %d))" % (k, V(k), V(k), N) for k in range(N - 1)]))
        summ = lambda terms: " + ".join(terms) if terms else "0"
        L.append("#define RP_COUNT_T(m, g) (%s)" % summ(["((%d < (m) && %s == (g)) ? 1 : 0)" % (k, T(k)) for k in range(N)]))
        L.append("#define RP_COUNT_V(m, j, g) (%s)" % summ(["((%d < (m) && %s == (g)) ? 1 : 0)" % (k, V(k)) for k in range(N - 1)]))
        L.append("#define RP_COUNT_F(i, g) (%s)" % summ(["((%d < (i) && out->e[%d] == (g)) ? 1 : 0)" % (k, k) for k in range(N)]))
        L.append("#define RP_COUNT_P(p, g) (%s)" % summ(["(((p)->e[%d] == (g)) ? 1 : 0)" % k for k in range(N)]))
        open(os.path.join(gen_dir, "rpso_inv_%d.h" % N), "w").write("\n".join(L) + "\n")


def extra_gen(repo, gen_dir, metas):
    """Supporting static fact (syntactic scan, not a proof obligation): the two update_estimate bodies take the subset from
    get_subset_num() once and hand exactly that value to every call that has a subset argument."""
    import re
    from vlib import extract
    del STATIC_FACTS[:]
    _rpso_headers(gen_dir)
    for rel, cls in (("src/iterative/OSMAPOSL/OSMAPOSLReconstruction.cxx", "OSMAPOSLReconstruction"), ("src/iterative/OSSPS/OSSPSReconstruction.cxx", "OSSPSReconstruction")):
        src = extract.strip_comments(open(os.path.join(repo, rel)).read())
        start, bo, bc = extract.find_function(src, r"%s<TargetT>::update_estimate\(TargetT& current_image_estimate\)" % cls)
        body = src[bo:bc]
        if len(re.findall(r"const int subset_num = this->get_subset_num\(\);", body)) != 1 or len(re.findall(r"get_subset_num\(\)", body)) != 1:
            raise extract.ExtractionError("%s::update_estimate: 'const int subset_num = this->get_subset_num();' not found exactly once" % cls)
        calls = re.findall(r"(compute_sub_gradient\w*|get_subset_sensitivity|add_multiplication_with_approximate_sub_Hessian\w*)\(([^;]*)\);", body)
        for fn, args in calls:
            last = args.split(",")[-1].strip()
            if last != "subset_num":
                raise extract.ExtractionError("%s::update_estimate: %s(...) is not called with subset_num as its subset argument (%s)" % (cls, fn, last))
        if not calls:
            raise extract.ExtractionError("%s::update_estimate: no call with a subset argument found" % cls)
        STATIC_FACTS.append("%s::update_estimate: subset_num = get_subset_num() once; %d calls with a subset argument, all pass subset_num (syntactic scan)" % (cls, len(calls)))
    metas.append({"kernel": "static facts", "file": "src/iterative/*/…Reconstruction.cxx", "function": "update_estimate", "facts": list(STATIC_FACTS)})


def jobs(tier, gen_dir):
    out = []
    TO = 300 if tier == "quick" else 1800  # the thorough tier runs every num_subsets in 1..96; some prime values need more than 300 s under load

    def enforce(k, repl=(), lc=False, **kw):
        out.append(Job("c06/" + k + kw.pop("suffix", ""), HARNESS, "h_" + k, enforce=k, replace=list(repl), loop_contracts=lc, kernels=[k],
                       flags=CHK, no_base_flags=True, min_obligations=3, timeout=kw.pop("timeout", TO), object_bits=10, backend=kw.pop("backend", "kissat"), **kw))

    enforce("K_find_basic_vs")
    enforce("K_num_related")
    enforce("K_is_basic")
    enforce("K_get_related")
    subsets = list(range(1, 97)) if tier == "thorough" else [1, 2, 3, 4, 5, 6, 7, 8, 9, 10, 12, 14, 16, 18, 21, 24, 28, 32, 36, 42, 48, 56, 64, 72, 84, 96]
    for S in subsets:
        enforce("K_find_basic_vs_nums_in_subset", repl=["K_is_basic_ghost"], lc=True, suffix="/S=%d" % S, defines={"C06_S": S, "C06_MAXVIEWS": 1024},
                params={"num_subsets": S})
    for S in subsets:
        enforce("K_balanced_count", repl=["K_is_basic_ghost", "K_num_related_ghost"], lc=True, suffix="/S=%d" % S, defines={"C06_S": S, "C06_MAXVIEWS": 1024},
                params={"num_subsets": S})
        enforce("K_balanced_verdict", lc=True, suffix="/S=%d" % S, defines={"C06_S": S}, params={"num_subsets": S})
    for S in ([1, 2, 3, 4, 5, 6, 8, 12, 16, 24] if tier == "quick" else list(range(1, 49)) + [64]):
        enforce("K_randomly_permute_subset_order", lc=True, suffix="/S=%d" % S, defines={"C06_S": S}, params={"num_subsets": S}, backend="kissat", timeout=900 if tier == "quick" else 2400)
    out.append(Job("c06/canary/K_randomly_permute_subset_order", HARNESS, "h_K_randomly_permute_subset_order", enforce="K_randomly_permute_subset_order",
                   kernels=["K_randomly_permute_subset_order"], kind="canary", defines={"CANARY_K_randomly_permute_subset_order": None, "C06_S": 4}, loop_contracts=True,
                   expect_fail=r"K_randomly_permute_subset_order\.postcondition", no_base_flags=True, timeout=300, object_bits=10))
    for S in subsets:
        enforce("K_get_subset_num", repl=["K_randomly_permute_subset_order"], suffix="/S=%d" % S, defines={"C06_S": S}, params={"num_subsets": S})
        if S <= 24 or tier == "thorough":
            out.append(Job("c06/lemma_schedule_random/S=%d" % S, HARNESS, "h_lemma_schedule_random", kind="lemma", kernels=["K_get_subset_num"], flags=CHK,
                           no_base_flags=True, min_obligations=1, timeout=TO, object_bits=10, replace=["K_get_subset_num"],
                           defines={"C06_S": S}, params={"num_subsets": S}, backend="kissat"))
        out.append(Job("c06/lemma_schedule/S=%d" % S, HARNESS, "h_lemma_schedule", kind="lemma", kernels=["K_get_subset_num"], flags=CHK,
                       no_base_flags=True, min_obligations=1, timeout=TO, object_bits=10, replace=["K_get_subset_num"],
                       defines={"C06_S": S}, params={"num_subsets": S}, backend="kissat"))
    # the class invariant SYM_VALID: established by the constructor (cylindrical branch)
    for k, lc in (("K_sym_ctor_init", False), ("K_sym_ctor_flags", True)):
        out.append(Job("c06/" + k, HARNESS_S, "h_" + k, enforce=k, kernels=[k], flags=CHK, no_base_flags=True, timeout=120, min_obligations=3, backend="kissat", loop_contracts=lc,
                       replay="symctor"))
    out.append(Job("c06/lemma_sym_valid", HARNESS_S, "h_lemma_sym_valid", kind="lemma", kernels=["K_sym_ctor_init", "K_sym_ctor_flags"], replace=["K_sym_ctor_init", "K_sym_ctor_flags"],
                   flags=CHK, no_base_flags=True, timeout=120, min_obligations=2, backend="kissat"))
    out.append(Job("c06/canary/K_sym_ctor_flags", HARNESS_S, "h_K_sym_ctor_flags", enforce="K_sym_ctor_flags", kernels=["K_sym_ctor_flags"], kind="canary", loop_contracts=True,
                   defines={"CANARY_K_sym_ctor_flags": None}, expect_fail=r"K_sym_ctor_flags\.postcondition", no_base_flags=True, timeout=120))
    out.append(Job("c06/canary/lemma_schedule_random", HARNESS, "h_lemma_schedule_random", kind="canary", kernels=[], replace=["K_get_subset_num"], defines={"LEMMA_CANARY": None, "C06_S": 4},
                   flags=[], no_base_flags=True, expect_fail=r"vacuity canary", timeout=300, object_bits=10))
    enforce("K_ir_reconstruct_loop", lc=True)
    out.append(Job("c06/canary/K_ir_reconstruct_loop", HARNESS, "h_K_ir_reconstruct_loop", enforce="K_ir_reconstruct_loop", kernels=["K_ir_reconstruct_loop"], kind="canary",
                   defines={"CANARY_K_ir_reconstruct_loop": None}, loop_contracts=True, expect_fail=r"K_ir_reconstruct_loop\.postcondition", no_base_flags=True, timeout=300,
                   object_bits=10, backend="kissat"))
    for lem in ("idempotent", "complete", "related_count", "subset_unique"):
        out.append(Job("c06/lemma_" + lem, HARNESS, "h_lemma_" + lem, kind="lemma", kernels=[], flags=CHK, no_base_flags=True,
                       min_obligations=1, timeout=300, object_bits=10, backend="kissat"))
    for k in ("K_balanced_count", "K_balanced_verdict"):
        out.append(Job("c06/canary/" + k, HARNESS, "h_" + k, enforce=k, kernels=[k], kind="canary", defines={"CANARY_" + k: None, "C06_S": 6, "C06_MAXVIEWS": 1024},
                       replace=["K_is_basic_ghost", "K_num_related_ghost"] if k == "K_balanced_count" else [], loop_contracts=True,
                       expect_fail=r"%s\.postcondition" % k, no_base_flags=True, timeout=300, object_bits=10, backend="kissat"))
    for k in ("K_find_basic_vs", "K_get_related", "K_find_basic_vs_nums_in_subset", "K_get_subset_num"):
        out.append(Job("c06/canary/" + k, HARNESS, "h_" + k, enforce=k, kernels=[k], kind="canary", defines={"CANARY_" + k: None, "C06_S": 6},
                       replace=["K_is_basic_ghost"] if "subset" in k and "nums" in k else (["K_randomly_permute_subset_order"] if k == "K_get_subset_num" else []),
                       loop_contracts="nums_in" in k, expect_fail=r"%s\.postcondition" % k, no_base_flags=True, timeout=300, object_bits=10))
    return out


TRUSTED = [
    "std::vector<ViewSegmentNumbers> modelled as a bounded array (capacity 8 asserted) / as ghost counters for the subset output",
    "SYM_VALID is what the DataSymmetriesForBins_PET_CartesianGrid constructor establishes: proved here (kernels K_sym_ctor_init / K_sym_ctor_flags, lemma_sym_valid; float and dynamic_cast conditions nondeterministic) for cylindrical scanners, assumed for BlocksOnCylindrical",
    "view range of the data is [0,num_views) when view symmetries are enabled; segment range symmetric when swap_segment is enabled",
    "rand() returns a value in [0, RAND_MAX] (C standard; RAND_MAX = 2^31-1 as in glibc)",
    "callers loop over all TOF bins around the view-segment list (not checked here)",
]
ASSUMPTIONS = ["domain: num_views <= 4096, |segment| <= 100000, num_subsets <= 4096"]
UNDECIDED_CLAUSES = ["that the per-subset total is the SUM of the contributions proved for each pair (additive accumulation read from the single '+=' statement)",
                     "that every update_estimate implementation passes get_subset_num()'s value to the objective function (OSMAPOSL/OSSPS bodies)",
                     "TrivialDataSymmetriesForBins / other symmetry classes"]


def param_summary(tier):
    return {"num_views": "symbolic <= 4096", "num_subsets": "symbolic <= 4096", "symmetry switches": "symbolic (all valid combinations)"}


# ---------------- native replay ----------------
import re
from vlib import native


def _num(v, d=0):
    m = re.match(r"^-?\d+", str(v))
    return int(m.group(0)) if m else d


def replay(job, o, workroot, repo):
    exe = os.path.join(workroot, "c06_replay")
    if not os.path.exists(exe):
        exe, info = native.build(repo, os.path.join(VERIF, "replay", "c06.cpp"), exe)
        if not exe:
            return {"status": "unavailable", "detail": "replay driver did not build: " + info}
    kern = job.kernels[0] if job.kernels else ""
    S = job.params.get("num_subsets", 4)
    cands = []
    sub = None
    nvc = None
    if kern == "K_get_subset_num":
        v = o.get("inputs", {})
        # counterexample of the verifier first (sub-iteration number / flags are fields of the fresh IR object)
        sub = next((_num(val) for k, val in v.items() if k.endswith("subiteration_num")), None)
        rnd = next((_num(val) if not str(val).upper().startswith("T") else 1 for k, val in v.items() if k.endswith("randomise_subset_order")), 1)
        st = next((_num(val) for k, val in v.items() if k.endswith("start_subset_num")), 0)
        if sub is not None:
            cands.append(["subset_num", S, max(sub, 1), st % max(S, 1), 1 if rnd else 0, 2 * S + 1])
        for start in (2, S, S + 1, 1):
            for r in (1, 0):
                cands.append(["subset_num", S, start, 0, r, 3 * S])
        # randomised order with a non-zero start subset, many full iterations (the permutation is random: repeat)
        for SS in sorted({S, 3, 5, 8, 12}):
            for stt in range(1, SS):
                cands.append(["subset_num", SS, 1, stt, 1, 12 * SS])
    elif kern == "K_randomly_permute_subset_order":
        for SS in sorted({S, 2, 3, 5, 8, 13}):
            cands.append(["subset_num", SS, 1, 0, 1, 6 * SS])
    elif kern in ("K_sym_ctor_init", "K_sym_ctor_flags"):
        for nv in (6, 10, 14, 8, 12, 5, 7, 30):
            for flags in ((1, 1, 1), (0, 1, 1), (1, 0, 0)):
                cands.append(["partition", nv, min(S if isinstance(S, int) else 3, nv), 1] + list(flags))
    elif kern in ("K_balanced_count", "K_balanced_verdict"):
        # no direct counterexample mapping (the verdict loop's array is symbolic): sweep view counts around the job's number of subsets
        for nv in (8, 12, 16, 6, 10, 20, 24, 30, 32, 36, 48):
            for flags in ((1, 1, 1), (0, 1, 1), (0, 0, 0)):
                for SS in sorted({S, 3, 4, 5, 13}):
                    if SS <= nv:
                        cands.append(["balanced", nv, SS] + list(flags))
    else:
        v = o.get("inputs", {})
        tf = lambda key, d: next((1 if str(val).upper().startswith("T") else 0 for k, val in v.items() if k.endswith(key)), d)
        nvc = next((_num(val) for k, val in v.items() if k.endswith(".num_views")), None)
        if nvc and 1 <= nvc <= 256:  # the verifier's counterexample configuration first
            cands.append(["partition", nvc, min(S, nvc), 2, tf("do_symmetry_90degrees_min_phi", 0), tf("do_symmetry_180degrees_min_phi", 0),
                          tf("do_symmetry_swap_segment", 0)])
        for nv in (8, 12, 16, 30, 6, 10):
            for flags in ((1, 1, 1), (0, 1, 1), (0, 0, 1), (0, 0, 0)):
                cands.append(["partition", nv, min(S, nv), 2] + list(flags))
    for c in cands:
        st, detail = native.run(exe, c)
        if st == "confirmed":
            return {"status": "confirmed", "detail": detail, "command": "c06_replay " + " ".join(map(str, c)),
                    "from_verifier_counterexample": c is cands[0] and ((kern == "K_get_subset_num" and sub is not None) or (kern not in ("K_get_subset_num", "K_balanced_count", "K_balanced_verdict", "K_sym_ctor_init", "K_sym_ctor_flags") and bool(nvc)))}
    return {"status": "not-reproduced", "detail": "%d native runs" % len(cands)}
