"""C10 - image files round-trip values: the quantisation core of scaled integer output (DESIGN.md section 6, C10)."""
import os

from vlib.runner import Job
from vlib import extract

VERIF = os.path.dirname(os.path.dirname(os.path.abspath(__file__)))
HARNESS = os.path.join(VERIF, "harness", "c10.c")
F = "src/include/stir/convert_range.inl"

KERNELS = [
    dict(name="K_find_scale_factor", file=F, cxx_name="stir::find_scale_factor (from 'const double data_in_max' to the end)",
         func=r"find_scale_factor\(scaleT& scale_factor,\s*const InputIteratorT& begin,\s*const InputIteratorT& end,\s*const NumericInfo<T2> info_for_out_type\)",
         span=(r"const double data_in_max", r"scale_factor = scaleT\(tmp_scale\);.*?\n    \}"),
         c_header="void K_find_scale_factor(float* scale_factor, const float mx, const float mn)", loops=0,
         rules=[(r"\*std::max_element\(begin, end\)", "mx", 1), (r"\*std::min_element\(begin, end\)", "mn", 1),
                (r"info_for_out_type\.max_value\(\)", "OUT_MAX", 1), (r"info_for_out_type\.min_value\(\)", "OUT_MIN", 1),
                (r"info_for_out_type\.signed_type\(\)", "OUT_SIGNED", 1),
                (r"info1\.signed_type\(\)", "1 /* NumericInfo of float is a signed type */", 1),
                (r"static_cast<double>\(", "CAST(double, ", 2), (r"std::max\(", "K_max_double(", 1),
                (r"scaleT\(tmp_scale\)", "CAST(float, tmp_scale)", 1), (r"std::numeric_limits<scaleT>::min\(\)", "FLT_MIN", (0, 2)),
                (r"(?<![\w.>*])scale_factor\b", "(*scale_factor)", (3, 6))]),
    dict(name="K_convert_elem", file=F, cxx_name="stir::convert_range: per-element statement of the integer-output loop",
         func=r"convert_range\(const OutputIteratorT& out_begin,\s*scaleT& scale_factor,\s*const InputIteratorT& in_begin,\s*const InputIteratorT& in_end\)",
         span=(r"if \(!std::numeric_limits<OutType>::is_signed && is_negative\(\*in_iter\)\)", r"\*out_iter = static_cast<OutType>\([^;]*\);\s*\}"),
         c_header="void K_convert_elem(OUT_T* out, const float in, const float scale)", loops=0,
         rules=[(r"!std::numeric_limits<OutType>::is_signed", "!OUT_SIGNED", 1), (r"is_negative\(\*in_iter\)", "(in < 0)", 1),
                (r"\*out_iter = ", "*out = ", 2), (r"static_cast<OutType>\(", "CAST(OUT_T, ", 1), (r"static_cast<double>\(", "CAST(double, ", (0, 1)),
                # rounding: either stir::round(float) (int result) or floating-point floor
                (r"(?<![\w:])round\(", "K_round_value(", (0, 1)), (r"std::floor\(", "floor(", (0, 2)),
                (r"\*in_iter", "in", 1), (r"\bscale_factor\b", "scale", 1)]),
    dict(name="K_round_float", file="src/include/stir/round.inl", cxx_name="stir::round(float)", func=r"\bround\(const float x\)",
         c_header="int K_round_float(const float x)", loops=0, rules=[(r"static_cast<int>\(", "CAST(int, ", 2)]),
]

# ---- exam information: the radionuclide of an Interfile header (reader side) ----
KERNELS += [
    dict(name="K_radionuclide_ctor", file="src/buildblock/Radionuclide.cxx", cxx_name="Radionuclide::Radionuclide(name, energy, branching_ratio, half_life, modality) (member-initialiser list)",
         func=r"Radionuclide::Radionuclide\(\s*const std::string& rname, float renergy, float rbranching_ratio, float rhalf_life, ImagingModality rmodality\)",
         init_list=True, c_header="void K_radionuclide_ctor(struct RN* self, const int rname, float renergy, float rbranching_ratio, float rhalf_life, int rmodality)", loops=0, rules=[]),
    dict(name="K_ifh_radionuclide", file="src/IO/InterfileHeader.cxx", cxx_name="InterfileHeader::post_processing: radionuclide block (statement kernel)",
         func=r"InterfileHeader::post_processing\(\)", span=(r"RadionuclideDB radionuclide_db;", r"this->exam_info_sptr->set_radionuclide\(radionuclide\);"),
         c_header="void K_ifh_radionuclide(struct IFH* self, const _Bool is_spect)", loops=0,
         rules=[(r"RadionuclideDB radionuclide_db;", "", 1),
                (r"const std::string rn_name = !this->radionuclide_name\[0\]\.empty\(\) \? this->radionuclide_name\[0\] : this->isotope_name;",
                 "const int rn_name = !(self->radionuclide_name0 == NAME_EMPTY) ? self->radionuclide_name0 : self->isotope_name;", 1),
                (r"auto radionuclide = radionuclide_db\.get_radionuclide\(exam_info_sptr->imaging_modality, rn_name\);",
                 "struct RN radionuclide; K_db_get_radionuclide(&radionuclide, self->imaging_modality, rn_name);", 1),
                (r"radionuclide\.get_half_life\(false\)", "radionuclide.half_life", 1),
                (r"radionuclide = Radionuclide\(", "K_radionuclide_ctor(&radionuclide, ", 1),
                (r"rn_name\.empty\(\) \? \"Unknown\" : rn_name", "(rn_name == NAME_EMPTY) ? NAME_UNKNOWN : rn_name", 1),
                (r"(?<![\w>.])radionuclide_(branching_ratio|half_life)\[0\]", r"self->radionuclide_\1_0", 2),
                (r"this->exam_info_sptr->imaging_modality", "self->imaging_modality", 1),
                (r"this->exam_info_sptr->set_radionuclide\(radionuclide\);", "self->exam_radionuclide = radionuclide;", 1)]),
]

# writer side and the reader's key table: key strings become ids by ONE table applied to both kernels (same literal -> same id)
KEYIDS = [(r'"radionuclide name(?:\[1\] := )?"', "KEY_RN_NAME"), (r'"radionuclide halflife \(sec\)(?:\[1\] := )?"', "KEY_RN_HALFLIFE"),
          (r'"radionuclide branching factor(?:\[1\] := )?"', "KEY_RN_BRANCHING")]
KERNELS += [
    dict(name="K_write_rn_info", file="src/IO/interfile.cxx", cxx_name="write_interfile_radionuclide_info", func=r"write_interfile_radionuclide_info\(std::ostream& output_header, const ExamInfo& exam_info\)",
         c_header="void K_write_rn_info(const struct RN* exam_radionuclide)", loops=0,
         rules=[(r"const auto radionuclide = exam_info\.get_radionuclide\(\);", "const struct RN radionuclide = *exam_radionuclide;", 1),
                (r'output_header << "number of radionuclides := 1\\n";', "(void)0;", 1),
                (r'!radionuclide\.get_name\(\)\.empty\(\) && radionuclide\.get_name\(\) != "Unknown"', "!(radionuclide.name == NAME_EMPTY) && radionuclide.name != NAME_UNKNOWN", 1)]
         + [(k, v, 1) for k, v in KEYIDS]
         + [(r"output_header << (KEY_\w+) << radionuclide\.get_(name|half_life|branching_ratio)\(\) << '\\n';", r"K_EMIT_\2(\1, radionuclide.\2);", 3),
            (r"radionuclide\.get_(half_life|branching_ratio)\(false\)", r"radionuclide.\1", 2)]),
    dict(name="K_ifh_rn_keys", file="src/IO/InterfileHeader.cxx", cxx_name="InterfileHeader::InterfileHeader: the three radionuclide add_vectorised_key statements (statement kernel)",
         func=r"InterfileHeader::InterfileHeader\(\)", span=(r'add_vectorised_key\("radionuclide name"', r'add_vectorised_key\("radionuclide branching factor", &\w+\);'),
         c_header="void K_ifh_rn_keys(void)", loops=0,
         rules=[(k, v, 1) for k, v in KEYIDS] + [(r"add_vectorised_key\((KEY_\w+), &(\w+)\);", r"K_BIND(\1, MEMBER_\2);", 3)]),
]

# ---- byte order: read_data / write_data pass the caller's byte order down to every inner read / write ----
RD = "src/include/stir/IO/read_data.inl"
WR = "src/include/stir/IO/write_data.inl"
INNER = [(r"read_data_1d\(s, (\*?\w+), (\w+)\)", r"K_inner_io(\2)", (0, 3)), (r"read_data_1d\(s, (\*?\w+)\)", "K_inner_io(BYTEORDER_DEFAULT_ARGUMENT)", (0, 3)),
         (r"read_data\(s, (\*?\w+), (\w+)\)", r"K_inner_io(\2)", (0, 3)), (r"read_data\(s, (\*?\w+)\)", "K_inner_io(BYTEORDER_DEFAULT_ARGUMENT)", (0, 3)),
         (r"Succeeded::yes", "1", None), (r"Succeeded::no", "0", None), (r"Succeeded success", "int success", (0, 1))]
KERNELS += [
    dict(name="K_rd_conv", file=RD, cxx_name="read_data(s, data, NumericInfo<InputType>, scale_factor, byte_order)",
         func=r"read_data\(IStreamT& s,\s*Array<num_dimensions, elemT>& data,\s*NumericInfo<InputType> input_type,\s*ScaleT& scale_factor,\s*const ByteOrder byte_order\)",
         c_header="int K_rd_conv(float* scale_factor, const int byte_order)", loops=0, contract_alias="K_io_byte_order",
         rules=[(r"typeid\(InputType\) == typeid\(elemT\)", "g_same_type", 1), (r"scale_factor = ScaleT\(1\);", "*scale_factor = 1.F;", 1),
                (r"Array<num_dimensions, InputType> in_data\(data\.get_index_range\(\)\);", "", 1), (r"convert_array\(data, scale_factor, in_data\);", "K_convert();", 1)] + INNER),
    dict(name="K_rd_recurse", file=RD, cxx_name="detail::read_data_help(is_not_1d, s, data, byte_order)",
         func=r"read_data_help\(is_not_1d, IStreamT& s, Array<num_dimensions, elemT>& data, const ByteOrder byte_order\)",
         c_header="int K_rd_recurse(const int n_rows, const int byte_order)", loops=1, contract_alias="K_io_byte_order",
         rules=[(r"data\.is_contiguous\(\)", "g_contiguous", 1),
                (r"for \(typename Array<num_dimensions, elemT>::iterator iter = data\.begin\(\); iter != data\.end\(\); \+\+iter\)", "for (int iter = 0; iter != n_rows; ++iter)", 1),
                (r"\*iter", "iter", 1)] + INNER),
]

WINNER = [(r"write_data_1d\(s, (\w+), (\w+), [^()]*\)", r"K_inner_io(\2)", (0, 3)),
          (r"write_data_with_fixed_scale_factor\(s, (\*?\w+), (\w+(?:<[^>]*>\(\))?), ([\w.]+), (\w+), (\w+)\)", r"K_inner_io(\4)", (0, 3)),
          (r"Succeeded::yes", "1", None), (r"Succeeded::no", "0", None)]
KERNELS += [
    dict(name="K_wr_fixed_1d", file=WR, cxx_name="detail::write_data_with_fixed_scale_factor_help(is_1d, ...)",
         func=r"write_data_with_fixed_scale_factor_help\(is_1d,\s*OStreamT& s,\s*const Array<1, elemT>& data,\s*NumericInfo<OutputType>,\s*const ScaleT scale_factor,\s*const ByteOrder byte_order,\s*const bool can_corrupt_data\)",
         c_header="int K_wr_fixed_1d(const float scale_factor, const int byte_order, const _Bool can_corrupt_data)", loops=0, contract_alias="K_io_byte_order",
         rules=[(r"typeid\(OutputType\) != typeid\(elemT\)", "!g_same_type", 1), (r"ScaleT new_scale_factor = scale_factor;", "float new_scale_factor = scale_factor;", 1),
                (r"auto data_tmp = convert_array\(new_scale_factor, data, NumericInfo<OutputType>\(\)\);", "new_scale_factor = K_convert_scale(new_scale_factor);", 1),
                (r"std::fabs\(", "fabsf(", 1)] + WINNER),
    dict(name="K_wr_fixed_recurse", file=WR, cxx_name="detail::write_data_with_fixed_scale_factor_help(is_not_1d, ...)",
         func=r"write_data_with_fixed_scale_factor_help\(is_not_1d,\s*OStreamT& s,\s*const Array<num_dimensions, elemT>& data,\s*NumericInfo<OutputType> output_type,\s*const ScaleT scale_factor,\s*const ByteOrder byte_order,\s*const bool can_corrupt_data\)",
         c_header="int K_wr_fixed_recurse(const int n_rows, const float scale_factor, const int byte_order, const _Bool can_corrupt_data)", loops=1, contract_alias="K_io_byte_order",
         rules=[(r"for \(auto iter = data\.begin\(\); iter != data\.end\(\); \+\+iter\)", "for (int iter = 0; iter != n_rows; ++iter)", 1)] + WINNER),
]

TYPES = ["schar", "uchar", "short", "ushort", "int", "uint"]
CHK = ["--signed-overflow-check", "--div-by-zero-check", "--bounds-check", "--pointer-check", "--conversion-check", "--float-overflow-check", "--nan-check"]


BE = os.environ.get("C10_BACKEND", "sat")


# ---- voxel positions: image geometry <-> header keys (contracts/c10g.h) ----
HARNESS_G = os.path.join(VERIF, "harness", "c10g.c")
IFC = "src/IO/interfile.cxx"
KERNELS_G = [
    dict(name="K_img_geometry_from_header", file=IFC, cxx_name="create_image_and_header_from: voxel size, index range and origin from the header (statement kernel)",
         func=r"create_image_and_header_from\(InterfileImageHeader& hdr,\s*char\* full_data_file_name,[^)]*\)",
         span=(r"CartesianCoordinate3D<float> voxel_size\(", r"- voxel_size \* BasicCoordinate<3, float>\(min_indices\);\s*\}"),
         c_header="void K_img_geometry_from_header(const struct IHDR* hdr, struct IMGGEO* out)", loops=0,
         post="out->voxel_size = voxel_size; out->origin = origin; out->min_indices = min_indices; out->max_indices = max_indices;",
         rules=[(r"static_cast<float>\(([^()]*)\)", r"(float)(\1)", 3),
                (r"CartesianCoordinate3D<float> voxel_size\(\s*([^;]*?)\);", r"struct C3F voxel_size = {\1};", 1),
                (r"const BasicCoordinate<3, int> min_indices = make_coordinate\(([^;]*?)\);", r"const struct C3I min_indices = {\1};", 1),
                (r"const BasicCoordinate<3, int> max_indices = min_indices \+ make_coordinate\(([^;]*?)\) - 1;", r"const struct C3I max_indices = K_c3i_add_sub1(min_indices, \1);", 1),
                (r"CartesianCoordinate3D<float> origin\(0, 0, 0\);", "struct C3F origin = {0, 0, 0};", 1),
                (r"InterfileHeader::double_value_not_set", "K_DOUBLE_NOT_SET", 1),
                (r"origin = make_coordinate\(\s*float\(([^()]*)\), float\(([^()]*)\), float\(([^()]*)\)\)\s*- voxel_size \* BasicCoordinate<3, float>\(min_indices\);",
                 r"origin = K_c3f_sub_mul((struct C3F){(float)(\1), (float)(\2), (float)(\3)}, voxel_size, min_indices);", 1),
                (r"\bhdr\.", "hdr->", (8, 16))]),
    dict(name="K_img_geometry_to_header", file=IFC, cxx_name="write_basic_interfile_image_header: matrix size, scaling factor and first pixel offset keys (statement kernel)",
         func=r"write_basic_interfile_image_header\(const string& header_file_name,[^)]*\)",
         span=(r'output_header << "matrix axis label \[1\] := x\\n";', r'output_header << "first pixel offset \(mm\) \[3\] := "[^;]*;\s*\}'),
         c_header="void K_img_geometry_to_header(const _Bool origin_z_is_set)", loops=0,
         rules=[(r'output_header << "matrix axis label \[(\d)\] := ([xyz])\\n";', r'__CPROVER_assert(AX_\2 == \1, "axis label of key [\1]");', 3),
                (r'output_header << "!matrix size \[(\d)\] := " << (\w+)\.([xyz])\(\) << endl;', r"K_HDR_W(KEY_MATRIX_SIZE, \1, OBJ_\2, AX_\3);", 3),
                (r'output_header << "scaling factor \(mm/pixel\) \[(\d)\] := " << (\w+)\.([xyz])\(\) << endl;', r"K_HDR_W(KEY_SCALING_FACTOR, \1, OBJ_\2, AX_\3);", 3),
                (r"""output_header << "first pixel offset \(mm\) \[(\d)\] := " << (\w+)\.([xyz])\(\) << '\\n';""", r"K_HDR_W(KEY_FIRST_PIXEL_OFFSET, \1, OBJ_\2, AX_\3);", 3),
                (r"origin\.z\(\) != InterfileHeader::double_value_not_set", "origin_z_is_set", 1),
                (r"const CartesianCoordinate3D<float> first_pixel_offsets = voxel_size \* BasicCoordinate<3, float>\(min_indices\) \+ origin;", "g_fpo_formula = 1;", 1)]),
]
KERNELS += KERNELS_G


# ---- header number formatting: stream-state typestate of the header writer (contracts/c10g.h) ----
_MANIP = r"(?:std::)?(fixed|scientific|hex|oct|dec|defaultfloat|hexfloat)$"


def _split_top(text, sep):
    """split at `sep` outside parentheses, string and character literals"""
    parts, cur, depth, i, n = [], "", 0, 0, len(text)
    while i < n:
        c = text[i]
        if c in "\"'":
            j = i + 1
            while j < n and text[j] != c:
                j += 2 if text[j] == "\\" else 1
            cur += text[i:j + 1]
            i = j + 1
            continue
        if c in "([{":
            depth += 1
        elif c in ")]}":
            depth -= 1
        if depth == 0 and text.startswith(sep, i):
            parts.append(cur)
            cur = ""
            i += len(sep)
            continue
        cur += c
        i += 1
    parts.append(cur)
    return parts


def _stream_stmt(stm, stream):
    st = " ".join(stm.split())
    if re.match(r"(?:std::)?ofstream\s+%s\b" % stream, st):
        return "K_STREAM_OPEN();"
    if re.match(r"%s\s*<<" % stream, st):
        out = []
        for op in _split_top(st, "<<")[1:]:
            op = op.strip()
            if re.match(r'^(?:"(?:[^"\\]|\\.)*"\s*)+$', op) or re.match(r"^'(?:[^'\\]|\\.)'$", op) or re.match(r"^(?:std::)?(endl|flush|ends)$", op):
                continue
            mm = re.match(_MANIP, op)
            if mm:
                out.append("K_FMT(FMT_%s);" % mm.group(1))
                continue
            mp = re.match(r"^(?:std::)?setprecision\((.*)\)$", op)
            if mp:
                out.append("K_PREC(%s);" % (mp.group(1) if re.match(r"^\d+$", mp.group(1).strip()) else "nondet_int()"))
                continue
            if re.match(r"^(?:std::)?(setw|setfill|left|right|internal|showpoint|noshowpoint|boolalpha|noboolalpha|uppercase|nouppercase)\b", op):
                continue
            out.append("K_VAL();")
        return ("{ " + " ".join(out) + " }") if out else ";"
    mp = re.match(r"%s\.precision\((\d+)\)$" % stream, st)
    if mp:
        return "K_PREC(%s);" % mp.group(1)
    if re.match(r"%s\.(setf|unsetf|flags|imbue|copyfmt)\(" % stream, st):
        raise extract.ExtractionError("header writer changes the stream state through %s: not understood by the skeleton rule" % st[:60])
    if re.search(r"\b%s\b" % stream, st) and not re.match(r"(if|return)\b", st):
        return "K_VAL(); /* stream handed to a callee that writes values */"
    if st.startswith("return"):
        return "return;"
    if st in ("break", "continue"):
        return st + ";"
    return ";"


def _stream_skeleton(stream):
    """Rule (callable): the function body -> its control skeleton (blocks, if/else, loops; conditions nondeterministic) with the operations on
    `stream` kept in order: manipulators that change the number format, setprecision, and insertions of non-literal values. Everything else is dropped."""
    def run(m):
        text, out, i, n = m.group(0), [], 0, len(m.group(0))
        labels = [0]
        def paren(j):
            depth = 0
            while j < n:
                if text[j] in "\"'":
                    q = text[j]; j += 1
                    while j < n and text[j] != q:
                        j += 2 if text[j] == "\\" else 1
                elif text[j] == "(":
                    depth += 1
                elif text[j] == ")":
                    depth -= 1
                    if depth == 0:
                        return j
                j += 1
            raise extract.ExtractionError("skeleton rule: unbalanced parenthesis")
        while i < n:
            c = text[i]
            if c.isspace():
                out.append(c); i += 1; continue
            if c in "{}":
                out.append(c); i += 1; continue
            ml = re.match(r"(?:case\s+(?:[^:;{}]|::)+?\s*:(?!:)|default\s*:)", text[i:])
            if ml:
                labels[0] += 1
                out.append("default:" if ml.group(0).startswith("default") else "case %d:" % labels[0])
                i += ml.end()
                continue
            mk = re.match(r"(if|for|while|else|do|switch|try|catch|goto)\b", text[i:])
            if mk:
                kw = mk.group(1)
                if kw in ("do", "try", "catch", "goto"):
                    raise extract.ExtractionError("skeleton rule: '%s' not supported" % kw)
                i += len(kw)
                if kw == "else":
                    out.append("else "); continue
                j = text.index("(", i)
                k = paren(j)
                out.append({"if": "if (nondet_bool())", "for": "for (; nondet_bool();)", "while": "while (nondet_bool())", "switch": "switch (nondet_int())"}[kw])
                i = k + 1
                continue
            # simple statement up to ';' outside parentheses / literals
            j, depth = i, 0
            while j < n:
                ch = text[j]
                if ch in "\"'":
                    q = ch; j += 1
                    while j < n and text[j] != q:
                        j += 2 if text[j] == "\\" else 1
                elif ch in "([":
                    depth += 1
                elif ch in ")]":
                    depth -= 1
                elif ch == ";" and depth == 0:
                    break
                j += 1
            out.append(_stream_stmt(text[i:j], stream))
            i = j + 1
        return "".join(out)
    return run


KERNELS_F = [
    dict(name="K_hdr_stream_format", file=IFC, cxx_name="write_basic_interfile_image_header: number-format state of the header stream (control skeleton + stream operations)",
         func=r"write_basic_interfile_image_header\(const string& header_file_name,[^)]*\)", c_header="void K_hdr_stream_format(void)",
         rules=[(r"\A.*\Z", _stream_skeleton("output_header"), 1)]),
]
KERNELS += KERNELS_F


HDRW = ["patient_position", "time_frame_definitions", "energy_windows", "image_data_descriptions", "modality", "radionuclide_info"]
KERNELS_W = [dict(name="K_hdrw_" + n, file=IFC, cxx_name="write_interfile_%s: number-format state of the header stream (control skeleton + stream operations)" % n,
                  func=r"write_interfile_%s\(std::ostream& output_header,[^)]*\)" % n, c_header="void K_hdrw_%s(void)" % n,
                  rules=[(r"\A.*\Z", _stream_skeleton("output_header"), 1)]) for n in HDRW]
KERNELS += KERNELS_W


def jobs(tier, gen_dir):
    out = []
    for t in TYPES:
        d = {"C10_OUT": "OUT_" + t}
        out.append(Job("c10/K_find_scale_factor/out=%s" % t, HARNESS, "h_K_find_scale_factor", enforce="K_find_scale_factor", kernels=["K_find_scale_factor"],
                       flags=CHK, no_base_flags=True, defines=d, params={"output type": t}, min_obligations=3, timeout=600, backend=BE))
        for dom, dd in (("normal", {}), ("tiny", {"C10_TINY": None})):
            d3 = dict(d)
            d3.update(dd)
            out.append(Job("c10/lemma_no_overflow/out=%s/%s" % (t, dom), HARNESS, "h_lemma_real", kind="lemma",
                           kernels=["K_find_scale_factor", "K_convert_elem", "K_round_float"], flags=CHK, no_base_flags=True, defines=d3,
                           params={"output type": t, "domain": dom}, min_obligations=2, timeout=600, backend=BE, replay="quantise"))
            if dom == "tiny":
                d4 = dict(d)
                d4.update(dd)
                out[-2 if False else -1].defines = d3
        out.append(Job("c10/K_find_scale_factor/out=%s/tiny" % t, HARNESS, "h_K_find_scale_factor", enforce="K_find_scale_factor", kernels=["K_find_scale_factor"],
                       flags=CHK, no_base_flags=True, defines=dict(d, C10_TINY=None), params={"output type": t, "domain": "tiny"}, min_obligations=3, timeout=600, backend=BE))
    out.append(Job("c10/K_round_float", HARNESS, "h_K_round_float", enforce="K_round_float", kernels=["K_round_float"], flags=CHK, no_base_flags=True,
                   min_obligations=3, timeout=300, backend="sat"))
    out.append(Job("c10/K_radionuclide_ctor", HARNESS, "h_K_radionuclide_ctor", enforce="K_radionuclide_ctor", kernels=["K_radionuclide_ctor"], flags=CHK, no_base_flags=True,
                   min_obligations=3, timeout=300, backend="sat"))
    out.append(Job("c10/K_ifh_radionuclide", HARNESS, "h_K_ifh_radionuclide", enforce="K_ifh_radionuclide", replace=["K_radionuclide_ctor", "K_db_get_radionuclide"],
                   kernels=["K_ifh_radionuclide"], flags=CHK, no_base_flags=True, min_obligations=3, timeout=300, backend="sat", replay="radionuclide"))
    out.append(Job("c10/K_write_rn_info", HARNESS, "h_K_write_rn_info", enforce="K_write_rn_info", kernels=["K_write_rn_info"], flags=CHK, no_base_flags=True, min_obligations=3,
                   timeout=300, backend="sat"))
    out.append(Job("c10/K_ifh_rn_keys", HARNESS, "h_K_ifh_rn_keys", enforce="K_ifh_rn_keys", kernels=["K_ifh_rn_keys"], flags=CHK, no_base_flags=True, min_obligations=1,
                   timeout=300, backend="sat"))
    out.append(Job("c10/lemma_rn_roundtrip", HARNESS, "h_lemma_rn_roundtrip", kind="lemma", kernels=["K_write_rn_info", "K_ifh_rn_keys", "K_ifh_radionuclide"],
                   replace=["K_write_rn_info", "K_ifh_rn_keys", "K_ifh_radionuclide"], flags=CHK, no_base_flags=True, min_obligations=2, timeout=300, backend="sat",
                   replay="radionuclide"))
    out.append(Job("c10/canary/lemma_rn_roundtrip", HARNESS, "h_lemma_rn_roundtrip", kind="canary", kernels=[], replace=["K_write_rn_info", "K_ifh_rn_keys", "K_ifh_radionuclide"],
                   defines={"LEMMA_CANARY": None}, flags=[], no_base_flags=True, expect_fail=r"vacuity canary", timeout=300))
    for k, lc in (("K_rd_conv", False), ("K_rd_recurse", True)):
        out.append(Job("c10/" + k, HARNESS, "h_" + k, enforce=k, kernels=[k], flags=CHK, no_base_flags=True, min_obligations=2, timeout=300, backend="sat", loop_contracts=lc,
                       replay="byteorder"))
    for k, lc in (("K_wr_fixed_1d", False), ("K_wr_fixed_recurse", True)):
        out.append(Job("c10/" + k, HARNESS, "h_" + k, enforce=k, kernels=[k], flags=CHK, no_base_flags=True, min_obligations=2, timeout=300, backend="sat", loop_contracts=lc,
                       replay="byteorder"))
    out.append(Job("c10/canary/K_rd_conv", HARNESS, "h_K_rd_conv", enforce="K_rd_conv", kernels=["K_rd_conv"], kind="canary", defines={"CANARY_K_rd_conv": None},
                   expect_fail=r"K_rd_conv\.postcondition", no_base_flags=True, timeout=300))
    out.append(Job("c10/canary/K_ifh_radionuclide", HARNESS, "h_K_ifh_radionuclide", enforce="K_ifh_radionuclide", replace=["K_radionuclide_ctor", "K_db_get_radionuclide"],
                   kernels=["K_ifh_radionuclide"], kind="canary", defines={"CANARY_K_ifh_radionuclide": None}, expect_fail=r"K_ifh_radionuclide\.postcondition",
                   no_base_flags=True, timeout=300))
    out.append(Job("c10/canary/K_find_scale_factor", HARNESS, "h_K_find_scale_factor", enforce="K_find_scale_factor", kernels=["K_find_scale_factor"], kind="canary",
                   defines={"CANARY_K_find_scale_factor": None}, expect_fail=r"K_find_scale_factor\.postcondition", no_base_flags=True, timeout=300))
    out.append(Job("c10/canary/lemma_no_overflow", HARNESS, "h_lemma_real", kind="canary", kernels=[], defines={"LEMMA_CANARY": None}, flags=[], no_base_flags=True,
                   expect_fail=r"vacuity canary", timeout=600))
    for k in ("K_img_geometry_from_header", "K_img_geometry_to_header"):
        out.append(Job("c10/" + k, HARNESS_G, "h_" + k, enforce=k, kernels=[k], flags=CHK, no_base_flags=True, min_obligations=2, timeout=600, backend="sat", replay="geometry"))
        out.append(Job("c10/canary/" + k, HARNESS_G, "h_" + k, enforce=k, kernels=[k], kind="canary", defines={"CANARY_" + k: None}, expect_fail=k + r"\.postcondition",
                       no_base_flags=True, timeout=600))
    out.append(Job("c10/K_hdr_stream_format", HARNESS_G, "h_K_hdr_stream_format", enforce="K_hdr_stream_format", kernels=["K_hdr_stream_format"], flags=CHK, no_base_flags=True,
                   min_obligations=10, timeout=600, backend="kissat", loop_contracts=True, replay="geometry"))
    out.append(Job("c10/canary/K_hdr_stream_format", HARNESS_G, "h_K_hdr_stream_format", enforce="K_hdr_stream_format", kernels=["K_hdr_stream_format"], kind="canary",
                   defines={"CANARY_K_hdr_stream_format": None}, expect_fail=r"K_hdr_stream_format\.(postcondition|assertion)", no_base_flags=True, timeout=600, loop_contracts=True))
    for n in HDRW:
        out.append(Job("c10/K_hdrw_" + n, HARNESS_G, "h_K_hdrw_" + n, enforce="K_hdrw_" + n, kernels=["K_hdrw_" + n], flags=CHK, no_base_flags=True, min_obligations=2, timeout=300,
                       backend="kissat", loop_contracts=True, replay="geometry"))
    return out


TRUSTED = ["BasicCoordinate arithmetic is component-wise (C3F/C3I helpers in contracts/c10g.h); the header writers' callees that receive the stream: proved to insert readable values and to leave the format state as found (K_hdrw_*), applied by hand in the callers' skeletons (K_VAL)",
           "std::max_element / std::min_element deliver the largest / smallest input value (mx, mn are parameters of the kernel)",
           "input element type float, scale factor type float (the instantiation used by the image writers); IEEE-754 round-to-nearest"]
ASSUMPTIONS = []
UNDECIDED_CLAUSES = ["Interfile keyword parsing (KeyParser), exam information other than the radionuclide block, truncated data files; that the voxel-position arithmetic round-trips up to rounding (only which operands enter it is decided)",
                     "dynamic / parametric containers", "float output types (copied, no quantisation)"]


def param_summary(tier):
    return {"output type": TYPES, "input value / max / min": "all finite floats (every bit pattern)", "incoming scale factor": "0 (automatic) or any preferred positive factor"}


# ---------------- native replay (header-only: the real templates from the working tree, UBSan) ----------------
import re
import subprocess


def replay(job, o, workroot, repo):
    if "K_rd_" in job.name or "K_wr_" in job.name:
        from vlib import native
        exe = os.path.join(workroot, "c10_bo_replay")
        if not os.path.exists(exe):
            exe, info = native.build(repo, os.path.join(VERIF, "replay", "c10_bo.cpp"), exe)
            if not exe:
                return {"status": "unavailable", "detail": "replay driver did not build: " + info}
        os.environ.setdefault("STIR_CONFIG_DIR", os.path.join(repo, "src/config"))
        st, detail = native.run(exe, [workroot], timeout=300)
        if st == "confirmed":
            return {"status": "confirmed", "detail": detail, "command": "c10_bo_replay <dir>", "from_verifier_counterexample": False}
        return {"status": "not-reproduced", "detail": "c10_bo_replay: images written as short / int / float in both byte orders and read back (" + str(detail)[:160] + ")"}
    if "K_img_geometry" in job.name or "K_hdr_stream" in job.name:
        from vlib import native
        exe = os.path.join(workroot, "c10_hdr_replay")
        if not os.path.exists(exe):
            exe, info = native.build(repo, os.path.join(VERIF, "replay", "c10_hdr.cpp"), exe)
            if not exe:
                return {"status": "unavailable", "detail": "replay driver did not build: " + info}
        os.environ.setdefault("STIR_CONFIG_DIR", os.path.join(repo, "src/config"))
        st, detail = native.run(exe, [workroot], timeout=300)
        if st == "confirmed":
            return {"status": "confirmed", "detail": detail, "command": "c10_hdr_replay <dir>", "from_verifier_counterexample": False}
        return {"status": "not-reproduced", "detail": "c10_hdr_replay: 48 images (3 geometries x calibration factor x short/int x small/large values) written and read back (" + str(detail)[:160] + ")"}
    if "radionuclide" in job.name or "rn_" in job.name:
        from vlib import native
        exe = os.path.join(workroot, "c10_rn_replay")
        if not os.path.exists(exe):
            exe, info = native.build(repo, os.path.join(VERIF, "replay", "c10_rn.cpp"), exe)
            if not exe:
                return {"status": "unavailable", "detail": "replay driver did not build: " + info}
        os.environ.setdefault("STIR_CONFIG_DIR", os.path.join(repo, "src/config"))
        st, detail = native.run(exe, [workroot], timeout=300)
        if st == "confirmed":
            return {"status": "confirmed", "detail": detail, "command": "c10_rn_replay <dir>", "from_verifier_counterexample": False}
        return {"status": "not-reproduced", "detail": "c10_rn_replay: three nuclides written to Interfile and read back (" + str(detail)[:200] + ")"}
    exe = os.path.join(workroot, "c10_replay")
    if not os.path.exists(exe):
        cmd = ["g++", "-std=c++17", "-g", "-O1", "-DNDEBUG", "-fsanitize=float-cast-overflow,signed-integer-overflow", "-fno-sanitize-recover=all",
               "-I", os.path.join(repo, "src/include"), "-I", os.path.join(repo, "_build/src/include"), os.path.join(VERIF, "replay", "c10.cpp"),
               os.path.join(repo, "_build/src/buildblock/libbuildblock.a"), "-o", exe]
        p = subprocess.run(cmd, capture_output=True, text=True, timeout=900)
        if p.returncode != 0:
            return {"status": "unavailable", "detail": "replay driver did not compile: " + p.stderr[-600:]}
    t = job.params.get("output type", "short")
    v = o.get("inputs", {})

    def fl(k):
        m = re.match(r"^-?[\d.]+(?:e[-+]?\d+)?", str(v.get("h:" + k, "")))
        return m.group(0) if m else None
    cands = []
    if fl("mn") and fl("x") and fl("mx"):
        cands.append([t, fl("mn"), fl("x"), fl("mx")])
    cands.append([t, "sweep"])
    for c in cands:
        p = subprocess.run([exe] + c, capture_output=True, text=True, timeout=300)
        out = p.stdout + p.stderr
        if p.returncode == 1 and "CONFIRMED" in p.stdout:
            return {"status": "confirmed", "detail": [l for l in p.stdout.strip().splitlines() if "CONFIRMED" in l][-1], "command": "c10_replay " + " ".join(c),
                    "from_verifier_counterexample": c is cands[0] and len(c) == 4}
        if "runtime error" in out:
            return {"status": "confirmed", "detail": "UBSan: " + [l for l in out.splitlines() if "runtime error" in l][0][-200:],
                    "command": "c10_replay " + " ".join(c), "from_verifier_counterexample": c is cands[0] and len(c) == 4}
    return {"status": "not-reproduced", "detail": "%d native runs" % len(cands)}
