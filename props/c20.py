"""C20 - component-based normalisation: the detector-pair ('fan') index maps (DESIGN.md section 6, C20)."""
import os
import re

from vlib.runner import Job

VERIF = os.path.dirname(os.path.dirname(os.path.abspath(__file__)))
HARNESS = os.path.join(VERIF, "harness", "c20.c")
F = "src/buildblock/ML_norm.cxx"

SEL = [(r"\(\*this\)\[([^\]]+)\]\[([^\]]+)\]\[([^\]]+)\]\s*\[([^\]]+)\]", r"FAN_CELL(self, \1, \2, \3, \4)", 2),
       (r"get_min_b\(", "FAN_MIN_B(self, ", 2), (r"(?<![\w>.])num_detectors_per_ring\b", "self->num_detectors_per_ring", 5)]
GAPRULES = [(r"\bcontinue;", "return 0;", 4), (r"\bint new_(a|ra|b|rb) = ", r"*new_\1 = ", 4)]
GAPHDR = ("int %s(const int a, const int ra, const int b, const int rb, const int num_transaxial_crystals_per_block, "
          "const int num_virtual_transaxial_crystals_per_block, const int num_physical_transaxial_crystals_per_block, const int num_axial_crystals_per_block, "
          "const int num_virtual_axial_crystals_per_block, const int num_physical_axial_crystals_per_block, int* new_a, int* new_ra, int* new_b, int* new_rb)")
GAPSPAN = (r"int a_in_block = a % num_transaxial_crystals_per_block;", r"int new_rb = rb - \(rb / num_axial_crystals_per_block\) \* num_virtual_axial_crystals_per_block;")

KERNELS = [
    dict(name="K_fan_select", file=F, cxx_name="FanProjData::operator()(ra,a,rb,b) const",
         func=r"FanProjData::operator\(\)\(const int ra, const int a, const int rb, const int b\) const",
         c_header="float K_fan_select(const struct FAN* self, const int ra, const int a, const int rb, const int b)", loops=0, rules=SEL),
    dict(name="K_fan_select_nc", file=F, cxx_name="FanProjData::operator()(ra,a,rb,b) (non-const)",
         func=r"FanProjData::operator\(\)\(const int ra, const int a, const int rb, const int b\)(?!\s*const)",
         c_header="float K_fan_select_nc(const struct FAN* self, const int ra, const int a, const int rb, const int b)", loops=0, rules=SEL),
    dict(name="K_fan_is_in_data", file=F, cxx_name="FanProjData::is_in_data", func=r"FanProjData::is_in_data\(const int ra, const int a, const int rb, const int b\) const",
         c_header="_Bool K_fan_is_in_data(const struct FAN* self, const int ra, const int a, const int rb, const int b)", loops=0,
         rules=[(r"\(\*this\)\[ra\]\[a\]\.get_min_index\(\)", "FAN_RB_MIN(self, ra, a)", 1), (r"\(\*this\)\[ra\]\[a\]\.get_max_index\(\)", "FAN_RB_MAX(self, ra, a)", 1),
                (r"get_min_b\(", "FAN_MIN_B(self, ", (1, 2)), (r"get_max_b\(", "FAN_MAX_B(self, ", 2),
                (r"(?<![\w>.])num_detectors_per_ring\b", "self->num_detectors_per_ring", (1, 2))]),
    dict(name="K_remove_gaps_map", file=F, cxx_name="make_fan_data_remove_gaps_help: crystal index maps (statement kernel)",
         func=r"make_fan_data_remove_gaps_help\(FanProjData& fan_data,", span=GAPSPAN, c_header=GAPHDR % "K_remove_gaps_map", loops=0,
         rules=GAPRULES, post="return 1;"),
    dict(name="K_add_gaps_map", file=F, cxx_name="set_fan_data_add_gaps_help: crystal index maps (statement kernel)",
         func=r"set_fan_data_add_gaps_help\(ProjData& proj_data,", span=GAPSPAN, c_header=GAPHDR % "K_add_gaps_map", loops=0,
         rules=GAPRULES, post="return 1;"),
]

def RATIO(name, cxx, func, meas, norm):
    """the element update statement of the four iterate_{geo,block}_norm functions (statement kernels, one shared contract)"""
    return dict(name=name, file=F, cxx_name=cxx + ": element update (statement kernel)", func=func,
                span=(norm + r"\s*=\s*\(" + meas + r" >= threshold", r":\s*0;"),
                c_header="float %s(const float measured, const float model, const float threshold)" % name, loops=0, contract_alias="K_ml_ratio",
                rules=[(meas, "measured", 3), (norm + r"\s*=", "return", 1), (norm, "model", 2),
                       # the float quotient itself is abstracted to the ghost g_ratio (= measured / model, set by the harness): no divider circuit in the kernel proof
                       (r"measured / model", "K_RATIO(measured, model)", 1),
                       # likewise the float product 10000 * model is the ghost g_limit (tied to the real product in the contract's requires)
                       (r"10000 \* model", "K_LIMIT(model)", 1)])


KERNELS += [
    RATIO("K_ml_ratio_geo2d", "iterate_geo_norm(GeoData&, const GeoData&, const DetPairData&)",
          r"iterate_geo_norm\(GeoData& norm_geo_data, const GeoData& measured_geo_data, const DetPairData& model\)", r"measured_geo_data\[a\]\[b\]", r"norm_geo_data\[a\]\[b\]"),
    RATIO("K_ml_ratio_block2d", "iterate_block_norm(BlockData&, const BlockData&, const DetPairData&)",
          r"iterate_block_norm\(BlockData& norm_block_data, const BlockData& measured_block_data, const DetPairData& model\)", r"measured_block_data\[a\]\[b\]", r"norm_block_data\[a\]\[b\]"),
    RATIO("K_ml_ratio_geo3d", "iterate_geo_norm(GeoData3D&, const GeoData3D&, const FanProjData&)",
          r"iterate_geo_norm\(GeoData3D& norm_geo_data, const GeoData3D& measured_geo_data, const FanProjData& model\)", r"measured_geo_data\(ra, a, rb, b\)", r"norm_geo_data\(ra, a, rb, b\)"),
    RATIO("K_ml_ratio_block3d", "iterate_block_norm(BlockData3D&, const BlockData3D&, const FanProjData&)",
          r"iterate_block_norm\(BlockData3D& norm_block_data, const BlockData3D& measured_block_data, const FanProjData& model\)", r"measured_block_data\(ra, a, rb, b\)", r"norm_block_data\(ra, a, rb, b\)"),
]
KERNELS.append(dict(name="K_fan_ctor", file=F, cxx_name="FanProjData::FanProjData(num_rings, num_detectors_per_ring, max_ring_diff, fan_size): member initialisers and the index-range loops",
                    func=r"FanProjData::FanProjData\(const int num_rings, const int num_detectors_per_ring, const int max_ring_diff, const int fan_size\)", init_list=True,
                    c_header="void K_fan_ctor(struct FAN* self, const int num_rings, const int num_detectors_per_ring, const int max_ring_diff, const int fan_size)", loops=3,
                    rules=[(r"IndexRange<4> fan_indices;", "", 1), (r"fan_indices\.grow\(([^;]*)\);", r"IDX_GROW0(\1);", 1), (r"fan_indices\[ra\]\.grow\(([^;]*)\);", r"IDX_GROW1(ra, \1);", 1),
                           (r"fan_indices\[ra\]\[a\]\.grow\(([^;]*)\);", r"IDX_GROW2(ra, a, \1);", 1),
                           (r"fan_indices\[ra\]\[a\]\[rb\]\s*= IndexRange<1>\(([^;]*)\);", r"IDX_SET3(ra, a, rb, \1);", 1),
                           (r"(?<![\w>.])grow\(fan_indices\);", "", 1), (r"(?<![\w>.])fill\(0\);", "", 1),
                           (r"(?<![\w>._])(half_fan_size)\b", r"self->\1", (1, 3)), (r"\bmax\(", "K_max_int(", 3), (r"\bmin\(", "K_min_int(", 1)]))
# apply / un-apply of the three kinds of factors: the if (apply) ... *= F; else ... /= F; statement of apply_block_norm, apply_efficiencies, apply_geo_norm (3D)
def APPLY(name, cxx, func, factor_re, factor_rep, header_extra):
    return dict(name=name, file=F, cxx_name=cxx + ": the apply / un-apply statement (statement kernel)", func=func,
                span=(r"if \(apply\)\s*fan_data\(ra, a, rb, b\) \*=", r"else\s*fan_data\(ra, a, rb, b\) /=[^;]*;"),
                c_header="void %s(const _Bool apply, const int ra, const int a, const int rb, const int b%s)" % (name, header_extra), loops=0, contract_alias="K_apply_stmt",
                rules=[(factor_re, factor_rep, 2), (r"fan_data\(ra, a, rb, b\) \*= ([^;]*);", r"K_APPLY_OP(OP_MUL, \1);", 1),
                       (r"fan_data\(ra, a, rb, b\) /= ([^;]*);", r"K_APPLY_OP(OP_DIV, \1);", 1)])


KERNELS += [
    APPLY("K_apply_block_stmt", "apply_block_norm(FanProjData&, const BlockData3D&, bool)", r"apply_block_norm\(FanProjData& fan_data, const BlockData3D& block_data, const bool apply\)",
          r"block_data\(([^,;]+),\s*([^,;]+),\s*([^,;]+),\s*([^,;()]+)\)", r"FACT4(\1, \2, \3, \4)", ", const int num_axial_crystals_per_block, const int num_tangential_crystals_per_block"),
    APPLY("K_apply_eff_stmt", "apply_efficiencies(FanProjData&, const DetectorEfficiencies&, bool)", r"apply_efficiencies\(FanProjData& fan_data, const DetectorEfficiencies& efficiencies, const bool apply\)",
          r"efficiencies\[(\w+)\]\[(\w+)\] \* efficiencies\[(\w+)\]\[([^\]]+)\]", r"FACT4(\1, \2, \3, \4)", ", const int num_detectors_per_ring"),
    APPLY("K_apply_geo_stmt", "apply_geo_norm(FanProjData&, const GeoData3D&, bool)", r"apply_geo_norm\(FanProjData& fan_data, const GeoData3D& geo_data, const bool apply\)",
          r"work\(([^,;]+),\s*([^,;]+),\s*([^,;]+),\s*([^,;()]+)\)", r"FACT4(\1, \2, \3, \4)", ", const int num_transaxial_detectors"),
]
KERNELS.append(dict(name="K_iter_eff", file=F, cxx_name="iterate_efficiencies(DetectorEfficiencies&, const Array<2,float>&, const FanProjData&)",
                    func=r"iterate_efficiencies\(DetectorEfficiencies& efficiencies, const Array<2, float>& data_fan_sums, const FanProjData& model\)",
                    c_header="void K_iter_eff(const struct FAN* self)", loops=4,
                    rules=[(r"assert\(model\.get_m[^;]*;", "", 4),
                           (r"const int num_detectors_per_ring = model\.get_num_detectors_per_ring\(\);", "const int num_detectors_per_ring = self->num_detectors_per_ring;", 1),
                           (r"model\.get_min_ra\(\)", "0", 1), (r"model\.get_max_ra\(\)", "(self->num_rings - 1)", 1), (r"model\.get_min_a\(\)", "0", 1),
                           (r"model\.get_max_a\(\)", "(self->num_detectors_per_ring - 1)", 1), (r"model\.get_min_rb\(ra\)", "K_fan_get_min_rb(self, ra)", 1),
                           (r"model\.get_max_rb\(ra\)", "FAN_RB_MAX(self, ra, 0)", 1), (r"model\.get_min_b\(a\)", "FAN_MIN_B(self, a)", 1), (r"model\.get_max_b\(a\)", "FAN_MAX_B(self, a)", 1),
                           (r"data_fan_sums\[ra\]\[a\] == 0", "EFF_DATA_ZERO(ra, a)", 1), (r"efficiencies\[ra\]\[a\] = 0;", "EFF_SET(ra, a, 0);", 1),
                           (r"denominator \+= efficiencies\[(\w+)\]\[([^\]]+)\] \* model\(([^;]*)\);", r"EFF_ACCUM(\1, \2, \3);", 1),
                           (r"efficiencies\[ra\]\[a\] = data_fan_sums\[ra\]\[a\] / denominator;", "EFF_SET(ra, a, 1);", 1),
                           (r"float denominator = 0;", "", 1)]))
KERNELS.append(dict(name="K_make_block_data", file=F, cxx_name="make_block_data(BlockData3D&, const FanProjData&): accumulation loops (statement kernel)",
                    func=r"make_block_data\(BlockData3D& block_data, const FanProjData& fan_data\)",
                    span=(r"block_data\.fill\(0\);", r"\+= fan_data\(ra, a, rb, b\);\s*\}"),
                    c_header="void K_make_block_data(const struct FAN* self, const int num_axial_crystals_per_block, const int num_transaxial_crystals_per_block)", loops=4,
                    rules=[(r"block_data\.fill\(0\);", "BLK_FILL0();", 1),
                           (r"fan_data\.get_min_ra\(\)", "0", 1), (r"fan_data\.get_max_ra\(\)", "(self->num_rings - 1)", 1), (r"fan_data\.get_min_a\(\)", "0", 1),
                           (r"fan_data\.get_max_a\(\)", "(self->num_detectors_per_ring - 1)", 1), (r"fan_data\.get_min_rb\(ra\)", "K_fan_get_min_rb(self, ra)", 1),
                           (r"fan_data\.get_max_rb\(ra\)", "FAN_RB_MAX(self, ra, 0)", 1), (r"fan_data\.get_min_b\(a\)", "FAN_MIN_B(self, a)", 1), (r"fan_data\.get_max_b\(a\)", "FAN_MAX_B(self, a)", 1),
                           (r"(?<![\w.])max\(", "K_max_int(", 1),
                           (r"block_data\(([^,;]+),\s*([^,;]+),\s*([^,;]+),\s*([^,;()]+)\)\s*\+= fan_data\(([^;]*)\);", r"BLK_ACCUM(\1, \2, \3, \4, \5);", 1)]))
KERNELS.append(dict(name="K_fan_sum", file=F, cxx_name="FanProjData::sum(const int ra, const int a) const", func=r"FanProjData::sum\(const int ra, const int a\) const",
                    c_header="float K_fan_sum(const struct FAN* self, const int ra, const int a)", loops=2,
                    rules=[(r"(?<![\w.>])get_min_rb\(ra\)", "K_fan_get_min_rb(self, ra)", 1), (r"(?<![\w.>])get_max_rb\(ra\)", "FAN_RB_MAX(self, ra, 0)", 1),
                           (r"(?<![\w.>])get_min_b\(a\)", "FAN_MIN_B(self, a)", 1), (r"(?<![\w.>])get_max_b\(a\)", "FAN_MAX_B(self, a)", 1),
                           (r"(?<![\w.>])num_detectors_per_ring\b", "self->num_detectors_per_ring", 1),
                           (r"sum \+= \(\*this\)\(([^;]*)\);", r"SUM_ACCUM(\1);", 1)]))
KERNELS.append(dict(name="K_make_fan_sum_data", file=F, cxx_name="make_fan_sum_data(Array<2,float>&, const FanProjData&)",
                    func=r"make_fan_sum_data\(Array<2, float>& data_fan_sums, const FanProjData& fan_data\)", c_header="void K_make_fan_sum_data(const struct FAN* self)", loops=2,
                    rules=[(r"fan_data\.get_min_ra\(\)", "0", 1), (r"fan_data\.get_max_ra\(\)", "(self->num_rings - 1)", 1), (r"fan_data\.get_min_a\(\)", "0", 1),
                           (r"fan_data\.get_max_a\(\)", "(self->num_detectors_per_ring - 1)", 1),
                           (r"data_fan_sums\[(\w+)\]\[(\w+)\] = fan_data\.sum\((\w+), (\w+)\);", r"FANSUM_SET(\1, \2, \3, \4);", 1)]))
# FanProjData range accessors (get_min/max_rb, get_min/max_b, get_min/max_a, get_min/max_ra): what the library's loops iterate over
def ACC(name, sig, header):
    return dict(name=name, file=F, cxx_name="FanProjData::" + sig, func=r"FanProjData::" + re.escape(sig).replace("\\ ", " ") + r" const", c_header=header, loops=0, contract_alias=name,
                rules=[(r"\(\*this\)\[([^\]\[]+)\]\[\(\*this\)\[([^\]\[]+)\]\.get_min_index\(\)\]\.get_(min|max)_index\(\)", r"RNG2(self, \1, A_MIN_OF(self, \2), \3)", (0, 1)),
                       (r"\(\*this\)\[([^\]\[]+)\]\[(\w+)\]\[\(\*this\)\[([^\]\[]+)\]\[(\w+)\]\.get_min_index\(\)\]\.get_(min|max)_index\(\)",
                        r"RNG3(self, \1, \2, RB_MIN_OF(self, \3, \4), \5)", (0, 1)),
                       (r"\(\*this\)\[([^\]\[]+)\]\.get_(min|max)_index\(\)", r"RNG1(self, \1, \2)", (0, 1)),
                       (r"base_type::get_(min|max)_index\(\)", r"RNG0(self, \1)", (0, 1)), (r"(?<![\w>.:])get_min_index\(\)", "RNG0(self, min)", (0, 3)),
                       (r"(?<![\w>.])max_ring_diff\b", "self->max_ring_diff", (0, 1)), (r"\bmax\(", "K_max_int(", (0, 1))])


import re as _re
KERNELS += [
    ACC("K_fan_get_max_rb", "get_max_rb(const int ra)", "int K_fan_get_max_rb(const struct FAN* self, const int ra)"),
    ACC("K_fan_get_min_rb_acc", "get_min_rb(const int ra)", "int K_fan_get_min_rb_acc(const struct FAN* self, const int ra)"),
    ACC("K_fan_get_min_b", "get_min_b(const int a)", "int K_fan_get_min_b(const struct FAN* self, const int a)"),
    ACC("K_fan_get_max_b", "get_max_b(const int a)", "int K_fan_get_max_b(const struct FAN* self, const int a)"),
    ACC("K_fan_get_max_a", "get_max_a()", "int K_fan_get_max_a(const struct FAN* self)"),
    ACC("K_fan_get_max_ra", "get_max_ra()", "int K_fan_get_max_ra(const struct FAN* self)"),
]
# GeoData3D: same pattern (only half of the data stored; the fan is the whole ring: [a, a+N-1])
GSEL = [(r"\(\*this\)\[([^\]]+)\]\[([^\]]+)\]\[([^\]]+)\]\s*\[([^\]]+)\]", r"GEO_CELL(self, \1, \2, \3, \4)", 1),
        (r"get_min_b\(", "GEO_MIN_B(self, ", 1), (r"(?<![\w>.])num_detectors_per_ring\b", "self->num_detectors_per_ring", 2)]
KERNELS += [
    dict(name="K_geo_select", file=F, cxx_name="GeoData3D::operator()(ra,a,rb,b) const", func=r"GeoData3D::operator\(\)\(const int ra, const int a, const int rb, const int b\) const",
         c_header="float K_geo_select(const struct GEO* self, const int ra, const int a, const int rb, const int b)", loops=0, rules=GSEL),
    dict(name="K_geo_select_nc", file=F, cxx_name="GeoData3D::operator()(ra,a,rb,b) (non-const)", func=r"GeoData3D::operator\(\)\(const int ra, const int a, const int rb, const int b\)(?!\s*const)",
         c_header="float K_geo_select_nc(const struct GEO* self, const int ra, const int a, const int rb, const int b)", loops=0, rules=GSEL),
    dict(name="K_geo_is_in_data", file=F, cxx_name="GeoData3D::is_in_data", func=r"GeoData3D::is_in_data\(const int ra, const int a, const int rb, const int b\) const",
         c_header="_Bool K_geo_is_in_data(const struct GEO* self, const int ra, const int a, const int rb, const int b)", loops=0,
         rules=[(r"\(\*this\)\[ra\]\[a\]\.get_min_index\(\)", "GEO_RB_MIN(self, ra, a)", 1), (r"\(\*this\)\[ra\]\[a\]\.get_max_index\(\)", "GEO_RB_MAX(self, ra, a)", 1),
                (r"get_min_b\(", "GEO_MIN_B(self, ", (1, 2)), (r"get_max_b\(", "GEO_MAX_B(self, ", 2), (r"(?<![\w>.])num_detectors_per_ring\b", "self->num_detectors_per_ring", (1, 2))]),
    dict(name="K_geo_ctor", file=F, cxx_name="GeoData3D::GeoData3D(num_axial_crystals_per_block, half_num_transaxial_crystals_per_block, num_rings, num_detectors_per_ring)",
         func=r"GeoData3D::GeoData3D\(const int num_axial_crystals_per_block,\s*const int half_num_transaxial_crystals_per_block,\s*const int num_rings,\s*const int num_detectors_per_ring\)",
         init_list=True, c_header="void K_geo_ctor(struct GEO* self, const int num_axial_crystals_per_block, const int half_num_transaxial_crystals_per_block, const int num_rings, "
                                  "const int num_detectors_per_ring)", loops=3,
         rules=[(r"IndexRange<4> fan_indices;", "", 1), (r"fan_indices\.grow\(([^;]*)\);", r"IDX_GROW0(\1);", 1), (r"fan_indices\[ra\]\.grow\(([^;]*)\);", r"IDX_GROW1(ra, \1);", 1),
                (r"fan_indices\[ra\]\[a\]\.grow\(([^;]*)\);", r"GEO_GROW2(ra, a, \1);", 1),
                (r"fan_indices\[ra\]\[a\]\[rb\]\s*= IndexRange<1>\(([^;]*)\);", r"GEO_SET3(ra, a, rb, \1);", 1),
                (r"(?<![\w>.])grow\(fan_indices\);", "", 1), (r"(?<![\w>.])fill\(0\);", "", 1)]),
]
for k in KERNELS:
    if k["name"].startswith("K_geo_select"):
        k["contract_alias"] = "K_geo_select"
for k in KERNELS:
    if k["name"].startswith("K_fan_select"):
        k["contract_alias"] = "K_fan_select"

CHK = ["--signed-overflow-check", "--div-by-zero-check", "--bounds-check", "--pointer-check"]
NS = {"quick": [4, 8, 16, 64, 576], "thorough": [2, 4, 6, 8, 12, 16, 30, 64, 112, 384, 576, 784]}
BLOCKS = {"quick": [(9, 1, 9, 1), (8, 0, 8, 0), (7, 1, 6, 0), (13, 1, 8, 2), (4, 2, 3, 1)],
          "thorough": [(c, v, ca, va) for c in (2, 3, 4, 7, 8, 9, 13, 16) for v in (0, 1, 2) if v < c for ca, va in ((9, 1), (8, 0), (5, 2))]}


def jobs(tier, gen_dir):
    out = []

    def J(name, entry, enforce=None, repl=(), kind="enforce", defs=None, kernels=(), **kw):
        out.append(Job("c20/" + name, HARNESS, entry, enforce=enforce, replace=list(repl), kernels=list(kernels), flags=CHK, no_base_flags=True,
                       min_obligations=kw.pop("min_obligations", 3), timeout=kw.pop("timeout", 300), backend=kw.pop("backend", "kissat"), kind=kind, defines=defs or {}, **kw))

    RD = ["FAN_MIN_B", "FAN_MAX_B", "FAN_RB_MIN", "FAN_RB_MAX"]
    J("K_fan_is_in_data", "h_K_fan_is_in_data", enforce="K_fan_is_in_data", repl=RD, kernels=["K_fan_is_in_data"])
    J("K_fan_select", "h_K_fan_select", enforce="K_fan_select", repl=RD, kernels=["K_fan_select"])
    J("K_fan_select_nc", "h_K_fan_select_nc", enforce="K_fan_select_nc", repl=RD, kernels=["K_fan_select_nc"])
    for N in NS[tier][:6]:
        J("K_fan_select/loop-domain/N=%d" % N, "h_K_fan_select", enforce="K_fan_select", repl=RD, kernels=["K_fan_select"], defs={"C20_LOOP_DOMAIN": None, "C20_N": N},
          params={"num_detectors_per_ring": N, "domain": "as the library's loops call it (b not reduced modulo N)"})
    for N in NS[tier]:
        J("lemma_fan_cells/N=%d" % N, "h_lemma_fan_cells", kind="lemma", repl=["K_fan_select"], defs={"C20_N": N}, params={"num_detectors_per_ring": N},
          kernels=["K_fan_select"], min_obligations=3)
    for (ct, vt, ca, va) in BLOCKS[tier]:
        d = {"C20_CT": ct, "C20_VT": vt, "C20_CA": ca, "C20_VA": va}
        pr = {"transaxial crystals/block": ct, "virtual transaxial": vt, "axial crystals/block": ca, "virtual axial": va}
        sfx = "/C=%d,%d,%d,%d" % (ct, vt, ca, va)
        J("K_remove_gaps_map" + sfx, "h_K_remove_gaps_map", enforce="K_remove_gaps_map", defs=d, params=pr, kernels=["K_remove_gaps_map"])
        J("K_add_gaps_map" + sfx, "h_K_add_gaps_map", enforce="K_add_gaps_map", defs=d, params=pr, kernels=["K_add_gaps_map"])
        J("lemma_gap_map" + sfx, "h_lemma_gap_map", kind="lemma", defs=d, params=pr, min_obligations=3)
    # ML update of the geometric / block factors: element statement of the four iterate_*_norm functions (float, MiniSat)
    for k in ("K_ml_ratio_geo2d", "K_ml_ratio_block2d", "K_ml_ratio_geo3d", "K_ml_ratio_block3d"):
        J(k, "h_" + k, enforce=k, kernels=[k], backend="sat", min_obligations=2)
        J("lemma_ml_fixed_point/" + k, "h_lemma_fixed_point_" + k, kind="lemma", repl=[k], kernels=[k], backend="sat", min_obligations=1, timeout=900)
    out.append(Job("c20/canary/K_ml_ratio_block3d", HARNESS, "h_K_ml_ratio_block3d", enforce="K_ml_ratio_block3d", kernels=["K_ml_ratio_block3d"], kind="canary",
                   defines={"CANARY_K_ml_ratio_block3d": None}, expect_fail=r"K_ml_ratio_block3d\.postcondition", no_base_flags=True, timeout=300))
    for (ct, vt, ca, va) in BLOCKS[tier][:6]:
        J("K_apply_block_stmt/C=%d,%d" % (ct, ca), "h_K_apply_block_stmt", enforce="K_apply_block_stmt", kernels=["K_apply_block_stmt"], min_obligations=2,
          defs={"APPLY_KIND_block": None, "C20_CT": ct, "C20_CA": ca}, params={"transaxial crystals/block": ct, "axial crystals/block": ca})
    for N in NS[tier][:6]:
        for k in ("K_apply_eff_stmt", "K_apply_geo_stmt"):
            J("%s/N=%d" % (k, N), "h_" + k, enforce=k, kernels=[k], min_obligations=2, defs={"APPLY_KIND_" + k.split("_")[2]: None, "C20_N": N}, params={"num_detectors_per_ring": N})
    out.append(Job("c20/canary/K_apply_block_stmt", HARNESS, "h_K_apply_block_stmt", enforce="K_apply_block_stmt", kernels=["K_apply_block_stmt"], kind="canary",
                   defines={"CANARY_K_apply_block_stmt": None, "APPLY_KIND_block": None, "C20_CT": 9, "C20_CA": 9}, backend="kissat", expect_fail=r"K_apply_block_stmt\.postcondition", no_base_flags=True, timeout=300))
    for N in NS[tier][:4]:
        J("K_iter_eff/N=%d" % N, "h_K_iter_eff", enforce="K_iter_eff", repl=RD + ["EFF_DATA_ZERO"], kernels=["K_iter_eff"], loop_contracts=True, object_bits=12, timeout=900,
          defs={"C20_N": N}, params={"num_detectors_per_ring": N})
    out.append(Job("c20/canary/K_iter_eff", HARNESS, "h_K_iter_eff", enforce="K_iter_eff", replace=RD + ["EFF_DATA_ZERO"], kernels=["K_iter_eff"], kind="canary", loop_contracts=True,
                   defines={"CANARY_K_iter_eff": None, "C20_N": 8}, expect_fail=r"K_iter_eff\.postcondition", no_base_flags=True, timeout=300, backend="kissat", object_bits=12))
    for (ct, vt, ca, va) in BLOCKS[tier][:4]:
        J("K_make_block_data/C=%d,%d" % (ct, ca), "h_K_make_block_data", enforce="K_make_block_data", repl=RD, kernels=["K_make_block_data"], loop_contracts=True, object_bits=12, timeout=900,
          defs={"C20_CT": ct, "C20_CA": ca}, params={"transaxial crystals/block": ct, "axial crystals/block": ca})
    out.append(Job("c20/canary/K_make_block_data", HARNESS, "h_K_make_block_data", enforce="K_make_block_data", replace=RD, kernels=["K_make_block_data"], kind="canary", loop_contracts=True,
                   defines={"CANARY_K_make_block_data": None, "C20_CT": 8, "C20_CA": 8}, expect_fail=r"K_make_block_data\.postcondition", no_base_flags=True, timeout=300, backend="kissat", object_bits=12))
    J("K_make_fan_sum_data", "h_K_make_fan_sum_data", enforce="K_make_fan_sum_data", kernels=["K_make_fan_sum_data"], loop_contracts=True, object_bits=12, timeout=600)
    J("K_fan_sum", "h_K_fan_sum", enforce="K_fan_sum", repl=RD, kernels=["K_fan_sum"], loop_contracts=True, object_bits=12, timeout=600)
    for k in ("K_fan_get_max_rb", "K_fan_get_min_rb_acc", "K_fan_get_min_b", "K_fan_get_max_b", "K_fan_get_max_a", "K_fan_get_max_ra"):
        J(k, "h_" + k, enforce=k, kernels=[k], min_obligations=2)
    GRD = ["GEO_MIN_B", "GEO_MAX_B", "GEO_RB_MIN", "GEO_RB_MAX"]
    J("K_geo_is_in_data", "h_K_geo_is_in_data", enforce="K_geo_is_in_data", repl=GRD, kernels=["K_geo_is_in_data"])
    J("K_geo_select", "h_K_geo_select", enforce="K_geo_select", repl=GRD, kernels=["K_geo_select"])
    J("K_geo_select_nc", "h_K_geo_select_nc", enforce="K_geo_select_nc", repl=GRD, kernels=["K_geo_select_nc"])
    J("K_geo_ctor", "h_K_geo_ctor", enforce="K_geo_ctor", kernels=["K_geo_ctor"], loop_contracts=True)
    J("K_fan_ctor", "h_K_fan_ctor", enforce="K_fan_ctor", kernels=["K_fan_ctor"], loop_contracts=True)
    out.append(Job("c20/canary/K_fan_ctor", HARNESS, "h_K_fan_ctor", enforce="K_fan_ctor", kernels=["K_fan_ctor"], kind="canary", loop_contracts=True,
                   defines={"CANARY_K_fan_ctor": None}, expect_fail=r"K_fan_ctor\.postcondition", no_base_flags=True, timeout=300, backend="kissat"))
    for k in ("K_fan_select", "K_remove_gaps_map"):
        out.append(Job("c20/canary/" + k, HARNESS, "h_" + k, enforce=k, replace=RD if "fan" in k else [], kernels=[k], kind="canary",
                       defines={"CANARY_" + k: None}, expect_fail=r"%s\.postcondition" % k, no_base_flags=True, timeout=300))
    return out


TRUSTED = ["index ranges of FanProjData: the readers FAN_MIN_B/FAN_MAX_B/FAN_RB_MIN/FAN_RB_MAX have as contract the postcondition of the constructor kernel K_fan_ctor "
           "(IndexRange<4>::grow / Array::grow deliver the requested ranges: C11)",
           "get_det_pair_for_bin / get_bin_for_det_pair are decided under C01"]
ASSUMPTIONS = ["parametric: crystals per block / virtual crystals per block are constants per job; crystal and ring numbers < 100000"]
UNDECIDED_CLAUSES = ["that dividing by a factor undoes multiplying by it (float rounding); the geometric factors' rotation / mirror map inside apply_geo_norm",
                     "fixed point of iterate_efficiencies, the make_geo_data symmetrisation / rotation sums, the float values of the sums (only which elements enter make_block_data and FanProjData::sum is decided), and Kullback-Leibler descent of the ML iterations", "the loops of make_fan_data_remove_gaps_help / set_fan_data_add_gaps_help around the index maps",
                     "the 2D classes DetPairData / GeoData / BlockData (same pattern as FanProjData / GeoData3D, not under contract; BlockData3D is a typedef of FanProjData)"]


def param_summary(tier):
    return {"num_detectors_per_ring": NS[tier], "block geometries (CT,VT,CA,VA)": BLOCKS[tier], "rings, ring difference, fan size": "symbolic"}


# ---------------- native replay (real STIR libraries rebuilt from the working tree, ASan) ----------------
from vlib import native


def replay(job, o, workroot, repo):
    exe = os.path.join(workroot, "c20_replay")
    if not os.path.exists(exe):
        exe, info = native.build(repo, os.path.join(VERIF, "replay", "c20.cpp"), exe)
        if not exe:
            return {"status": "unavailable", "detail": "replay driver did not build: " + info}
    cands = [["indata", 2, 8, 1, 1], ["indata", 3, 16, 2, 7], ["indata", 4, 12, 3, 5], ["indata", 1, 4, 0, 1], ["roundtrip"], ["gaps"]]
    if "gap" in job.name:
        cands = [["gaps"], ["roundtrip"]]
    if "ml_" in job.name:
        cands = [["mlblock"]]
    if "K_apply_" in job.name:
        cands = [["applyundo"]]
    if "K_fan_get_" in job.name or "K_fan_ctor" in job.name or "K_iter_eff" in job.name:
        cands = [["ranges", 4, 8, 1, 3], ["ranges", 6, 16, 2, 5], ["ranges", 3, 8, 2, 7], ["ranges", 5, 12, 0, 1]] + cands
    for c in cands:
        st, detail = native.run(exe, c, timeout=900)
        if st == "confirmed":
            return {"status": "confirmed", "detail": detail, "command": "c20_replay " + " ".join(map(str, c)), "from_verifier_counterexample": False}
    return {"status": "not-reproduced", "detail": "%d native runs (exhaustive per configuration)" % len(cands)}
