"""C01 - detector pairs and sinogram bins form a consistent partition (DESIGN.md section 6, C01)."""
import os
import re

from vlib.runner import Job
from vlib import extract

VERIF = os.path.dirname(os.path.dirname(os.path.abspath(__file__)))
HARNESS = os.path.join(VERIF, "harness", "c01.c")
CXX = "src/buildblock/ProjDataInfoCylindricalNoArcCorr.cxx"
INL = "src/include/stir/ProjDataInfoCylindricalNoArcCorr.inl"
CLS = "ProjDataInfoCylindricalNoArcCorr::"

STATIC_ASSERT = (r"BOOST_STATIC_ASSERT\(([^;]*)\);", r'__CPROVER_assert(\1, "arithmetic right shift of negative ints (BOOST_STATIC_ASSERT)");', 2)
NDET = (r"get_scanner_ptr\(\)->get_num_detectors_per_ring\(\)", "self->num_detectors_per_ring", 1)

KERNELS = [
    dict(name="K_init_vt2d", file=CXX, cxx_name=CLS + "initialise_uncompressed_view_tangpos_to_det1det2",
         func=CLS + r"initialise_uncompressed_view_tangpos_to_det1det2\(\) const",
         c_header="void K_init_vt2d(struct PDI1* self)", loops=2,
         rules=[STATIC_ASSERT, NDET,
                (r"this->get_(min|max)_tangential_pos_num\(\)", r"self->\1_tangential_pos_num", 4),
                (r'error\("The tangential_pos range[^;]*;', "K_THROW_VOID;", 1),
                (r"uncompressed_view_tangpos_to_det1det2\.grow\(([^;]*)\);", r"TAB1_GROW_OUTER(\1);", 1),
                (r"uncompressed_view_tangpos_to_det1det2\[(\w+)\]\.grow\(([^;]*)\);", r"TAB1_GROW_INNER(\1, \2);", 1),
                (r"uncompressed_view_tangpos_to_det1det2\[(\w+)\]\[(\w+)\]\.(det[12]_num)\s*=\s*([^;]+);", r"TAB1_WRITE(\1, \2, \3, \4);", 2),
                (r"uncompressed_view_tangpos_to_det1det2_initialised = true;", "self->tab1_initialised = 1;", 1)]),
    dict(name="K_init_d2vt", file=CXX, cxx_name=CLS + "initialise_det1det2_to_uncompressed_view_tangpos",
         func=CLS + r"initialise_det1det2_to_uncompressed_view_tangpos\(\) const",
         c_header="void K_init_d2vt(struct PDI1* self)", loops=2,
         rules=[STATIC_ASSERT, NDET,
                (r'error\("Number of detectors per ring should be even[^;]*;', "K_THROW_VOID;", 1),
                (r'error\("Minimum view number should currently be zero[^;]*;', "K_THROW_VOID;", 1),
                (r"this->get_min_view_num\(\)", "self->min_view_num", 1),
                (r"det1det2_to_uncompressed_view_tangpos\.grow\(([^;]*)\);", r"TAB2_GROW_OUTER(\1);", 1),
                (r"det1det2_to_uncompressed_view_tangpos\[(\w+)\]\.grow\(([^;]*)\);", r"TAB2_GROW_INNER(\1, \2);", 1),
                (r"det1det2_to_uncompressed_view_tangpos\[(\w+)\]\[(\w+)\]\.(view_num|tang_pos_num|swap_detectors)\s*=\s*([^;]+);",
                 r"TAB2_WRITE(\1, \2, \3, \4);", 3),
                (r"(?:this->)?get_view_mashing_factor\(\)", "self->view_mashing_factor", (0, 3)),
                (r"det1det2_to_uncompressed_view_tangpos_initialised = true;", "self->tab2_initialised = 1;", 1)]),
]


BINF = (r"\bbin\.(segment_num|view_num|axial_pos_num|tangential_pos_num|timing_pos_num)\(\)", r"bin->\1", None)
DPF = (r"\bdp\.pos([12])\(\)\.(tang|axial)(?:ential)?_coord\(\)", r"dp->p\1_\2", None)
KERNELS += [
    dict(name="K_init_vt2d_if_not_done_yet", file=INL, cxx_name=CLS + "initialise_uncompressed_view_tangpos_to_det1det2_if_not_done_yet",
         func=CLS + r"initialise_uncompressed_view_tangpos_to_det1det2_if_not_done_yet\(\) const",
         c_header="void K_init_vt2d_if_not_done_yet(struct PDI1* self)", loops=0,
         rules=[(r"(?<!\w)initialise_uncompressed_view_tangpos_to_det1det2\(\);", "K_init_vt2d_call(self);", 1),
                (r"\buncompressed_view_tangpos_to_det1det2_initialised\b", "self->tab1_initialised", 1)]),
    dict(name="K_init_d2vt_if_not_done_yet", file=INL, cxx_name=CLS + "initialise_det1det2_to_uncompressed_view_tangpos_if_not_done_yet",
         func=CLS + r"initialise_det1det2_to_uncompressed_view_tangpos_if_not_done_yet\(\) const",
         c_header="void K_init_d2vt_if_not_done_yet(struct PDI1* self)", loops=0,
         rules=[(r"(?<!\w)initialise_det1det2_to_uncompressed_view_tangpos\(\);", "K_init_d2vt_call(self);", 1),
                (r"\bdet1det2_to_uncompressed_view_tangpos_initialised\b", "self->tab2_initialised", 1)]),
    dict(name="K_get_det_num_pair_for_vt", file=INL, cxx_name=CLS + "get_det_num_pair_for_view_tangential_pos_num",
         func=CLS + r"get_det_num_pair_for_view_tangential_pos_num\(int& det1_num,\s*int& det2_num,\s*const int view_num,\s*const int tang_pos_num\) const",
         c_header="void K_get_det_num_pair_for_vt(struct PDI1* self, int* det1_num, int* det2_num, const int view_num, const int tang_pos_num)", loops=0,
         rules=[(r"this->initialise_uncompressed_view_tangpos_to_det1det2_if_not_done_yet\(\);", "K_init_vt2d_if_not_done_yet(self); K_RETURN_IF_ERROR();", 1),
                (r"\bdet([12])_num = uncompressed_view_tangpos_to_det1det2\[(\w+)\]\[(\w+)\]\.(det[12]_num);", r"*det\1_num = TAB1_READ_\4(self, \2, \3);", 2)]),
    dict(name="K_get_vt_for_det_num_pair", file=INL, cxx_name=CLS + "get_view_tangential_pos_num_for_det_num_pair",
         func=CLS + r"get_view_tangential_pos_num_for_det_num_pair\(int& view_num,\s*int& tang_pos_num,\s*const int det1_num,\s*const int det2_num\) const",
         c_header="_Bool K_get_vt_for_det_num_pair(struct PDI1* self, int* view_num, int* tang_pos_num, const int det1_num, const int det2_num)", loops=0,
         rules=[(r"this->initialise_det1det2_to_uncompressed_view_tangpos_if_not_done_yet\(\);", "K_init_d2vt_if_not_done_yet(self); K_RETURN_IF_ERROR(0);", 1),
                (r"det1det2_to_uncompressed_view_tangpos\[(\w+)\]\[(\w+)\]\.(view_num|tang_pos_num|swap_detectors)", r"TAB2_GET_\3(self, \1, \2)", 3),
                (r"(?<![\w.>])(view_num|tang_pos_num) = ", r"*\1 = ", 2),
                (r"get_view_mashing_factor\(\)", "self->view_mashing_factor", (0, 2))]),
    dict(name="K_get_bin_for_det_pair", file=INL, cxx_name=CLS + "get_bin_for_det_pair",
         func=CLS + r"get_bin_for_det_pair\(\s*Bin& bin, const int det_num1, const int ring_num1, const int det_num2, const int ring_num2, const int timing_pos_num\) const",
         c_header="int K_get_bin_for_det_pair(struct PDI1* self, struct Bin* bin, const int det_num1, const int ring_num1, const int det_num2, const int ring_num2, const int timing_pos_num)",
         loops=0,
         rules=[(r"if \(get_view_tangential_pos_num_for_det_num_pair\(bin\.view_num\(\), bin\.tangential_pos_num\(\), det_num1, det_num2\)\)",
                 "const _Bool K_pos = K_get_vt_for_det_num_pair(self, &bin->view_num, &bin->tangential_pos_num, det_num1, det_num2); K_RETURN_IF_ERROR(0); if (K_pos)", 1),
                (r"get_segment_axial_pos_num_for_ring_pair\(bin\.segment_num\(\), bin\.axial_pos_num\(\), (\w+), (\w+)\)",
                 r"K_ring_pair_to_seg_ax(self, &bin->segment_num, &bin->axial_pos_num, \1, \2)", 2),
                BINF]),
    dict(name="K_round_float", file="src/include/stir/round.inl", cxx_name="stir::round(float)", func=r"\bround\(const float x\)",
         c_header="int K_round_float(const float x)", loops=0, rules=[(r"static_cast<int>\(", "CAST(int, ", 2)],
         disable_checks=["float-overflow"]),
    dict(name="K_get_bin_for_det_pos_pair", file=INL, cxx_name=CLS + "get_bin_for_det_pos_pair",
         func=CLS + r"get_bin_for_det_pos_pair\(Bin& bin, const DetectionPositionPair<>& dp\) const",
         c_header="int K_get_bin_for_det_pos_pair(struct PDI1* self, struct Bin* bin, const struct DPP* dp)", loops=0,
         rules=[(r"return get_bin_for_det_pair\(bin,", "return K_get_bin_for_det_pair(self, bin,", 1), DPF,
                (r"dp\.timing_pos\(\)", "dp->timing_pos", 1), (r"this->get_tof_mash_factor\(\)", "self->tof_mash_factor", 2),
                (r"stir::round\(", "K_round_float(", 1)]),
    dict(name="K_get_det_pair_for_bin", file=INL, cxx_name=CLS + "get_det_pair_for_bin",
         func=CLS + r"get_det_pair_for_bin\(\s*int& det_num1, int& ring_num1, int& det_num2, int& ring_num2, const Bin& bin\) const",
         c_header="void K_get_det_pair_for_bin(struct PDI1* self, int* det_num1, int* ring_num1, int* det_num2, int* ring_num2, const struct Bin* bin)", loops=0,
         rules=[(r"get_det_num_pair_for_view_tangential_pos_num\(det_num1, det_num2,", "K_get_det_num_pair_for_vt(self, det_num1, det_num2,", 1),
                (r"get_ring_pair_for_segment_axial_pos_num\(ring_num1, ring_num2,", "K_RETURN_IF_ERROR(); K_seg_ax_to_ring_pair(self, ring_num1, ring_num2,", 1),
                BINF]),
    dict(name="K_get_det_pos_pair_for_bin", file=INL, cxx_name=CLS + "get_det_pos_pair_for_bin",
         func=CLS + r"get_det_pos_pair_for_bin\(DetectionPositionPair<>& dp, const Bin& bin\) const",
         c_header="void K_get_det_pos_pair_for_bin(struct PDI1* self, struct DPP* dp, const struct Bin* bin)", loops=0,
         rules=[(r"get_det_pair_for_bin\(t1, a1, t2, a2, bin\);", "K_get_det_pair_for_bin(self, &t1, &a1, &t2, &a2, bin); K_RETURN_IF_ERROR();", 1), DPF, BINF,
                (r"dp\.timing_pos\(\)", "dp->timing_pos", 1), (r"this->get_tof_mash_factor\(\)", "self->tof_mash_factor", 1),
                (r"std::abs\(", "K_abs_int(", 1)]),
]


CYL_INL = "src/include/stir/ProjDataInfoCylindrical.inl"
CYL_CXX = "src/buildblock/ProjDataInfoCylindrical.cxx"
CYL = "ProjDataInfoCylindrical::"
SEGACC = [(r"get_(min|max)_ring_difference\(([^()]*(?:\(\))?)\)", r"SEGV(self, \1_ring_diff, \2)", None),
          (r"get_(min|max)_segment_num\(\)", r"self->\1_seg", None),
          (r"(?<![\w>.])(min|max)_ring_diff\[(\w+)\]", r"SEGV(self, \1_ring_diff, \2)", None),
          (r"get_scanner_ptr\(\)->get_num_rings\(\)", "self->num_rings", None),
          (r"(?<![\w>.])sampling_corresponds_to_physical_rings\b", "self->sampling_corresponds_to_physical_rings", None),
          (r"this->initialise_ring_diff_arrays_if_not_done_yet\(\);", "K_init_ring_diff_arrays_if_not_done_yet(self); K_RETURN_IF_ERROR(K_ERRVAL);", None),
          (r"Succeeded::yes", "1", None), (r"Succeeded::no", "0", None)]
KERNELS += [
    dict(name="K_get_num_axial_poss_per_ring_inc", file=CYL_INL, cxx_name=CYL + "get_num_axial_poss_per_ring_inc",
         func=CYL + r"get_num_axial_poss_per_ring_inc\(const int segment_num\) const",
         c_header="int K_get_num_axial_poss_per_ring_inc(const struct PDI2* self, const int segment_num)", loops=0, rules=SEGACC),
    dict(name="K_get_segment_num_for_ring_difference", file=CYL_INL, cxx_name=CYL + "get_segment_num_for_ring_difference",
         func=CYL + r"get_segment_num_for_ring_difference\(int& segment_num, const int ring_diff\) const",
         c_header="int K_get_segment_num_for_ring_difference(struct PDI2* self, int* segment_num, const int ring_diff)", loops=0,
         pre="#define K_ERRVAL 0",
         post="#undef K_ERRVAL",
         rules=[(r"segment_num = ring_diff_to_segment_num\[ring_diff\];", "*segment_num = RD2SEG_READ(self, ring_diff);", 1),
                (r"if \(segment_num <= ", "if (*segment_num <= ", 1)] + SEGACC),
    dict(name="K_get_segment_axial_pos_num_for_ring_pair", file=CYL_INL, cxx_name=CYL + "get_segment_axial_pos_num_for_ring_pair",
         func=CYL + r"get_segment_axial_pos_num_for_ring_pair\(int& segment_num,\s*int& ax_pos_num,\s*const int ring1,\s*const int ring2\) const",
         c_header="int K_get_segment_axial_pos_num_for_ring_pair(struct PDI2* self, int* segment_num, int* ax_pos_num, const int ring1, const int ring2)", loops=0,
         rules=[(r"if \(get_segment_num_for_ring_difference\(segment_num, ring2 - ring1\) == Succeeded::no\)",
                 "const int K_found = K_get_segment_num_for_ring_difference(self, segment_num, ring2 - ring1); K_RETURN_IF_ERROR(0); if (K_found == 0)", 1),
                (r"ax_pos_num = \(ring1 \+ ring2 - ax_pos_num_offset\[segment_num\]\) \* get_num_axial_poss_per_ring_inc\(segment_num\) / 2;",
                 "*ax_pos_num = (ring1 + ring2 - SEGV(self, ax_pos_num_offset, *segment_num)) * K_get_num_axial_poss_per_ring_inc(self, *segment_num) / 2;", 1)] + SEGACC),
    dict(name="K_compute_segment_axial_pos_to_ring_pair", file=CYL_CXX, cxx_name=CYL + "compute_segment_axial_pos_to_ring_pair",
         func=CYL + r"compute_segment_axial_pos_to_ring_pair\(const int segment_num, const int axial_pos_num\) const",
         c_header="void K_compute_segment_axial_pos_to_ring_pair(const struct PDI2* self, const int segment_num, const int axial_pos_num)", loops=1,
         rules=[(r"shared_ptr<RingNumPairs> new_el\(new RingNumPairs\);", "", 1),
                (r"segment_axial_pos_to_ring_pair\[segment_num\]\[axial_pos_num\] = new_el;", "", 1),
                (r"RingNumPairs& table = \*segment_axial_pos_to_ring_pair\[segment_num\]\[axial_pos_num\];", "", 1),
                (r"table\.reserve\(([^;]*)\);", r"RP_RESERVE(\1);", 1),
                (r"table\.push_back\(pair<int, int>\((\w+), (\w+)\)\);", r"RP_PUSH(\1, \2);", 1),
                (r"segment_axial_pos_to_ring1_plus_ring2\[segment_num\]\[axial_pos_num\]", "RPR_READ(self, segment_num, axial_pos_num)", 1)] + SEGACC),
    dict(name="K_get_ring_pair_for_segment_axial_pos_num", file=CYL_CXX, cxx_name=CYL + "get_ring_pair_for_segment_axial_pos_num",
         func=CYL + r"get_ring_pair_for_segment_axial_pos_num\(int& ring1,\s*int& ring2,\s*const int segment_num,\s*const int axial_pos_num\) const",
         c_header="void K_get_ring_pair_for_segment_axial_pos_num(struct PDI2* self, int* ring1, int* ring2, const int segment_num, const int axial_pos_num)", loops=0,
         pre="#define K_ERRVAL", post="#undef K_ERRVAL",
         rules=[(r'error\("ProjDataInfoCylindrical::get_ring_pair_for_segment_axial_pos_num does not work[^;]*;', "K_THROW_VOID;", 2),
                (r"segment_axial_pos_to_ring1_plus_ring2\[segment_num\]\[axial_pos_num\]", "RPR_READ(self, segment_num, axial_pos_num)", 1),
                (r"(?<![\w.>*])ring([12]) = ", r"*ring\1 = ", 2)] + SEGACC),
]


KERNELS += [
    dict(name="K_get_num_det_pos_pairs_for_bin", file=CXX, cxx_name=CLS + "get_num_det_pos_pairs_for_bin",
         func=CLS + r"get_num_det_pos_pairs_for_bin\(const Bin& bin, bool ignore_non_spatial_dimensions\) const",
         c_header="unsigned int K_get_num_det_pos_pairs_for_bin(const struct PDI1* self, const struct Bin* bin, _Bool ignore_non_spatial_dimensions)", loops=0,
         rules=[(r"get_num_ring_pairs_for_segment_axial_pos_num\(", "NUM_RP(self, ", 1), BINF, (r"get_view_mashing_factor\(\)", "self->view_mashing_factor", 1),
                (r"get_tof_mash_factor\(\)", "self->tof_mash_factor", 1), (r"std::max\(", "K_max_int(", 1)]),
    dict(name="K_get_all_det_pos_pairs_for_bin", file=CXX, cxx_name=CLS + "get_all_det_pos_pairs_for_bin",
         func=CLS + r"get_all_det_pos_pairs_for_bin\(vector<DetectionPositionPair<>>& dps,\s*const Bin& bin,\s*bool ignore_non_spatial_dimensions\) const",
         c_header="void K_get_all_det_pos_pairs_for_bin(struct PDI1* self, const struct Bin* bin, _Bool ignore_non_spatial_dimensions)", loops=3,
         rules=[(r"this->initialise_uncompressed_view_tangpos_to_det1det2_if_not_done_yet\(\);", "K_init_vt2d_if_not_done_yet(self); K_RETURN_IF_ERROR();", 1),
                (r"dps\.resize\(get_num_det_pos_pairs_for_bin\(bin, ignore_non_spatial_dimensions\)\);",
                 "DPS_RESIZE(K_get_num_det_pos_pairs_for_bin(self, bin, ignore_non_spatial_dimensions));", 1),
                (r"const ProjDataInfoCylindrical::RingNumPairs& ring_pairs\s*= get_all_ring_pairs_for_segment_axial_pos_num\(bin\.segment_num\(\), bin\.axial_pos_num\(\)\);",
                 "RPLIST_GET(self, bin->segment_num, bin->axial_pos_num);", 1),
                (r"for \(auto rings_iter = ring_pairs\.begin\(\); rings_iter != ring_pairs\.end\(\); \+\+rings_iter\)",
                 "for (int rings_iter = 0; rings_iter != g_nrp; ++rings_iter)", 1),
                (r"rings_iter->first", "RP_FIRST(rings_iter)", 1), (r"rings_iter->second", "RP_SECOND(rings_iter)", 1),
                (r"uncompressed_view_tangpos_to_det1det2\[(\w+)\]\[([^\]]+)\]\.(det[12]_num)", r"TAB1_READ_\3(self, \1, \2)", 2),
                (r"dps\[current_dp_num\]\.pos([12])\(\)\.tangential_coord\(\) = ([^;]+);", r"DPS_WRITE(current_dp_num, p\1_tang, \2);", 2),
                (r"dps\[current_dp_num\]\.pos([12])\(\)\.axial_coord\(\) = ([^;]+);", r"DPS_WRITE(current_dp_num, p\1_axial, \2);", 2),
                (r"dps\[current_dp_num\]\.timing_pos\(\) = ([^;]+);", r"DPS_WRITE(current_dp_num, timing_pos, \1);", 1),
                (r'\berror\("[^"]*"\);', "K_THROW_VOID;", (0, 2)),
                (r"(?<![\w>.])is_tof_data\(\)", "K_is_tof_data(self)", (0, 4)),
                (r"get_view_mashing_factor\(\)", "self->view_mashing_factor", (2, 4)), (r"get_tof_mash_factor\(\)", "self->tof_mash_factor", (4, 10)), BINF]),
]


KERNELS += [
    dict(name="K_cti_segments", file="src/buildblock/ProjDataInfo.cxx", cxx_name="ProjDataInfo::ProjDataInfoCTI: span/max_delta -> per-segment vectors (statement kernel)",
         func=r"ProjDataInfo::ProjDataInfoCTI\(const shared_ptr<Scanner>& scanner,", c_header="void K_cti_segments(const int num_ring, const int span, const int max_delta)",
         span=(r"const int num_ring = scanner->get_num_rings\(\);", r"\(2 \* num_ring - 1 - 2 \* RDmintmp\[i\]\);\s*\}\s*\}"), loops=4,
         rules=[(r"const int num_ring = scanner->get_num_rings\(\);", "", 1), (r"error\(boost::format\([^;]*;", "K_THROW_VOID;", 4),
                (r"vector<int> RD(min|max)tmp\(num_ring\);", r"short RD\1tmp[CTI_MAXR]; /* vector<int>; held as short: every entry is bounded by num_ring + span (conversion checked at each store) */", 2),
                (r"warning\(boost::format\([^;]*;", "(void)0;", 1),
                (r"VectorWithOffset<int> (?:num_axial_pos_per_segment|min_ring_difference|max_ring_difference)\(([^;]*)\);", r"OUT_RANGE(\1);", 3),
                (r"num_axial_pos_per_segment\[i\] = num_axial_pos_per_segment\[-i\] = ([^;]+);",
                 r"{ const int K_v = (\1); OUT_WRITE(num_axial_pos_per_segment, i, K_v); OUT_WRITE(num_axial_pos_per_segment, -i, K_v); }", 2),
                (r"(?<![\w.])(num_axial_pos_per_segment|min_ring_difference|max_ring_difference)\[([^\]]+)\] = ([^;]+);", r"OUT_WRITE(\1, \2, \3);", 8),
                (r"(?<!short )RD(min|max)tmp\[([^\]]+)\]", r"RD\1tmp[VIDX(\2)]", (15, 30))]),
]


RDA = r"ProjDataInfoCylindrical::initialise_ring_diff_arrays\(\) const"
KERNELS += [
    dict(name="K_rda_m_offset", file=CYL_CXX, cxx_name="initialise_ring_diff_arrays: m_offset statement", func=RDA,
         span=(r"m_offset\[segment_num\]\s*=\s*\(\(get_max_axial_pos_num", r";"),
         c_header="float K_rda_m_offset(const int min_ax, const int max_ax, const float ring_spacing, const int inc)", loops=0,
         rules=[(r"m_offset\[segment_num\]\s*=", "const float K_m =", 1), (r"get_max_axial_pos_num\(segment_num\)", "max_ax", 1),
                (r"get_min_axial_pos_num\(segment_num\)", "min_ax", 1), (r"get_axial_sampling\(segment_num\)", "K_axial_sampling(ring_spacing, inc)", 1)],
         post="return K_m;", disable_checks=["float-overflow"]),
    dict(name="K_rda_ax_offset", file=CYL_CXX, cxx_name="initialise_ring_diff_arrays: ax_pos_num_offset statement", func=RDA,
         span=(r"ax_pos_num_offset\[segment_num\] = round\(", r";"),
         c_header="int K_rda_ax_offset(const int num_rings, const float m_off, const float ring_spacing)", loops=0,
         rules=[(r"ax_pos_num_offset\[segment_num\] = round\(", "const int K_o = K_round_value(", 1), (r"m_offset\[segment_num\]", "m_off", 1)],
         post="return K_o;"),
    dict(name="K_pdic_ctor_swap", file=CYL_CXX, cxx_name="ProjDataInfoCylindrical constructor: block 'check min,max ring diff' (statement kernel)",
         func=r"ProjDataInfoCylindrical::ProjDataInfoCylindrical\([^)]*\)", nth=1,
         span=(r"for \(int segment_num = get_min_segment_num\(\); segment_num <= get_max_segment_num\(\); \+\+segment_num\)\s*if \(min_ring_diff\[segment_num\] > max_ring_diff\[segment_num\]\)\s*\{\s*warning",
               r"std::swap\(min_ring_diff\[segment_num\], max_ring_diff\[segment_num\]\);\s*\}"),
         c_header="void K_pdic_ctor_swap(struct PDI2* self)", loops=1,
         rules=[(r"warning\(boost::format\((?:\"[^\"]*\"|[^;\"])*\);", "(void)0;", 1),
                (r"std::swap\(min_ring_diff\[segment_num\], max_ring_diff\[segment_num\]\);", "K_swap_short(SEGP(self, min_ring_diff, segment_num), SEGP(self, max_ring_diff, segment_num));", 1),
                (r"get_(min|max)_segment_num\(\)", r"self->\1_seg", 2),
                (r"(?<![\w>.])(min|max)_ring_diff\[(\w+)\]", r"SEGV(self, \1_ring_diff, \2)", 2)]),
    dict(name="K_rda_check", file=CYL_CXX, cxx_name="initialise_ring_diff_arrays: block 'check min,max ring diff' (statement kernel)", func=RDA,
         span=(r"for \(int segment_num = get_min_segment_num\(\); segment_num <= get_max_segment_num\(\); \+\+segment_num\)\s*if \(min_ring_diff\[segment_num\] > max_ring_diff\[segment_num\]\)\s*\{\s*error",
               r"segment_num\);\s*\}"),
         c_header="void K_rda_check(const struct PDI2* self)", loops=1,
         rules=[(r'error\((?:"[^"]*"|[^;"])*\);', "K_THROW_VOID;", 1), (r"get_(min|max)_segment_num\(\)", r"self->\1_seg", 2),
                (r"(?<![\w>.])(min|max)_ring_diff\[(\w+)\]", r"SEGV(self, \1_ring_diff, \2)", 2)]),
    dict(name="K_rda_fill_rd2seg", file=CYL_CXX, cxx_name="initialise_ring_diff_arrays: block 'initialise ring_diff_to_segment_num' (statement kernel)", func=RDA,
         span=(r"const int min_ring_difference = \*min_element\(", r'does not belong to a segment"\) % ring_diff\);\s*\}\s*\}'),
         c_header="void K_rda_fill_rd2seg(const struct PDI2* self)", loops=2,
         rules=[(r"\*min_element\(min_ring_diff\.begin\(\), min_ring_diff\.end\(\)\)", "K_min_rd(self)", 1),
                (r"\*max_element\(max_ring_diff\.begin\(\), max_ring_diff\.end\(\)\)", "K_max_rd(self)", 1),
                (r"get_scanner_ptr\(\)->get_num_rings\(\)", "self->num_rings", 2),
                (r"ring_diff_to_segment_num = VectorWithOffset<int>\(min\(([^;]*?)\),\s*max\(([^;]*?)\)\);", r"RD2SEG_ALLOC(K_min_int(\1), K_max_int(\2));", 1),
                (r"ring_diff_to_segment_num\.fill\(get_max_segment_num\(\) \+ 1\);", "RD2SEG_FILL(self->max_seg + 1);", 1),
                (r"ring_diff_to_segment_num\[ring_diff\] = segment_num;", "RD2SEG_WRITE(ring_diff, segment_num);", 1),
                (r"warning\(boost::format\([^;]*;", "(void)0;", 1),
                (r"get_(min|max)_segment_num\(\)", r"self->\1_seg", 3),
                (r"(?<![\w>.])(min|max)_ring_diff\[(\w+)\]", r"SEGV(self, \1_ring_diff, \2)", 2)]),
    dict(name="K_rda_rpr", file=CYL_CXX, cxx_name="initialise_ring_diff_arrays: ring1_plus_ring2 statements", func=RDA,
         span=(r"const float ring1_plus_ring2_float = ", r"const int ring1_plus_ring2 = [^;]*;"),
         c_header="int K_rda_rpr(const int ax_pos_num, const int inc, const float m_off, const float ring_spacing, const int num_rings)", loops=0,
         rules=[(r"get_num_axial_poss_per_ring_inc\(s_num\)", "inc", 1), (r"m_offset\[s_num\]", "m_off", 1),
                (r"get_scanner_ptr\(\)->get_num_rings\(\)", "num_rings", 1), (r"(?<![\w:])round\(", "K_round_value(", (0, 1)),
                (r"static_cast<int>\(", "CAST(int, ", (0, 1))],
         post="return ring1_plus_ring2;"),
]

TOF_MASH = {"quick": [0, 1, 2, 3, 5, 7, 11, 13, 25, 27], "thorough": [0] + list(range(1, 65)) + [117, 351, 1023]}
ALLPAIRS = {"quick": [(1, 0, 1), (1, 1, 2), (2, 3, 5), (4, 5, 2), (1, 2, 1), (2, 4, 2), (2, 3, 0)],
            "thorough": [(m, f, r) for m in (1, 2, 4, 8) for f in (0, 1, 2, 3, 4, 5, 6, 7, 9, 11, 13) for r in (0, 1, 2, 3, 7)]}
SPANS = {"quick": [1, 2, 3, 4, 7], "thorough": list(range(1, 16)) + [21, 27]}
CHK = ["--signed-overflow-check", "--div-by-zero-check", "--bounds-check", "--pointer-check", "--conversion-check"]


def scanner_ring_sizes(repo):
    """Distinct numbers of detectors per ring of the predefined scanners, scraped from Scanner.cxx on every run
    (argument 5 of every set_params / Scanner(...) call that lists the geometry)."""
    src = extract.strip_comments(open(os.path.join(repo, "src/buildblock/Scanner.cxx")).read())
    vals = set()
    for m in re.finditer(r"set_params\(\s*\w+\s*,\s*string_list\([^;]*?\)\s*,([^;]*?)\);", src, flags=re.S):
        args = [a.strip() for a in m.group(1).split(",")]
        # both overloads list ..., num_detectors_per_ring, inner_ring_radius (first float literal), ...
        fl = next((i for i, a in enumerate(args) if re.search(r"\d\.|\dF|\.\d", a)), None)
        if fl is None or fl == 0:
            continue
        a2 = args[fl - 1]
        if not re.fullmatch(r"[\d\s+*()]+", a2):
            continue
        vals.add(int(eval(a2, {"__builtins__": {}}, {})))
    return sorted(v for v in vals if v % 2 == 0 and 2 <= v <= 4096)


def scanner_ring_spacings(repo):
    """Distinct ring spacings (mm) of the predefined scanners, scraped from Scanner.cxx (third float argument after num_detectors_per_ring)."""
    src = extract.strip_comments(open(os.path.join(repo, "src/buildblock/Scanner.cxx")).read())
    vals = set()
    for m in re.finditer(r"set_params\(\s*\w+\s*,\s*string_list\([^;]*?\)\s*,([^;]*?)\);", src, flags=re.S):
        args = [a.strip() for a in m.group(1).split(",")]
        fl = next((i for i, a in enumerate(args) if re.search(r"\d\.|\dF|\.\d", a)), None)
        if fl is None or fl + 2 >= len(args):
            continue
        a2 = re.sub(r"(?<=[\d.])F\b", "", args[fl + 2])
        if not re.fullmatch(r"[\d\s+*/().]+", a2):
            continue
        try:
            v = float(eval(a2, {"__builtins__": {}}, {}))
        except Exception:
            continue
        if 0.1 <= v <= 100:
            vals.add(round(v, 6))
    return sorted(vals)


_SIZES = {}


def extra_gen(repo, gen_dir, metas):
    sizes = scanner_ring_sizes(repo)
    if len(sizes) < 10:
        raise extract.ExtractionError("Scanner.cxx: only %d predefined ring sizes scraped (expected >= 10)" % len(sizes))
    _SIZES["scanner"] = sizes
    sp = scanner_ring_spacings(repo)
    if len(sp) < 8:
        raise extract.ExtractionError("Scanner.cxx: only %d predefined ring spacings scraped (expected >= 8)" % len(sp))
    _SIZES["spacing"] = sp
    metas.append({"kernel": "parameter scrape", "file": "src/buildblock/Scanner.cxx", "function": "predefined scanners: ring spacing (mm)", "values": sp})
    metas.append({"kernel": "parameter scrape", "file": "src/buildblock/Scanner.cxx", "function": "predefined scanners: detectors per ring",
                  "values": sizes})


# ---- setters: the validity flag of the lazily built tables (contracts/c01s.h) ----
HARNESS_S = os.path.join(VERIF, "harness", "c01s.c")
_FLAG = (r"(?<![\w>.])(?:this->)?ring_diff_arrays_computed\b", "self->ring_diff_arrays_computed", (1, 4))
_TF = [(r"\bfalse\b", "0", (0, 4)), (r"\btrue\b", "1", (0, 4))]
_SEGV = (r"(?<![\w>.])(?:this->)?(min|max)_ring_diff\[segment_num\]", r"SEGW(self, \1_ring_diff, K_segidx(self, segment_num) + self->min_seg)", (0, 4))


def _setter(name, sig, header, rules):
    return dict(name="K_" + name, file=CYL_CXX, cxx_name="ProjDataInfoCylindrical::" + name, func=r"ProjDataInfoCylindrical::" + name + sig, c_header=header, loops=0, rules=rules + _TF)


KERNELS_S = [
    _setter("set_min_ring_difference", r"\(int min_ring_diff_v, int segment_num\)", "void K_set_min_ring_difference(struct PDIS* self, int min_ring_diff_v, int segment_num)",
            [(r"(?<![\w>.])(?:this->)?min_ring_diff\[segment_num\] = min_ring_diff_v;", "K_GEOM_ASSIGN(self->min_ring_diff[K_segidx(self, segment_num)], min_ring_diff_v);", 1), _SEGV, _FLAG]),
    _setter("set_max_ring_difference", r"\(int max_ring_diff_v, int segment_num\)", "void K_set_max_ring_difference(struct PDIS* self, int max_ring_diff_v, int segment_num)",
            [(r"(?<![\w>.])(?:this->)?max_ring_diff\[segment_num\] = max_ring_diff_v;", "K_GEOM_ASSIGN(self->max_ring_diff[K_segidx(self, segment_num)], max_ring_diff_v);", 1), _SEGV, _FLAG]),
    _setter("set_ring_spacing", r"\(float ring_spacing_v\)", "void K_set_ring_spacing(struct PDIS* self, float ring_spacing_v)",
            [(r"(?<![\w>.])(?:this->)?ring_spacing = ring_spacing_v;", "K_GEOM_ASSIGN(self->ring_spacing, ring_spacing_v);", 1),
             (r"(?<![\w>.])(?:this->)?ring_spacing\b(?!_v)", "self->ring_spacing", (0, 3)), _FLAG]),
    _setter("set_num_axial_poss_per_segment", r"\(const VectorWithOffset<int>& num_axial_poss_per_segment\)", "void K_set_num_axial_poss_per_segment(struct PDIS* self)",
            [(r"ProjDataInfo::set_num_axial_poss_per_segment\(num_axial_poss_per_segment\);", "K_base_geom_change(self);", 1), _FLAG]),
    _setter("set_min_axial_pos_num", r"\(const int min_ax_pos_num, const int segment_num\)", "void K_set_min_axial_pos_num(struct PDIS* self, const int min_ax_pos_num, const int segment_num)",
            [(r"ProjDataInfo::set_min_axial_pos_num\(min_ax_pos_num, segment_num\);", "K_base_set_min_axial_pos_num(self, min_ax_pos_num, segment_num);", 1), _FLAG]),
    _setter("set_max_axial_pos_num", r"\(const int max_ax_pos_num, const int segment_num\)", "void K_set_max_axial_pos_num(struct PDIS* self, const int max_ax_pos_num, const int segment_num)",
            [(r"ProjDataInfo::set_max_axial_pos_num\(max_ax_pos_num, segment_num\);", "K_base_set_max_axial_pos_num(self, max_ax_pos_num, segment_num);", 1), _FLAG]),
    _setter("reduce_segment_range", r"\(const int min_segment_num, const int max_segment_num\)", "void K_reduce_segment_range(struct PDIS* self, const int min_segment_num, const int max_segment_num)",
            [(r"ProjDataInfo::reduce_segment_range\(min_segment_num, max_segment_num\);", "K_base_geom_change(self);", 1),
             # re-indexing of the two ring-difference vectors to the new segment range: one opaque geometry change (the vectors' contents are not modelled here)
             (r"VectorWithOffset<int> new_min_ring_diff\(min_segment_num, max_segment_num\);.*?this->max_ring_diff = new_max_ring_diff;", "K_base_geom_change(self);", 1), _FLAG]),
]
KERNELS += KERNELS_S


def ring_sizes(tier):
    sc = _SIZES.get("scanner", [])
    if tier == "thorough":
        return sorted(set(sc) | set(range(2, 1025, 2)))
    return sorted(set(sc) | set(range(2, 33, 2)) | {48, 64, 96, 128, 256, 1000, 1024})


def jobs(tier, gen_dir):
    out = []

    def enforce(k, suffix="", lc=True, repl=(), **kw):
        out.append(Job("c01/" + k + suffix, HARNESS, "h_" + k, enforce=k, replace=list(repl), loop_contracts=lc, kernels=[k], flags=kw.pop("flags", CHK),
                       no_base_flags=True, min_obligations=3, timeout=kw.pop("timeout", 300), backend=kw.pop("backend", "kissat"), **kw))

    for N in ring_sizes(tier):
        d = {"C01_N": N}
        enforce("K_init_vt2d", "/N=%d" % N, defines=d, params={"num_detectors_per_ring": N})
        enforce("K_init_d2vt", "/N=%d" % N, defines=d, params={"num_detectors_per_ring": N})
        out.append(Job("c01/lemma_inverse/N=%d" % N, HARNESS, "h_lemma_inverse", kind="lemma", kernels=[], flags=CHK, no_base_flags=True,
                       defines=d, params={"num_detectors_per_ring": N}, min_obligations=2, timeout=300, backend=os.environ.get("C01_LB", "kissat")))
    # API level: one proof per ring size for a few sizes (the bodies do not depend on N except through the tables' contracts)
    api_sizes = [s for s in (4, 16, 576) if s in ring_sizes(tier)] if tier == "quick" else [s for s in ring_sizes(tier) if s <= 64 or s in _SIZES.get("scanner", [])]
    API = [("K_init_vt2d_if_not_done_yet", ["K_init_vt2d_call"]), ("K_init_d2vt_if_not_done_yet", ["K_init_d2vt_call"]),
           ("K_get_det_num_pair_for_vt", ["K_init_vt2d_if_not_done_yet", "TAB1_READ_det1_num", "TAB1_READ_det2_num"]),
           ("K_get_vt_for_det_num_pair", ["K_init_d2vt_if_not_done_yet", "TAB2_GET_view_num", "TAB2_GET_tang_pos_num", "TAB2_GET_swap_detectors"]),
           ("K_get_bin_for_det_pair", ["K_get_vt_for_det_num_pair", "K_ring_pair_to_seg_ax"]),
           ("K_get_bin_for_det_pos_pair", ["K_get_bin_for_det_pair"]),
           ("K_get_det_pair_for_bin", ["K_get_det_num_pair_for_vt", "K_seg_ax_to_ring_pair"]),
           ("K_get_det_pos_pair_for_bin", ["K_get_det_pair_for_bin"])]
    for N in api_sizes:
        for k, repl in API:
            if k == "K_get_bin_for_det_pos_pair":
                continue
            enforce(k, "/N=%d" % N, lc=False, repl=repl, defines={"C01_N": N}, params={"num_detectors_per_ring": N})
        out.append(Job("c01/lemma_exchange/N=%d" % N, HARNESS, "h_lemma_exchange", kind="lemma", kernels=["K_get_bin_for_det_pair"], flags=CHK,
                       no_base_flags=True, replace=["K_get_bin_for_det_pair"], defines={"C01_N": N}, params={"num_detectors_per_ring": N},
                       min_obligations=4, timeout=1200, backend="kissat"))
        out.append(Job("c01/lemma_roundtrip/N=%d" % N, HARNESS, "h_lemma_roundtrip", kind="lemma",
                       kernels=["K_get_det_pos_pair_for_bin", "K_get_bin_for_det_pos_pair"], flags=CHK, no_base_flags=True,
                       replace=["K_get_det_pos_pair_for_bin", "K_get_bin_for_det_pos_pair"], defines={"C01_N": N},
                       params={"num_detectors_per_ring": N}, min_obligations=4, timeout=1200, backend="kissat"))
    RING = [("K_get_num_axial_poss_per_ring_inc", [], False),
            ("K_get_segment_num_for_ring_difference", ["RD2SEG_READ", "K_init_ring_diff_arrays_if_not_done_yet"], False),
            ("K_get_segment_axial_pos_num_for_ring_pair", ["K_get_segment_num_for_ring_difference", "K_get_num_axial_poss_per_ring_inc"], False),
            ("K_compute_segment_axial_pos_to_ring_pair", ["RPR_READ"], True),
            ("K_get_ring_pair_for_segment_axial_pos_num", ["RPR_READ", "K_init_ring_diff_arrays_if_not_done_yet"], False)]
    for k, repl, lc in RING:
        enforce(k, lc=lc, repl=repl, defines={"C01_N": 16})
    for lem in ("ring_partition", "ring_inverse"):
        out.append(Job("c01/lemma_" + lem, HARNESS, "h_lemma_" + lem, kind="lemma", kernels=[], flags=CHK, no_base_flags=True,
                       replace=["K_get_segment_axial_pos_num_for_ring_pair", "K_get_ring_pair_for_segment_axial_pos_num"], defines={"C01_N": 16},
                       min_obligations=2, timeout=300, backend="kissat"))
    # get_all_det_pos_pairs_for_bin: view mashing m and TOF mashing f constant per job (products with symbolic counts), N=16
    enforce("K_get_num_det_pos_pairs_for_bin", lc=False, repl=["NUM_RP"], defines={"C01_N": 16})
    for M, F, R in ALLPAIRS[tier]:
        enforce("K_get_all_det_pos_pairs_for_bin", "/N=16/M=%d/F=%d/R=%d" % (M, F, R), lc=True,
                repl=["K_init_vt2d_if_not_done_yet", "K_get_num_det_pos_pairs_for_bin", "RP_FIRST", "RP_SECOND", "TAB1_READ_det1_num", "TAB1_READ_det2_num"],
                defines={"C01_N": 16, "C01_M": M, "C01_F": F, "C01_R": R},
                params={"num_detectors_per_ring": 16, "view_mashing": M, "tof_mash_factor": F, "num_ring_pairs": R},
                object_bits=10)
    # span -> segments (ProjDataInfoCTI): one proof per span, number of rings and max_delta symbolic
    for SP in SPANS[tier]:
        enforce("K_cti_segments", "/span=%d" % SP, lc=True, defines={"C01_N": 16, "C01_SPAN": SP}, params={"span": SP}, object_bits=10)
    # float block of initialise_ring_diff_arrays: ring spacing constant per job (every predefined scanner's value + a few others), ints symbolic
    spacings = _SIZES.get("spacing", []) + [1.0, 2.0, 3.0, 0.7, 12.5]
    if tier == "quick":
        spacings = [4.85, 6.3]
    for sp in sorted(set(spacings)):
        out.append(Job("c01/lemma_rpr/spacing=%g" % sp, HARNESS, "h_lemma_rpr", kind="lemma", kernels=["K_rda_m_offset", "K_rda_ax_offset", "K_rda_rpr", "K_round_float"],
                       flags=CHK + ["--float-overflow-check", "--nan-check"], no_base_flags=True, defines={"C01_N": 16, "C01_SPACING": "%rf" % sp},
                       params={"ring_spacing": sp, "domain": "num_rings <= 128, axial positions < 256"}, min_obligations=3, timeout=900, backend=os.environ.get("C01_RPRB", "kissat")))
    # TOF mashing factor: constant per job (float division by a constant), every other input symbolic
    for F in TOF_MASH[tier]:
        enforce("K_get_bin_for_det_pos_pair", "/N=16/F=%d" % F, lc=False, repl=["K_get_bin_for_det_pair"], defines={"C01_N": 16, "C01_F": F},
                params={"num_detectors_per_ring": 16, "tof_mash_factor": F}, backend=os.environ.get("C01_FB", "sat"))
    enforce("K_pdic_ctor_swap")
    # setters keep "flag raised ==> tables built from the current values"
    for k in KERNELS_S:
        out.append(Job("c01/" + k["name"], HARNESS_S, "h_" + k["name"], enforce=k["name"], kernels=[k["name"]], flags=CHK, no_base_flags=True, timeout=120, min_obligations=3,
                       backend="sat" if "spacing" in k["name"] else "kissat", replay="setters"))
    out.append(Job("c01/canary/K_set_min_ring_difference", HARNESS_S, "h_K_set_min_ring_difference", enforce="K_set_min_ring_difference", kernels=["K_set_min_ring_difference"], kind="canary",
                   defines={"CANARY_SETTERS": None}, expect_fail=r"K_set_min_ring_difference\.postcondition", no_base_flags=True, timeout=120))
    enforce("K_rda_check")
    enforce("K_rda_fill_rd2seg", repl=["K_min_rd", "K_max_rd"])
    out.append(Job("c01/lemma_rd2seg", HARNESS, "h_lemma_rd2seg", kind="lemma", kernels=["K_rda_fill_rd2seg"], replace=["K_rda_fill_rd2seg"], flags=CHK, no_base_flags=True,
                   min_obligations=3, timeout=300, backend="kissat"))
    out.append(Job("c01/canary/K_rda_fill_rd2seg", HARNESS, "h_K_rda_fill_rd2seg", enforce="K_rda_fill_rd2seg", replace=["K_min_rd", "K_max_rd"], kernels=["K_rda_fill_rd2seg"],
                   kind="canary", loop_contracts=True, defines={"CANARY_K_rda_fill_rd2seg": None}, expect_fail=r"K_rda_fill_rd2seg\.postcondition", no_base_flags=True,
                   timeout=300, backend="kissat"))
    out.append(Job("c01/canary/lemma_rd2seg", HARNESS, "h_lemma_rd2seg", kind="canary", kernels=[], replace=["K_rda_fill_rd2seg"], defines={"LEMMA_CANARY": None}, flags=[],
                   no_base_flags=True, expect_fail=r"vacuity canary", timeout=300, backend="kissat"))
    enforce("K_round_float", lc=False, backend="sat", flags=CHK + ["--float-overflow-check", "--nan-check"])
    # symbolic N (all even N up to C01_NMAX in one proof)
    enforce("K_init_vt2d", "/N<=64", defines={"C01_NMAX": 64}, params={"num_detectors_per_ring": "symbolic even <= 64"})
    enforce("K_init_d2vt", "/N<=64", defines={"C01_NMAX": 64}, params={"num_detectors_per_ring": "symbolic even <= 64"})
    for k in ("K_init_vt2d", "K_init_d2vt"):
        out.append(Job("c01/canary/" + k, HARNESS, "h_" + k, enforce=k, kernels=[k], kind="canary", loop_contracts=True,
                       defines={"CANARY_" + k: None, "C01_N": 16}, expect_fail=r"%s\.postcondition" % k, no_base_flags=True, timeout=300))
    return out


TRUSTED = [
    "lookup tables are projected onto one nondeterministic ghost cell (DESIGN.md section 4): VectorWithOffset::grow delivers exactly the requested index range (C11)",
    "the list of predefined ring sizes is scraped from Scanner.cxx, not proved complete",
]
ASSUMPTIONS = ["parametric: one proof per number of detectors per ring (constant per job); symbolic N only up to 64"]
UNDECIDED_CLAUSES = []


def param_summary(tier):
    rs = ring_sizes(tier)
    return {"num_detectors_per_ring": "%d values (min %d, max %d) + symbolic even N <= 64" % (len(rs), rs[0], rs[-1])}


# ---------------- native replay (real STIR libraries rebuilt from the working tree) ----------------
from vlib import native


def replay(job, o, workroot, repo):
    exe = os.path.join(workroot, "c01_replay")
    if not os.path.exists(exe):
        exe, info = native.build(repo, os.path.join(VERIF, "replay", "c01.cpp"), exe)
        if not exe:
            return {"status": "unavailable", "detail": "replay driver did not build: " + info}
    name = job.name
    N = job.params.get("num_detectors_per_ring")
    cands = []
    if re.search(r"K_set_|K_reduce_segment_range", name):
        for c in ((16, 3, 7), (16, 5, 15), (24, 3, 11), (8, 1, 7)):
            cands.append(["setters"] + list(c))
    elif "det_pos_pairs_for_bin" in name:
        F = job.params.get("tof_mash_factor", 1)
        M = job.params.get("view_mashing", 1)
        for c in ((0, 1, F), (0, M, F), (16, M, 0), (16, 1, 0), (24, 3, 0), (0, 1, 3), (0, 2, 2)):
            if c[2] > 0 or c[0] > 0:
                cands.append(["allpairs"] + list(c))
    elif "lemma_rpr" in name:
        for nm in ("ECAT 962", "ECAT 966", "Allegro", "Discovery MI3", "HYPERimage", "ECAT 953"):
            for sp in (1, 3, 7):
                cands.append(["ringsn", nm, sp, -1])
    elif re.search(r"ring|K_compute|K_get_segment|K_get_num_axial", name) and "num_pair" not in name:
        for c in ((16, 3, 15), (16, 1, 15), (24, 7, 20), (16, 5, 15), (32, 9, 31), (8, 3, 7), (45, 11, 44), (18, 3, 17), (4, 1, 3)):
            cands.append(["rings"] + list(c))
    elif "det_pos_pair" in name and "for_bin" not in name.split("det_pos_pair")[-1] or "K_round_float" in name:
        F = job.params.get("tof_mash_factor")
        for f in ([F] if isinstance(F, int) else []) + [1, 3, 5, 2, 7, 9, 11, 13, 0]:
            cands.append(["tof", f])
    if not cands or ("det_pos_pairs_for_bin" not in name and "lemma_rpr" not in name and ("lemma" in name or "init" in name or "vt" in name or "det_pair" in name or "bin" in name)):
        sizes = ([N] if isinstance(N, int) else []) + [16, 6, 4, 2, 64, 30]
        for n in sizes:
            cands.append(["tables", n])
        for n, m in ((16, 2), (16, 4), (24, 3), (64, 8)):
            cands.append(["tables", n, m])
        # history: the lazily built table after a change of the number of views on the object / a clone
        for n, m in ((16, 2), (32, 4), (24, 3)):
            cands.append(["stale", n, m])
    for c in cands:
        st, detail = native.run(exe, c, timeout=900)
        if st == "confirmed":
            return {"status": "confirmed", "detail": detail, "command": "c01_replay " + " ".join(map(str, c)),
                    "from_verifier_counterexample": bool(c is cands[0] and isinstance(N, int) and c[0] == "tables")}
    return {"status": "not-reproduced", "detail": "%d native runs (exhaustive per configuration)" % len(cands)}
