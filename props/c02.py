"""C02 - projection data are one coherent array across access paths: the layout core (DESIGN.md section 6, C02)."""
import os
import re

from vlib.runner import Job

VERIF = os.path.dirname(os.path.dirname(os.path.abspath(__file__)))
HARNESS = os.path.join(VERIF, "harness", "c02.c")

COMMON = [
    (r"\bthis_bin\.(segment_num|view_num|axial_pos_num|tangential_pos_num|timing_pos_num)\(\)", r"this_bin->\1", None),
    (r'\berror\("[^"]*"(?:,[^;]*)?\);', "K_THROW(0);", (3, 7)),
    (r"static_cast<int>\(std::find\(segment_sequence\.begin\(\), segment_sequence\.end\(\), ([^)]*)\)\s*- segment_sequence\.begin\(\)\)",
     r"K_find_int(self->segment_sequence, self->nseq, \1, GQ_SEG)", 1),
    (r"static_cast<int>\(std::find\(timing_poss_sequence\.begin\(\), timing_poss_sequence\.end\(\), ([^)]*)\)\s*- timing_poss_sequence\.begin\(\)\)",
     r"K_find_int(self->timing_poss_sequence, self->ntseq, \1, GQ_TOF)", (1, 2)),
    (r"(?<![\w>.])segment_sequence\[(\w+)\]", r"K_vec_at(self->segment_sequence, self->nseq, \1)", 1),
    (r"get_(min|max)_segment_num\(\)", r"self->\1_seg", 2),
    (r"get_(min|max)_axial_pos_num\(([^()]*)\)", r"K_seg_at(self->\1_ax, self, \2)", (3, 6)),
    (r"get_num_axial_poss\(([^()]*(?:\([^()]*\))?[^()]*)\)", r"K_num_ax(self, \1)", (1, 3)),
    (r"get_(min|max)_tof_pos_num\(\)", r"self->\1_tof", 2),
    (r"get_min_view_num\(\)", "self->min_view", (1, 3)), (r"get_max_view_num\(\)", "self->max_view", (0, 3)),
    (r"get_min_tangential_pos_num\(\)", "self->min_tang", (1, 3)), (r"get_max_tangential_pos_num\(\)", "self->max_tang", (0, 3)),
    (r"get_num_tangential_poss\(\)", "NT(self)", (3, 8)), (r"get_num_views\(\)", "NV(self)", (2, 4)),
    (r"proj_data_info_sptr->get_num_tof_poss\(\)", "self->num_tof", (1, 2)),
    (r"static_cast<streamoff>\(", "CAST(long, ", (2, 4)), (r"\bstreamoff\(", "CAST(long, ", (0, 1)), (r"\bstreamoff\b", "long", (3, 12)),
    (r"(?<![\w>.])offset_3d_data\b", "self->offset_3d_data", (2, 4)),
]

KERNELS = [
    dict(name="K_pdm_get_index", file="src/buildblock/ProjDataInMemory.cxx", cxx_name="ProjDataInMemory::get_index",
         func=r"ProjDataInMemory::get_index\(const Bin& this_bin\) const",
         c_header="long K_pdm_get_index(const struct PD* self, const struct Bin* this_bin)", loops=1, rules=COMMON),
    dict(name="K_pds_get_offset", file="src/buildblock/ProjDataFromStream.cxx", cxx_name="ProjDataFromStream::get_offset",
         func=r"ProjDataFromStream::get_offset\(const Bin& this_bin\) const",
         c_header="long K_pds_get_offset(const struct PD* self, const struct Bin* this_bin)", loops=1,
         rules=COMMON + [(r"get_storage_order\(\)", "self->storage_order", 4), (r"on_disk_data_type\.size_in_bytes\(\)", "self->elsize", (7, 9)),
                         (r"(?<![\w>._])offset(?![\w_])", "self->offset", 1)]),
]

KERNELS += [
    dict(name="K_fss_reorder", file="src/IO/InterfileHeader.cxx", cxx_name="find_segment_sequence: loop re-ordering the per-segment header lists (statement kernel)",
         func=r"find_segment_sequence\(vector<int>& segment_sequence,", c_header="void K_fss_reorder(const int num_segments)", loops=1,
         span=(r"for \(int i = 0; i < num_segments; i\+\+\)\s*\{\s*(?:const int \w+ = location_and_segment_num|sorted_min_ring_diff)", r"\n    \}"),
         rules=[(r"location_and_segment_num\[(\w+)\]\.second", r"LS_SEG(\1)", (1, 3)), (r"location_and_segment_num\[(\w+)\]\.first", r"LS_LOC(\1)", (1, 3)),
                (r"sorted_(min_ring_diff|max_ring_diff|num_rings_per_segment)\[([^\]]*)\]\s*=\s*([^;]+);", r"SORTED_WRITE(\1, \2, \3);", 3),
                (r"(?<![\w_])(min_ring_difference|max_ring_difference|num_rings_per_segment)\[([^\]]*)\]", r"IN_\1(\2)", 3)]),
]

CHK = ["--signed-overflow-check", "--div-by-zero-check", "--bounds-check", "--pointer-check", "--conversion-check"]
VT = {"quick": [(1, 2), (3, 5), (4, 4), (8, 16)],
      "thorough": [(v, t) for v in range(1, 9) for t in range(1, 9)] + [(8, 16), (16, 8), (12, 20), (32, 64), (96, 128)]}
LEMMA_VT = {"quick": [(1, 1), (3, 5), (7, 9), (8, 16), (96, 128)],
            "thorough": [(1, 1), (2, 3), (3, 5), (7, 9), (8, 16), (12, 20), (96, 128), (160, 192), (252, 344)]}
# the view-order offset lemma contains view * (axial positions of the segment), a product of two symbolic numbers:
# tractable for power-of-two / tiny sizes only
LEMMA_OFF_VT = {"quick": [(1, 1), (2, 3), (8, 16), (64, 128)], "thorough": [(1, 1), (2, 3), (3, 5), (4, 4), (8, 16), (64, 128), (256, 512)]}
POW2 = [(1, 1, 1), (2, 4, 2), (8, 16, 4), (64, 128, 2), (256, 512, 4)]
ES = {"quick": [1, 4], "thorough": [1, 2, 4, 8]}


SH = int(os.environ.get("C02_SHARDS", "4"))


def jobs(tier, gen_dir):
    out = []

    def J(name, entry, enforce=None, repl=(), lc=False, kind="enforce", defs=None, kernels=(), **kw):
        out.append(Job("c02/" + name, HARNESS, entry, enforce=enforce, replace=list(repl), loop_contracts=lc, kernels=list(kernels), flags=CHK,
                       no_base_flags=True, min_obligations=kw.pop("min_obligations", 3), timeout=kw.pop("timeout", 300), backend=kw.pop("backend", "kissat"), kind=kind,
                       defines=defs or {}, object_bits=10, **kw))

    J("K_find_int", "h_K_find_int", enforce="K_find_int", lc=True, kernels=["K_find_int"])
    J("lemma_prefix_monotone", "h_lemma_prefix_monotone", kind="lemma", min_obligations=2)
    J("K_fss_reorder", "h_K_fss_reorder", enforce="K_fss_reorder", lc=True, kernels=["K_fss_reorder"],
      repl=["LS_SEG", "LS_LOC", "IN_min_ring_difference", "IN_max_ring_difference", "IN_num_rings_per_segment"])
    for V, T in VT[tier]:
        d = {"C02_V": V, "C02_T": T}
        J("K_pdm_get_index/V=%d/T=%d" % (V, T), "h_K_pdm_get_index", enforce="K_pdm_get_index", repl=["K_find_int"], lc=True, defs=d,
          kernels=["K_pdm_get_index"], params={"num_views": V, "num_tangential_poss": T}, shards=SH)
        for E in ES[tier]:
            d2 = dict(d)
            d2["C02_E"] = E
            J("K_pds_get_offset/V=%d/T=%d/E=%d" % (V, T, E), "h_K_pds_get_offset", enforce="K_pds_get_offset", repl=["K_find_int"], lc=True, defs=d2,
              kernels=["K_pds_get_offset"], params={"num_views": V, "num_tangential_poss": T, "bytes_per_element": E}, shards=SH)
    for V, T in LEMMA_VT[tier]:
        d = {"C02_V": V, "C02_T": T, "C02_E": 4}
        J("lemma_index_injective/V=%d/T=%d" % (V, T), "h_lemma_index_injective", kind="lemma", defs=d, params={"num_views": V, "num_tangential_poss": T},
          min_obligations=5, timeout=300 if tier == "quick" else 1200)
    for V, T in LEMMA_OFF_VT[tier]:
        d = {"C02_V": V, "C02_T": T, "C02_E": 4}
        J("lemma_offset_disjoint/V=%d/T=%d/E=4" % (V, T), "h_lemma_offset_disjoint", kind="lemma", defs=d,
          params={"num_views": V, "num_tangential_poss": T, "bytes_per_element": 4}, min_obligations=5, timeout=300 if tier == "quick" else 1200)
    for V, T, E in POW2:
        J("lemma_forms_agree/V=%d/T=%d/E=%d" % (V, T, E), "h_lemma_forms_agree", kind="lemma", defs={"C02_V": V, "C02_T": T, "C02_E": E},
          params={"num_views": V, "num_tangential_poss": T, "bytes_per_element": E}, min_obligations=2)
    for k in ("K_pdm_get_index", "K_pds_get_offset"):
        out.append(Job("c02/canary/" + k, HARNESS, "h_" + k, enforce=k, replace=["K_find_int"], kernels=[k], kind="canary", loop_contracts=True,
                       defines={"CANARY_" + k: None, "C02_V": 2, "C02_T": 2, "C02_E": 2}, expect_fail=r"%s\.postcondition" % k, no_base_flags=True, timeout=300, object_bits=10,
                       backend="kissat"))
    return out


TRUSTED = [
    "segment_sequence and timing_poss_sequence are permutations of the segment / TOF ranges and offset_3d_data is the size of one TOF block "
    "(established by the constructors / activate_TOF / set_timing_poss_sequence_in_stream; assumed as PD_VALID_CORE)",
    "std::find modelled by K_find_int (verified against its own contract)",
]
ASSUMPTIONS = ["parametric: numbers of views and tangential positions and the element size are constants per job; at most 8 segments and 8 TOF bins; "
               "axial positions per segment |.| < 4096; stream offset < 2^40"]
UNDECIDED_CLAUSES = ["on-disk numeric type / byte order conversion, Interfile header round trip, flush visibility to a second reader, RelatedViewgrams paths",
                     "the get_/set_ viewgram / sinogram / segment paths themselves (they address rows through get_index / get_offset)"]


def param_summary(tier):
    return {"(num_views, num_tangential_poss)": VT[tier], "bytes_per_element": ES[tier], "segments": "symbolic, <= 8, any permutation",
            "TOF bins": "symbolic, <= 8, any permutation", "storage order": "symbolic (4 supported + unsupported)"}


# ---------------- native replay (real STIR libraries rebuilt from the working tree) ----------------
from vlib import native


def replay(job, o, workroot, repo):
    exe = os.path.join(workroot, "c02_replay")
    if not os.path.exists(exe):
        exe, info = native.build(repo, os.path.join(VERIF, "replay", "c02.cpp"), exe)
        if not exe:
            return {"status": "unavailable", "detail": "replay driver did not build: " + info}
    os.environ.setdefault("STIR_CONFIG_DIR", os.path.join(repo, "src/config"))
    modes = [["header", workroot]] if "fss" in job.name else []
    for mode in modes + [["range"], ["paths"]] + ([] if modes else [["header", workroot]]):
        st, detail = native.run(exe, mode, timeout=900)
        if st == "confirmed":
            return {"status": "confirmed", "detail": detail, "command": "c02_replay " + " ".join(mode), "from_verifier_counterexample": False}
    return {"status": "not-reproduced", "detail": "c02_replay range; c02_replay paths (in-memory, stream with permuted segment sequence, both storage orders)"}
