"""C02 - projection data are one coherent array across access paths: the layout core (DESIGN.md section 6, C02)."""
import os
import re

from vlib.runner import Job

VERIF = os.path.dirname(os.path.dirname(os.path.abspath(__file__)))
HARNESS = os.path.join(VERIF, "harness", "c02.c")

COMMON = [
    (r"\bthis_bin\.(segment_num|view_num|axial_pos_num|tangential_pos_num|timing_pos_num)\(\)", r"this_bin->\1", None),
    (r'\berror\("[^"]*"(?:,[^;]*)?\);', "K_THROW(0);", (3, 7)),
    (r"static_cast<int>\(std::find\(segment_sequence\.begin\(\), segment_sequence\.end\(\), ([^)]*)\)\s*- segment_sequence\.begin\(\)\)",
     r"K_find_int(self->segment_sequence, self->nseq, \1, GQ_SEG)", 1),
    (r"static_cast<int>\(std::find\(timing_poss_sequence\.begin\(\), timing_poss_sequence\.end\(\), ([^)]*)\)\s*- timing_poss_sequence\.begin\(\)\)",
     r"K_find_int(self->timing_poss_sequence, self->ntseq, \1, GQ_TOF)", (0, 2)),
    (r"(?<![\w>.])timing_poss_sequence\[([^\]]+)\]", r"K_vec_at(self->timing_poss_sequence, self->ntseq, \1)", (0, 2)),
    (r"(?<![\w>.])segment_sequence\[(\w+)\]", r"K_vec_at(self->segment_sequence, self->nseq, \1)", 1),
    (r"get_(min|max)_segment_num\(\)", r"self->\1_seg", 2),
    (r"get_(min|max)_axial_pos_num\(([^()]*)\)", r"K_seg_at(self->\1_ax, self, \2)", (3, 6)),
    (r"get_num_axial_poss\(([^()]*(?:\([^()]*\))?[^()]*)\)", r"K_num_ax(self, \1)", (1, 3)),
    (r"get_(min|max)_tof_pos_num\(\)", r"self->\1_tof", (2, 6)),
    (r"get_min_view_num\(\)", "self->min_view", (1, 3)), (r"get_max_view_num\(\)", "self->max_view", (0, 3)),
    (r"get_min_tangential_pos_num\(\)", "self->min_tang", (1, 3)), (r"get_max_tangential_pos_num\(\)", "self->max_tang", (0, 3)),
    (r"get_num_tangential_poss\(\)", "NT(self)", (3, 8)), (r"get_num_views\(\)", "NV(self)", (2, 4)),
    (r"proj_data_info_sptr->get_num_tof_poss\(\)", "self->num_tof", (1, 2)),
    (r"static_cast<streamoff>\(", "CAST(long, ", (2, 4)), (r"\bstreamoff\(", "CAST(long, ", (0, 1)), (r"\bstreamoff\b", "long", (3, 12)),
    (r"(?<![\w>.])offset_3d_data\b", "self->offset_3d_data", (2, 4)),
]

KERNELS = [
    dict(name="K_pdm_get_index", file="src/buildblock/ProjDataInMemory.cxx", cxx_name="ProjDataInMemory::get_index",
         func=r"ProjDataInMemory::get_index\(const Bin& this_bin\) const",
         c_header="long K_pdm_get_index(const struct PD* self, const struct Bin* this_bin)", loops=1, rules=COMMON),
    dict(name="K_pds_get_offset", file="src/buildblock/ProjDataFromStream.cxx", cxx_name="ProjDataFromStream::get_offset",
         func=r"ProjDataFromStream::get_offset\(const Bin& this_bin\) const",
         c_header="long K_pds_get_offset(const struct PD* self, const struct Bin* this_bin)", loops=1,
         rules=COMMON + [(r"get_storage_order\(\)", "self->storage_order", 4), (r"on_disk_data_type\.size_in_bytes\(\)", "self->elsize", (7, 9)),
                         (r"(?<![\w>._])offset(?![\w_])", "self->offset", 1)]),
]

KERNELS += [
    dict(name="K_fss_reorder", file="src/IO/InterfileHeader.cxx", cxx_name="find_segment_sequence: loop re-ordering the per-segment header lists (statement kernel)",
         func=r"find_segment_sequence\(vector<int>& segment_sequence,", c_header="void K_fss_reorder(const int num_segments)", loops=1,
         span=(r"for \(int i = 0; i < num_segments; i\+\+\)\s*\{\s*(?:const int \w+ = location_and_segment_num|sorted_min_ring_diff)", r"\n    \}"),
         rules=[(r"location_and_segment_num\[(\w+)\]\.second", r"LS_SEG(\1)", (1, 3)), (r"location_and_segment_num\[(\w+)\]\.first", r"LS_LOC(\1)", (1, 3)),
                (r"sorted_(min_ring_diff|max_ring_diff|num_rings_per_segment)\[([^\]]*)\]\s*=\s*([^;]+);", r"SORTED_WRITE(\1, \2, \3);", 3),
                (r"(?<![\w_])(min_ring_difference|max_ring_difference|num_rings_per_segment)\[([^\]]*)\]", r"IN_\1(\2)", 3)]),
]


PDM = "src/buildblock/ProjDataInMemory.cxx"
# Bin(segment_num, view_num, axial_pos_num, tangential_pos_num, timing_pos_num) -- argument order as declared in stir/Bin.h (static fact below)
BINCTOR = (r"(?:const )?Bin bin\(([^,;]+),\s*([^,;]+),\s*([^,;]+),\s*([^,;]+),\s*([^,;]+?)\);",
           r"struct Bin bin; bin.segment_num = \1; bin.view_num = \2; bin.axial_pos_num = \3; bin.tangential_pos_num = \4; bin.timing_pos_num = \5;", 1)
def PATHRULES(n_ax, n_view, n_binax, n_succ):
    r = [BINCTOR]
    if n_ax:
        r.append((r"(?:this->)?get_(min|max)_axial_pos_num\(segment_num\)", r"K_seg_at(self->\1_ax, self, segment_num)", n_ax))
    if n_view:
        r.append((r"this->get_min_view_num\(\)", "self->min_view", n_view))
    r.append((r"this->get_min_tangential_pos_num\(\)", "self->min_tang", 1))
    if n_binax:
        r.append((r"bin\.axial_pos_num\(\)", "bin.axial_pos_num", n_binax))
    if n_succ:
        r.append((r"Succeeded::yes", "1", n_succ))
    return r


KERNELS += [
    dict(name="K_pdm_set_viewgram", file=PDM, cxx_name="ProjDataInMemory::set_viewgram (from 'const int segment_num = v.get_segment_num();')",
         func=r"ProjDataInMemory::set_viewgram\(const Viewgram<float>& v\)", span=(r"const int segment_num = v\.get_segment_num\(\);", r"return Succeeded::yes;"),
         c_header="int K_pdm_set_viewgram(const struct PD* self, const int v_segment_num, const int v_view_num, const int v_timing_pos_num)", loops=1,
         rules=[(r"v\.get_(segment|view|timing_pos)_num\(\)", r"v_\1_num", 3),
                (r"detail::copy_data_to_buffer\(this->buffer, v\[bin\.axial_pos_num\(\)\], this->get_index\(bin\)\);",
                 "{ const long K_o = K_pdm_get_index(self, &bin); K_RETURN_IF_ERROR(0); BUF_ROW_TO(self, K_o, bin.axial_pos_num, bin.view_num); }", 1)] + PATHRULES(3, 0, 3, 1)),
    dict(name="K_pdm_get_viewgram", file=PDM, cxx_name="ProjDataInMemory::get_viewgram (up to the optional extra tangential position)",
         func=r"ProjDataInMemory::get_viewgram\(const int view_num,\s*const int segment_num,\s*const bool make_num_tangential_poss_odd,\s*const int timing_pos\) const",
         span=(r"Bin bin\(segment_num, view_num,", r"this->get_index\(bin\)\);\s*\}"),
         c_header="void K_pdm_get_viewgram(const struct PD* self, const int view_num, const int segment_num, const int timing_pos)", loops=1,
         rules=[(r"Viewgram<float> viewgram\(proj_data_info_sptr, bin\);", "", 1),
                (r"detail::copy_data_from_buffer\(this->buffer, viewgram\[bin\.axial_pos_num\(\)\], this->get_index\(bin\)\);",
                 "{ const long K_o = K_pdm_get_index(self, &bin); K_RETURN_IF_ERROR(); BUF_ROW_FROM(self, K_o, bin.axial_pos_num, bin.view_num); }", 1)] + PATHRULES(3, 0, 3, 0)),
    dict(name="K_pdm_set_sinogram", file=PDM, cxx_name="ProjDataInMemory::set_sinogram (from 'int segment_num = s.get_segment_num();')",
         func=r"ProjDataInMemory::set_sinogram\(const Sinogram<float>& s\)", span=(r"int segment_num = s\.get_segment_num\(\);", r"return Succeeded::yes;"),
         c_header="int K_pdm_set_sinogram(const struct PD* self, const int s_segment_num, const int s_axial_pos_num, const int s_timing_pos_num)", loops=0,
         rules=[(r"s\.get_(segment|axial_pos|timing_pos)_num\(\)", r"s_\1_num", 3),
                (r"detail::copy_data_to_buffer\(this->buffer, s, this->get_index\(bin\)\);",
                 "{ const long K_o = K_pdm_get_index(self, &bin); K_RETURN_IF_ERROR(0); BUF_SINO_TO(self, K_o, bin.axial_pos_num); }", 1)] + PATHRULES(0, 1, 0, 1)),
    dict(name="K_pdm_get_sinogram", file=PDM, cxx_name="ProjDataInMemory::get_sinogram (up to the optional extra tangential position)",
         func=r"ProjDataInMemory::get_sinogram\(const int ax_pos_num,\s*const int segment_num,\s*const bool make_num_tangential_poss_odd,\s*const int timing_pos\) const",
         span=(r"Sinogram<float> sinogram\(proj_data_info_sptr, ax_pos_num, segment_num, timing_pos\);", r"this->get_index\(bin\)\);"),
         c_header="void K_pdm_get_sinogram(const struct PD* self, const int ax_pos_num, const int segment_num, const int timing_pos)", loops=0,
         rules=[(r"Sinogram<float> sinogram\(proj_data_info_sptr, ax_pos_num, segment_num, timing_pos\);", "", 1),
                (r"detail::copy_data_from_buffer\(this->buffer, sinogram, this->get_index\(bin\)\);",
                 "{ const long K_o = K_pdm_get_index(self, &bin); K_RETURN_IF_ERROR(); BUF_SINO_FROM(self, K_o, bin.axial_pos_num); }", 1)] + PATHRULES(0, 1, 0, 0)),
]


PDS = "src/buildblock/ProjDataFromStream.cxx"
WARN = (r'\bwarning\((?:"[^"]*"|[^;"])*\);', "(void)0;", None)


def PDS_RULES(obj, n_err, seeks, writes, flushes, in_try):
    """rules shared by the ProjDataFromStream write kernels. obj: name of the written object in the C++ text;
    seeks/writes/flushes: expected counts (so a dropped flush or seek is an extraction miss only if the count changes -
    the contract decides whether the remaining ones suffice: counts are given as ranges)"""
    prop = "if (g_error) goto K_catch;" if in_try else "K_PROPAGATE_OR_RETURN();"
    r = [WARN,
         (r'\berror\((?:"[^"]*"|[^;"])*\);', "K_THROW(0);" if in_try else "K_THROW();", n_err),
         (r"is_null_ptr\(sino_stream\)", "K_IS_NULL_STREAM", (0, 1)), (r"!\*sino_stream", "K_BAD_STREAM", (0, 1)),
         (r"on_disk_data_type\.id != NumericType::FLOAT", "g_nonfloat", (0, 1)),
         (r"detail::checked_seek[pg]\(\"\w+\", \*sino_stream, get_offset\((\w+)\)\);",
          r"{ const long K_o = K_pds_get_offset(self, &\1); %s K_seekp(K_o); %s }" % (prop, prop), seeks),
         (r"sino_stream->flush\(\);", "K_flush();", flushes),
         (r"get_storage_order\(\)", "self->storage_order", None),
         (r"(?<![\w.>])scale_factor\b", "g_scale_factor", None),
         (r"Succeeded succeeded = Succeeded::yes;", "int succeeded = 1;", (0, 1)),
         (r"Succeeded::yes", "1", None), (r"Succeeded::no", "0", None),
         (r"\btry\b", "", (1, 1) if in_try else (0, 0)),
         (r"catch \(\.\.\.\)\s*\{\s*succeeded = 0;\s*\}", "K_catch: if (g_error) { g_error = 0; succeeded = 0; }", (1, 1) if in_try else (0, 0))]
    return r


def WRITE(obj_re, shape, ax, vw, tg, n):
    return (r"write_data\(\*sino_stream, %s, on_disk_data_type, scale, on_disk_byte_order\)" % obj_re,
            "K_write_data(self, &scale, %d, bin.segment_num, %s, %s, %s)" % (shape, ax, vw, tg), n)


def READ(obj_re, shape, ax, vw, seg, n):
    return (r"read_data\(\*sino_stream, %s, on_disk_data_type, scale, on_disk_byte_order\)" % obj_re,
            "K_read_data(self, &scale, %d, %s, %s, %s)" % (shape, seg, ax, vw), n)


KERNELS += [
    dict(name="K_pds_set_bin_value", file=PDS, cxx_name="ProjDataFromStream::set_bin_value",
         func=r"ProjDataFromStream::set_bin_value\(const Bin& this_bin\)", c_header="void K_pds_set_bin_value(const struct PD* self, const struct Bin* this_bin)", loops=0,
         rules=[(r"Array<1, float> value\(1\);\s*value\[0\] = this_bin\.get_bin_value\(\);", "", 1), (r"float\(1\)", "1.F", (0, 1)),
                (r"write_data\(\*sino_stream, value, on_disk_data_type, scale, on_disk_byte_order\)",
                 "K_write_data(self, &scale, 0, this_bin->segment_num, this_bin->axial_pos_num, this_bin->view_num, this_bin->tangential_pos_num)", 1),
]
         + PDS_RULES("value", (3, 5), 1, 1, (0, 2), False)
         + [(r"K_pds_get_offset\(self, &this_bin\)", "K_pds_get_offset(self, this_bin)", 1)]),
    dict(name="K_pds_set_viewgram", file=PDS, cxx_name="ProjDataFromStream::set_viewgram (from 'const int segment_num = v.get_segment_num();')",
         func=r"ProjDataFromStream::set_viewgram\(const Viewgram<float>& v\)", span=(r"const int segment_num = v\.get_segment_num\(\);", r"return succeeded;"),
         c_header="int K_pds_set_viewgram(const struct PD* self, const int v_segment_num, const int v_view_num, const int v_timing_pos_num)", loops=1,
         rules=[(r"v\.get_(segment|view|timing_pos)_num\(\)", r"v_\1_num", 3),
                WRITE(r"v\[bin\.axial_pos_num\(\)\]", 1, "bin.axial_pos_num", "bin.view_num", "0", 1), WRITE("v", 2, "0", "bin.view_num", "0", 1)]
         + PDS_RULES("v", (1, 2), 2, 2, (1, 3), True) + PATHRULES(3, 0, 3, 0)
         + [(r",\s*view_num,\s*segment_num,\s*timing_pos\);", ");", None)]),
    dict(name="K_pds_get_bin_value", file=PDS, cxx_name="ProjDataFromStream::get_bin_value",
         func=r"ProjDataFromStream::get_bin_value\(const Bin& this_bin\) const", c_header="float K_pds_get_bin_value(const struct PD* self, const struct Bin* this_bin)", loops=0,
         rules=[(r"Array<1, float> value\(1\);", "", 1), (r"float\(1\)", "1.F", 1), READ("value", 0, "this_bin->axial_pos_num", "this_bin->view_num", "this_bin->segment_num", 1),
                (r"value \*= scale_factor;", "K_SCALE_OBJECT(g_scale_factor);", 1), (r"return value\[0\];", "return 0.F;", 1)]
         + PDS_RULES("value", (3, 5), 1, 0, 0, False)
         + [(r"K_pds_get_offset\(self, &this_bin\)", "K_pds_get_offset(self, this_bin)", 1), (r"K_THROW\(\);", "K_THROW(0.F);", (3, 5)),
            (r"K_PROPAGATE_OR_RETURN\(\);", "K_PROPAGATE_OR_RETURN(0.F);", 2)]),
    dict(name="K_pds_get_viewgram", file=PDS, cxx_name="ProjDataFromStream::get_viewgram (from the construction of the viewgram to 'viewgram *= scale_factor;')",
         func=r"ProjDataFromStream::get_viewgram\(const int view_num,\s*const int segment_num,\s*const bool make_num_tangential_poss_odd,\s*const int timing_pos\) const",
         span=(r"Viewgram<float> viewgram\(proj_data_info_sptr, view_num, segment_num, timing_pos\);", r"viewgram \*= scale_factor;"),
         c_header="void K_pds_get_viewgram(const struct PD* self, const int view_num, const int segment_num, const int timing_pos)", loops=1,
         rules=[(r"Viewgram<float> viewgram\(proj_data_info_sptr, view_num, segment_num, timing_pos\);", "", 1), (r"float\(1\)", "1.F", 1),
                READ(r"viewgram\[bin\.axial_pos_num\(\)\]", 1, "bin.axial_pos_num", "bin.view_num", "bin.segment_num", 1), READ("viewgram", 2, "0", "bin.view_num", "bin.segment_num", 1),
                (r"viewgram \*= scale_factor;", "K_SCALE_OBJECT(g_scale_factor);", 1)]
         + PDS_RULES("v", 2, 2, 0, 0, True) + PATHRULES(3, 0, 3, 0) + [(r"K_THROW\(0\);", "K_THROW();", 2)]),
    dict(name="K_pds_get_sinogram", file=PDS, cxx_name="ProjDataFromStream::get_sinogram (from the construction of the sinogram to 'sinogram *= scale_factor;')",
         func=r"ProjDataFromStream::get_sinogram\(const int ax_pos_num,\s*const int segment_num,\s*const bool make_num_tangential_poss_odd,\s*const int timing_pos\) const",
         span=(r"Sinogram<float> sinogram\(proj_data_info_sptr, ax_pos_num, segment_num, timing_pos\);", r"sinogram \*= scale_factor;"),
         c_header="void K_pds_get_sinogram(const struct PD* self, const int ax_pos_num, const int segment_num, const int timing_pos)", loops=1,
         rules=[(r"Sinogram<float> sinogram\(proj_data_info_sptr, ax_pos_num, segment_num, timing_pos\);", "", 1), (r"float\(1\)", "1.F", 1),
                READ(r"sinogram\[bin\.view_num\(\)\]", 1, "bin.axial_pos_num", "bin.view_num", "bin.segment_num", 1), READ("sinogram", 3, "bin.axial_pos_num", "0", "bin.segment_num", 1),
                (r"sinogram \*= scale_factor;", "K_SCALE_OBJECT(g_scale_factor);", 1),
                (r"bin\.view_num\(\)", "bin.view_num", 3), (r"(?<![\w>.])get_(min|max)_view_num\(\)", r"self->\1_view", 2)]
         + PDS_RULES("s", 2, 2, 0, 0, True) + PATHRULES(0, 1, 0, 0) + [(r"K_THROW\(0\);", "K_THROW();", 2)]),
    dict(name="K_pds_get_segment_by_sinogram", file=PDS, cxx_name="ProjDataFromStream::get_segment_by_sinogram (from the storage-order test)",
         func=r"ProjDataFromStream::get_segment_by_sinogram\(const int segment_num, const int timing_num\) const",
         span=(r"if \(get_storage_order\(\) == Segment_AxialPos_View_TangPos", r"return SegmentBySinogram<float>\(get_segment_by_view\(segment_num, timing_num\)\);\s*\}"),
         c_header="void K_pds_get_segment_by_sinogram(const struct PD* self, const int segment_num, const int timing_num)", loops=0,
         rules=[(r"SegmentBySinogram<float> segment\(proj_data_info_sptr, segment_num, timing_num\);", "", 1), (r"float\(1\)", "1.F", 1),
                READ("segment", 4, "0", "0", "bin.segment_num", 1), (r"segment \*= scale_factor;", "K_SCALE_OBJECT(g_scale_factor);", 1), (r"return segment;", "return;", 1),
                (r"return SegmentBySinogram<float>\(get_segment_by_view\(segment_num, timing_num\)\);", "{ K_pds_get_segment_by_view(self, segment_num, timing_num); return; }", 1)]
         + PDS_RULES("s", 2, 1, 0, 0, True) + PATHRULES(1, 1, 0, 0) + [(r"K_THROW\(0\);", "K_THROW();", 2)]),
    dict(name="K_pds_get_segment_by_view", file=PDS, cxx_name="ProjDataFromStream::get_segment_by_view (from the storage-order test)",
         func=r"ProjDataFromStream::get_segment_by_view\(const int segment_num, const int timing_pos\) const",
         span=(r"if \(get_storage_order\(\) == Segment_View_AxialPos_TangPos", r"return SegmentByView<float>\(get_segment_by_sinogram\(segment_num, timing_pos\)\);"),
         c_header="void K_pds_get_segment_by_view(const struct PD* self, const int segment_num, const int timing_pos)", loops=0,
         rules=[(r"SegmentByView<float> segment\(proj_data_info_sptr, segment_num, timing_pos\);", "", 1), (r"float\(1\)", "1.F", 1),
                READ("segment", 5, "0", "0", "bin.segment_num", 1), (r"segment \*= scale_factor;", "K_SCALE_OBJECT(g_scale_factor);", 1), (r"return segment;", "return;", 1),
                (r"return SegmentByView<float>\(get_segment_by_sinogram\(segment_num, timing_pos\)\);", "{ K_pds_get_segment_by_sinogram(self, segment_num, timing_pos); return; }", 1)]
         + PDS_RULES("s", 2, 1, 0, 0, True) + PATHRULES(1, 1, 0, 0) + [(r"K_THROW\(0\);", "K_THROW();", 2)]),
    dict(name="K_pds_set_segment_by_sinogram", file=PDS, cxx_name="ProjDataFromStream::set_segment(const SegmentBySinogram<float>&) (from 'const int segment_num = ...')",
         func=r"ProjDataFromStream::set_segment\(const SegmentBySinogram<float>& segmentbysinogram_v\)",
         span=(r"const int segment_num = segmentbysinogram_v\.get_segment_num\(\);", r"return set_segment\(segmentbyview\);\s*\}"),
         c_header="int K_pds_set_segment_by_sinogram(const struct PD* self, const int v_segment_num, const int v_timing_pos_num)", loops=0,
         rules=[(r"segmentbysinogram_v\.get_(segment|timing_pos)_num\(\)", r"v_\1_num", (2, 3)), WRITE("segmentbysinogram_v", 4, "0", "0", "0", 1),
                (r"const SegmentByView<float> segmentbyview = SegmentByView<float>\(segmentbysinogram_v\);", "", 1),
                (r"return set_segment\(segmentbyview\);", "return K_pds_set_segment_by_view(self, v_segment_num, v_timing_pos_num);", 1)]
         + PDS_RULES("v", 0, 1, 1, (1, 2), True) + PATHRULES(1, 1, 0, 0)
         + [(r",\s*segment_num,\s*v_timing_pos_num\);", ");", None)]),
    dict(name="K_pds_set_segment_by_view", file=PDS, cxx_name="ProjDataFromStream::set_segment(const SegmentByView<float>&) (from 'const int segment_num = ...')",
         func=r"ProjDataFromStream::set_segment\(const SegmentByView<float>& segmentbyview_v\)",
         span=(r"const int segment_num = segmentbyview_v\.get_segment_num\(\);", r"return set_segment\(segmentbysinogram\);\s*\}"),
         c_header="int K_pds_set_segment_by_view(const struct PD* self, const int v_segment_num, const int v_timing_pos_num)", loops=0,
         rules=[(r"segmentbyview_v\.get_(segment|timing_pos)_num\(\)", r"v_\1_num", (2, 3)), WRITE("segmentbyview_v", 5, "0", "0", "0", 1),
                (r"const SegmentBySinogram<float> segmentbysinogram = SegmentBySinogram<float>\(segmentbyview_v\);", "", 1),
                (r"return set_segment\(segmentbysinogram\);", "return K_pds_set_segment_by_sinogram(self, v_segment_num, v_timing_pos_num);", 1)]
         + PDS_RULES("v", 0, 1, 1, (1, 2), True) + PATHRULES(1, 1, 0, 0)
         + [(r",\s*segment_num,\s*v_timing_pos_num\);", ");", None)]),
    dict(name="K_pds_set_sinogram", file=PDS, cxx_name="ProjDataFromStream::set_sinogram (from 'int segment_num = s.get_segment_num();')",
         func=r"ProjDataFromStream::set_sinogram\(const Sinogram<float>& s\)", span=(r"int segment_num = s\.get_segment_num\(\);", r"return succeeded;"),
         c_header="int K_pds_set_sinogram(const struct PD* self, const int s_segment_num, const int s_axial_pos_num, const int s_timing_pos_num)", loops=1,
         rules=[(r"s\.get_(segment|axial_pos|timing_pos)_num\(\)", r"s_\1_num", 3),
                WRITE(r"s\[bin\.view_num\(\)\]", 1, "bin.axial_pos_num", "bin.view_num", "0", 1), WRITE("s", 3, "bin.axial_pos_num", "0", "0", 1),
                (r"bin\.view_num\(\)", "bin.view_num", 3), (r"(?<![\w>.])get_(min|max)_view_num\(\)", r"self->\1_view", 2)]
         + PDS_RULES("s", 0, 2, 2, (1, 3), True) + PATHRULES(0, 1, 0, 0)),
]

KERNELS += [
    dict(name="K_pdm_get_bin_value", file=PDM, cxx_name="ProjDataInMemory::get_bin_value", func=r"ProjDataInMemory::get_bin_value\(Bin& bin\)",
         c_header="float K_pdm_get_bin_value(const struct PD* self, const struct Bin* bin)", loops=0,
         rules=[(r"return buffer\[this->get_index\(bin\)\];", "{ const long K_o = K_pdm_get_index(self, bin); K_RETURN_IF_ERROR(0.F); BUF_ONE_FROM(self, K_o); return 0.F; }", 1)]),
    dict(name="K_pdm_set_bin_value", file=PDM, cxx_name="ProjDataInMemory::set_bin_value", func=r"ProjDataInMemory::set_bin_value\(const Bin& bin\)",
         c_header="void K_pdm_set_bin_value(const struct PD* self, const struct Bin* bin)", loops=0,
         rules=[(r"buffer\[this->get_index\(bin\)\] = bin\.get_bin_value\(\);", "{ const long K_o = K_pdm_get_index(self, bin); K_RETURN_IF_ERROR(); BUF_ONE_TO(self, K_o, bin); }", 1)]),
    dict(name="K_pdm_set_segment", file=PDM, cxx_name="ProjDataInMemory::set_segment(const SegmentBySinogram<float>&) (from 'const int segment_num = ...')",
         func=r"ProjDataInMemory::set_segment\(const SegmentBySinogram<float>& segmentbysinogram_v\)",
         span=(r"const int segment_num = segmentbysinogram_v\.get_segment_num\(\);", r"return Succeeded::yes;"),
         c_header="int K_pdm_set_segment(const struct PD* self, const int v_segment_num, const int v_timing_pos_num)", loops=0,
         rules=[(r"segmentbysinogram_v\.get_(segment|timing_pos)_num\(\)", r"v_\1_num", 2),
                (r"detail::copy_data_to_buffer\(this->buffer, segmentbysinogram_v, this->get_index\(bin\)\);",
                 "{ const long K_o = K_pdm_get_index(self, &bin); K_RETURN_IF_ERROR(0); BUF_SEG_TO(self, K_o, bin.segment_num); }", 1)] + PATHRULES(1, 1, 0, 1)),
    dict(name="K_pdm_get_segment", file=PDM, cxx_name="ProjDataInMemory::get_segment_by_sinogram",
         func=r"ProjDataInMemory::get_segment_by_sinogram\(const int segment_num, const int timing_pos_num\) const",
         c_header="void K_pdm_get_segment(const struct PD* self, const int segment_num, const int timing_pos_num)", loops=0,
         rules=[(r"SegmentBySinogram<float> segment\(proj_data_info_sptr, bin\);", "", 1), (r"return segment;", "return;", 1),
                (r"detail::copy_data_from_buffer\(this->buffer, segment, this->get_index\(bin\)\);",
                 "{ const long K_o = K_pdm_get_index(self, &bin); K_RETURN_IF_ERROR(); BUF_SEG_FROM(self, K_o, bin.segment_num); }", 1)] + PATHRULES(1, 1, 0, 0)),
]

# ---- ProjData base class: the loops that build the larger access paths out of set_viewgram / get_viewgram / set_segment ----
PD = "src/buildblock/ProjData.cxx"
VIEWS = [(r"get_(min|max)_view_num\(\)", r"self->\1_view", 2)]
SUCC = [(r"Succeeded::yes", "1", None), (r"Succeeded::no", "0", None)]
KERNELS += [
    dict(name="K_pd_set_segment_by_sinogram", file=PD, cxx_name="ProjData::set_segment(const SegmentBySinogram<float>&)", func=r"ProjData::set_segment\(const SegmentBySinogram<float>& segment\)",
         c_header="int K_pd_set_segment_by_sinogram(const struct PD* self)", loops=1, contract_alias="K_pd_set_segment",
         rules=VIEWS + [(r"set_viewgram\(segment\.get_viewgram\(view_num\)\)", "K_call_set_viewgram(K_segment_get_viewgram(view_num))", 1)] + SUCC),
    dict(name="K_pd_set_segment_by_view", file=PD, cxx_name="ProjData::set_segment(const SegmentByView<float>&)", func=r"ProjData::set_segment\(const SegmentByView<float>& segment\)",
         c_header="int K_pd_set_segment_by_view(const struct PD* self)", loops=1, contract_alias="K_pd_set_segment",
         rules=VIEWS + [(r"set_viewgram\(segment\.get_viewgram\(view_num\)\)", "K_call_set_viewgram(K_segment_get_viewgram(view_num))", 1)] + SUCC),
    dict(name="K_pd_get_segment_by_sinogram", file=PD, cxx_name="ProjData::get_segment_by_sinogram", func=r"ProjData::get_segment_by_sinogram\(const int segment_num, const int timing_pos\) const",
         c_header="void K_pd_get_segment_by_sinogram(const struct PD* self, const int segment_num, const int timing_pos)", loops=1, contract_alias="K_pd_get_segment",
         rules=VIEWS + [(r"SegmentBySinogram<float> segment = proj_data_info_sptr->get_empty_segment_by_sinogram\(segment_num, false, timing_pos\);", "", 1),
                        (r"segment\.set_viewgram\(get_viewgram\((\w+), (\w+), false, (\w+)\)\);", r"K_fetch_viewgram(\1, \2, \3);", 1), (r"return segment;", "return;", 1)]),
    dict(name="K_pd_get_segment_by_view", file=PD, cxx_name="ProjData::get_segment_by_view", func=r"ProjData::get_segment_by_view\(const int segment_num, const int timing_pos\) const",
         c_header="void K_pd_get_segment_by_view(const struct PD* self, const int segment_num, const int timing_pos)", loops=1, contract_alias="K_pd_get_segment",
         rules=VIEWS + [(r"SegmentByView<float> segment = proj_data_info_sptr->get_empty_segment_by_view\(segment_num, false, timing_pos\);", "", 1),
                        (r"segment\.set_viewgram\(get_viewgram\((\w+), (\w+), false, (\w+)\)\);", r"K_fetch_viewgram(\1, \2, \3);", 1), (r"return segment;", "return;", 1)]),
    dict(name="K_pd_set_related_viewgrams", file=PD, cxx_name="ProjData::set_related_viewgrams", func=r"ProjData::set_related_viewgrams\(const RelatedViewgrams<float>& viewgrams\)",
         c_header="int K_pd_set_related_viewgrams(const int n_viewgrams)", loops=1,
         rules=[(r"RelatedViewgrams<float>::const_iterator r_viewgrams_iter = viewgrams\.begin\(\);", "int r_viewgrams_iter = 0;", 1), (r"viewgrams\.end\(\)", "n_viewgrams", 1),
                (r"set_viewgram\(\*r_viewgrams_iter\)", "K_call_set_viewgram(r_viewgrams_iter)", 1)] + SUCC),
    dict(name="K_pd_fill_value", file=PD, cxx_name="ProjData::fill(const float)", func=r"ProjData::fill\(const float value\)",
         c_header="void K_pd_fill_value(const struct PD* self)", loops=2,
         rules=[(r"this->get_(min|max)_tof_pos_num\(\)", r"self->\1_tof", 2), (r"this->get_(min|max)_segment_num\(\)", r"self->\1_seg", 2),
                (r"SegmentByView<float> segment\(this->get_empty_segment_by_view\((\w+), false, (\w+)\)\);", r"const int segment_seg = \1, segment_tof = \2;", 1),
                (r"segment\.fill\(value\);", "", 1), (r"this->set_segment\(segment\)", "K_call_set_segment(segment_seg, segment_tof)", 1),
                (r'\berror\("[^"]*"\);', "K_THROW();", 1)] + SUCC),
    dict(name="K_pd_fill_from", file=PD, cxx_name="ProjData::fill(const ProjData&): the copying loops (statement kernel)", func=r"ProjData::fill\(const ProjData& proj_data\)",
         span=(r"for \(int segment_num = this->get_min_segment_num\(\)", r'error\("Error setting segment of projection data"\);\s*\}\s*\}'),
         c_header="void K_pd_fill_from(const struct PD* self)", loops=2,
         rules=[(r"this->get_(min|max)_tof_pos_num\(\)", r"self->\1_tof", 2), (r"this->get_(min|max)_segment_num\(\)", r"self->\1_seg", 2),
                (r"this->set_segment\(proj_data\.get_segment_by_view\((\w+), (\w+)\)\)", r"K_call_set_segment(\1, \2)", 1),
                (r'\berror\("[^"]*"\);', "K_THROW();", 1)] + SUCC),
]

# ---- where the layout description comes from: the constructor of ProjDataInMemory and ProjDataFromStream::activate_TOF ----
LAYRULES = [(r"proj_data_info_sptr->get_(min|max)_segment_num\(\)", r"self->\1_seg", 2), (r"proj_data_info_sptr->get_(min|max)_tof_pos_num\(\)", r"self->\1_tof", 2),
            (r"proj_data_info_sptr->get_num_tof_poss\(\)", "self->num_tof", 1), (r"get_num_axial_poss\(segment_num\)", "K_num_ax(self, segment_num)", 1),
            (r"get_num_views\(\)", "NV(self)", 1), (r"get_num_tangential_poss\(\)", "NT(self)", 1), (r"static_cast<streamoff>\(", "CAST(long, ", 1),
            (r"(?<![\w>.])offset_3d_data =", "self->offset_3d_data =", 1), (r"timing_poss_sequence\.resize\(([^;]*)\);", r"TSEQ_RESIZE(self, \1);", 1),
            (r"timing_poss_sequence\[(\w+)\] = (\w+);", r"TSEQ_WRITE(self, \1, \2);", 1)]
KERNELS += [
    dict(name="K_pdm_ctor_layout", file=PDM, cxx_name="ProjDataInMemory constructor: size of one TOF block and the TOF sequence (from 'int sum = 0;')",
         func=r"ProjDataInMemory::ProjDataInMemory\(shared_ptr<const ExamInfo> const& exam_info_sptr,\s*shared_ptr<const ProjDataInfo> const& proj_data_info_ptr,\s*const bool initialise_with_0\)",
         span=(r"int sum = 0;", r"timing_poss_sequence\[i\] = timing_pos_num;\s*\}"), c_header="void K_pdm_ctor_layout(struct PD* self)", loops=2, rules=LAYRULES),
    dict(name="K_pds_activate_TOF", file=PDS, cxx_name="ProjDataFromStream::activate_TOF", func=r"ProjDataFromStream::activate_TOF\(\)",
         c_header="void K_pds_activate_TOF(struct PD* self)", loops=2,
         rules=[(r'\berror\("[^"]*"\);', "K_THROW();", 1)] + LAYRULES
               + [(r"on_disk_data_type\.size_in_bytes\(\)", "(unsigned long)self->elsize", 1), (r"(?<![\w>.])storage_order\b", "self->storage_order", 6)]),
]

# ---- SegmentByView <-> SegmentBySinogram conversion constructors (used by set_segment / get_segment_* for "the other" storage order) ----
HARNESS_C = os.path.join(VERIF, "harness", "c02c.c")
SBS, SBV = "src/buildblock/SegmentBySinogram.cxx", "src/buildblock/SegmentByView.cxx"
SEGACC2 = [(r"(?:this->)?get_(min|max)_(axial_pos|view)_num\(\)", r"self->\1_\2", None)]
KERNELS_CONV = [
    dict(name="K_sbs_get_viewgram", file=SBS, cxx_name="SegmentBySinogram<elemT>::get_viewgram", func=r"SegmentBySinogram<elemT>::get_viewgram\(int view_num\) const",
         c_header="void K_sbs_get_viewgram(const struct SEG* self, int view_num)", loops=1,
         rules=[(r"Array<2, elemT> pre_view\(IndexRange2D\(\s*this->get_min_axial_pos_num\(\), get_max_axial_pos_num\(\), get_min_tangential_pos_num\(\), get_max_tangential_pos_num\(\)\)\);",
                 "PRE_ALLOC(self->min_axial_pos, self->max_axial_pos);", 1),
                (r"pre_view\[r\] = Array<3, elemT>::operator\[\]\(r\)\[view_num\];", "PRE_SET(r, SRC_ROW(self, r, view_num));", 1),
                (r"return Viewgram<elemT>\(\s*pre_view,[^;]*;", "OBJ_MAKE(view_num); return;", 1)] + SEGACC2),
    dict(name="K_sbv_get_sinogram", file=SBV, cxx_name="SegmentByView<elemT>::get_sinogram", func=r"SegmentByView<elemT>::get_sinogram\(int axial_pos_num\) const",
         c_header="void K_sbv_get_sinogram(const struct SEG* self, int axial_pos_num)", loops=1,
         rules=[(r"Array<2, elemT> pre_sino\(\s*IndexRange2D\(this->get_min_view_num\(\), get_max_view_num\(\), get_min_tangential_pos_num\(\), get_max_tangential_pos_num\(\)\)\);",
                 "PRE_ALLOC(self->min_view, self->max_view);", 1),
                (r"pre_sino\[v\] = Array<3, elemT>::operator\[\]\(v\)\[axial_pos_num\];", "PRE_SET(v, SRC_ROW(self, axial_pos_num, v));", 1),
                (r"return Sinogram<elemT>\(pre_sino,[^;]*;", "OBJ_MAKE(axial_pos_num); return;", 1)] + SEGACC2),
    dict(name="K_sbv_ctor_loop", file=SBV, cxx_name="SegmentByView<elemT>::SegmentByView(const SegmentBySinogram<elemT>&): the copying loop",
         func=r"SegmentByView<elemT>::SegmentByView\(const SegmentBySinogram<elemT>& s_s\)", c_header="void K_sbv_ctor_loop(const struct SEG* self)", loops=1,
         rules=[(r"set_viewgram\(s_s\.get_viewgram\(v\)\);", "K_dst_set_object(K_src_get_object(v));", 1)] + SEGACC2),
    dict(name="K_sbs_ctor_loop", file=SBS, cxx_name="SegmentBySinogram<elemT>::SegmentBySinogram(const SegmentByView<elemT>&): the copying loop",
         func=r"SegmentBySinogram<elemT>::SegmentBySinogram\(const SegmentByView<elemT>& s_v\)", c_header="void K_sbs_ctor_loop(const struct SEG* self)", loops=1,
         rules=[(r"set_sinogram\(s_v\.get_sinogram\(r\)\);", "K_dst_set_object(K_src_get_object(r));", 1)] + SEGACC2),
]
KERNELS += KERNELS_CONV

CHK = ["--signed-overflow-check", "--div-by-zero-check", "--bounds-check", "--pointer-check", "--conversion-check"]
VT = {"quick": [(1, 2), (3, 5), (4, 4), (8, 16)],
      # 8x8 grid until session 4; thinned after run #3 showed the tier exceeding two hours on a loaded machine (each (V,T) costs ~8 solver-minutes for get_offset alone)
      "thorough": [(v, t) for v in (1, 2, 3, 5, 8) for t in (1, 2, 4, 7, 8)] + [(8, 16), (16, 8), (12, 20), (32, 64), (96, 128)]}
PATH_VT = {"quick": [(3, 5)], "thorough": [(1, 1), (3, 5), (4, 4), (8, 16)]}
LEMMA_VT = {"quick": [(1, 1), (3, 5), (7, 9), (8, 16), (96, 128)],
            "thorough": [(1, 1), (2, 3), (3, 5), (7, 9), (8, 16), (12, 20), (96, 128), (160, 192), (252, 344)]}
# the view-order offset lemma contains view * (axial positions of the segment), a product of two symbolic numbers:
# tractable for power-of-two / tiny sizes only
LEMMA_OFF_VT = {"quick": [(1, 1), (2, 3), (8, 16), (64, 128)], "thorough": [(1, 1), (2, 3), (3, 5), (4, 4), (8, 16), (64, 128)]}  # (256, 512): E=4 timed out at 1200 s in vp run #4 (loaded machine): dropped, undecided at that size
POW2 = [(1, 1, 1), (2, 4, 2), (8, 16, 4), (64, 128, 2), (256, 512, 4)]
ES = {"quick": [1, 4], "thorough": [1, 2, 4, 8]}


SH = int(os.environ.get("C02_SHARDS", "4"))


def jobs(tier, gen_dir):
    out = []

    def J(name, entry, enforce=None, repl=(), lc=False, kind="enforce", defs=None, kernels=(), **kw):
        out.append(Job("c02/" + name, HARNESS, entry, enforce=enforce, replace=list(repl), loop_contracts=lc, kernels=list(kernels), flags=CHK,
                       no_base_flags=True, min_obligations=kw.pop("min_obligations", 3), timeout=kw.pop("timeout", 300), backend=kw.pop("backend", "kissat"), kind=kind,
                       defines=defs or {}, object_bits=10, **kw))

    J("K_find_int", "h_K_find_int", enforce="K_find_int", lc=True, kernels=["K_find_int"])
    J("lemma_prefix_monotone", "h_lemma_prefix_monotone", kind="lemma", min_obligations=2)
    J("K_fss_reorder", "h_K_fss_reorder", enforce="K_fss_reorder", lc=True, kernels=["K_fss_reorder"],
      repl=["LS_SEG", "LS_LOC", "IN_min_ring_difference", "IN_max_ring_difference", "IN_num_rings_per_segment"])
    for V, T in VT[tier]:
        d = {"C02_V": V, "C02_T": T}
        J("K_pdm_get_index/V=%d/T=%d" % (V, T), "h_K_pdm_get_index", enforce="K_pdm_get_index", repl=["K_find_int"], lc=True, defs=d,
          kernels=["K_pdm_get_index"], params={"num_views": V, "num_tangential_poss": T}, shards=SH)
        for E in ES[tier]:
            d2 = dict(d)
            d2["C02_E"] = E
            J("K_pds_get_offset/V=%d/T=%d/E=%d" % (V, T, E), "h_K_pds_get_offset", enforce="K_pds_get_offset", repl=["K_find_int"], lc=True, defs=d2,
              kernels=["K_pds_get_offset"], params={"num_views": V, "num_tangential_poss": T, "bytes_per_element": E}, shards=SH)
    for k in ("K_sbs_get_viewgram", "K_sbv_get_sinogram", "K_sbv_ctor_loop", "K_sbs_ctor_loop"):
        out.append(Job("c02/" + k, HARNESS_C, "h_" + k, enforce=k, loop_contracts=True, kernels=[k], flags=CHK, no_base_flags=True, min_obligations=3, timeout=300, backend="kissat",
                       object_bits=10))
    out.append(Job("c02/canary/K_sbs_get_viewgram", HARNESS_C, "h_K_sbs_get_viewgram", enforce="K_sbs_get_viewgram", loop_contracts=True, kernels=["K_sbs_get_viewgram"], kind="canary",
                   defines={"CANARY_K_sbs_get_viewgram": None}, expect_fail=r"K_sbs_get_viewgram\.postcondition", no_base_flags=True, timeout=300, object_bits=10, backend="kissat"))
    for k in ("K_pd_set_segment_by_sinogram", "K_pd_set_segment_by_view", "K_pd_get_segment_by_sinogram", "K_pd_get_segment_by_view", "K_pd_set_related_viewgrams",
              "K_pd_fill_value", "K_pd_fill_from"):
        J(k, "h_" + k, enforce=k, lc=True, kernels=[k])
    for V, T in PATH_VT[tier]:
        J("K_pdm_ctor_layout/V=%d/T=%d" % (V, T), "h_K_pdm_ctor_layout", enforce="K_pdm_ctor_layout", lc=True, defs={"C02_V": V, "C02_T": T}, kernels=["K_pdm_ctor_layout"],
          params={"num_views": V, "num_tangential_poss": T})
        J("K_pds_activate_TOF/V=%d/T=%d/E=4" % (V, T), "h_K_pds_activate_TOF", enforce="K_pds_activate_TOF", lc=True, defs={"C02_V": V, "C02_T": T, "C02_E": 4},
          kernels=["K_pds_activate_TOF"], params={"num_views": V, "num_tangential_poss": T, "bytes_per_element": 4})
    for V, T in PATH_VT[tier]:
        d = {"C02_V": V, "C02_T": T}
        for k, lc in (("K_pdm_set_viewgram", True), ("K_pdm_get_viewgram", True), ("K_pdm_set_sinogram", False), ("K_pdm_get_sinogram", False),
                      ("K_pdm_get_bin_value", False), ("K_pdm_set_bin_value", False), ("K_pdm_set_segment", False), ("K_pdm_get_segment", False)):
            J("%s/V=%d/T=%d" % (k, V, T), "h_" + k, enforce=k, repl=["K_pdm_get_index"], lc=lc, defs=d, kernels=[k], params={"num_views": V, "num_tangential_poss": T}, shards=SH + 2,
              timeout=900 if tier == "quick" else 2400)
    for V, T in PATH_VT[tier]:
        for E in ([4] if tier == "quick" else [1, 4]):
            d = {"C02_V": V, "C02_T": T, "C02_E": E}
            for k, lc, rp in (("K_pds_get_segment_by_sinogram", False, ["K_pds_get_segment_by_view"]), ("K_pds_get_segment_by_view", False, ["K_pds_get_segment_by_sinogram"]),
                              ("K_pds_get_bin_value", False, []), ("K_pds_get_viewgram", True, []), ("K_pds_get_sinogram", True, []), ("K_pds_set_bin_value", False, []), ("K_pds_set_viewgram", True, []), ("K_pds_set_sinogram", True, []),
                              ("K_pds_set_segment_by_sinogram", False, ["K_pds_set_segment_by_view"]), ("K_pds_set_segment_by_view", False, ["K_pds_set_segment_by_sinogram"])):
                J("%s/V=%d/T=%d/E=%d" % (k, V, T, E), "h_" + k, enforce=k, repl=["K_pds_get_offset"] + rp, lc=lc, defs=d, kernels=[k],
                  params={"num_views": V, "num_tangential_poss": T, "bytes_per_element": E}, shards=SH + 2, timeout=900 if tier == "quick" else 2400)
    for V, T in LEMMA_VT[tier]:
        d = {"C02_V": V, "C02_T": T, "C02_E": 4}
        J("lemma_index_injective/V=%d/T=%d" % (V, T), "h_lemma_index_injective", kind="lemma", defs=d, params={"num_views": V, "num_tangential_poss": T},
          min_obligations=5, timeout=300 if tier == "quick" else 1200)
    for V, T in LEMMA_OFF_VT[tier]:
        d = {"C02_V": V, "C02_T": T, "C02_E": 4}
        J("lemma_offset_disjoint/V=%d/T=%d/E=4" % (V, T), "h_lemma_offset_disjoint", kind="lemma", defs=d,
          params={"num_views": V, "num_tangential_poss": T, "bytes_per_element": 4}, min_obligations=5, timeout=300 if tier == "quick" else 1200)
    for V, T, E in POW2:
        J("lemma_forms_agree/V=%d/T=%d/E=%d" % (V, T, E), "h_lemma_forms_agree", kind="lemma", defs={"C02_V": V, "C02_T": T, "C02_E": E},
          params={"num_views": V, "num_tangential_poss": T, "bytes_per_element": E}, min_obligations=2)
    for k in ("K_pdm_get_index", "K_pds_get_offset"):
        out.append(Job("c02/canary/" + k, HARNESS, "h_" + k, enforce=k, replace=["K_find_int"], kernels=[k], kind="canary", loop_contracts=True,
                       defines={"CANARY_" + k: None, "C02_V": 2, "C02_T": 2, "C02_E": 2}, expect_fail=r"%s\.postcondition" % k, no_base_flags=True, timeout=300, object_bits=10,
                       backend="kissat"))
    # vacuity canaries of the access-path kernels (their preconditions must be satisfiable)
    IDX, OFF = ["K_pdm_get_index"], ["K_pds_get_offset"]
    CAN = [("K_pdm_ctor_layout", []), ("K_pds_activate_TOF", []), ("K_pd_set_segment_by_view", []), ("K_pd_get_segment_by_view", []), ("K_pd_set_related_viewgrams", []), ("K_pd_fill_value", []), ("K_pd_fill_from", [])]
    CAN += [(k, IDX) for k in ("K_pdm_set_viewgram", "K_pdm_get_viewgram", "K_pdm_set_sinogram", "K_pdm_get_sinogram", "K_pdm_get_bin_value", "K_pdm_set_bin_value",
                               "K_pdm_set_segment", "K_pdm_get_segment")]
    CAN += [(k, OFF) for k in ("K_pds_set_bin_value", "K_pds_set_viewgram", "K_pds_set_sinogram", "K_pds_get_bin_value", "K_pds_get_viewgram", "K_pds_get_sinogram")]
    CAN += [("K_pds_set_segment_by_sinogram", OFF + ["K_pds_set_segment_by_view"]), ("K_pds_set_segment_by_view", OFF + ["K_pds_set_segment_by_sinogram"]),
            ("K_pds_get_segment_by_sinogram", OFF + ["K_pds_get_segment_by_view"]), ("K_pds_get_segment_by_view", OFF + ["K_pds_get_segment_by_sinogram"])]
    for k, rp in CAN:
        out.append(Job("c02/canary/" + k, HARNESS, "h_" + k, enforce=k, replace=rp, kernels=[k], kind="canary", loop_contracts=True,
                       defines={"CANARY_" + k: None, "C02_V": 2, "C02_T": 2, "C02_E": 2}, expect_fail=r"%s\.postcondition" % k, no_base_flags=True, timeout=600, object_bits=10,
                       backend="kissat"))
    out.append(Job("c02/K_pdfs_hdr_stream_format", HARNESS_F, "h_K_pdfs_hdr_stream_format", enforce="K_pdfs_hdr_stream_format", kernels=["K_pdfs_hdr_stream_format"],
                   flags=["--signed-overflow-check", "--bounds-check", "--pointer-check"], no_base_flags=True, min_obligations=10, timeout=600, backend="kissat", loop_contracts=True))
    out.append(Job("c02/canary/K_pdfs_hdr_stream_format", HARNESS_F, "h_K_pdfs_hdr_stream_format", enforce="K_pdfs_hdr_stream_format", kernels=["K_pdfs_hdr_stream_format"], kind="canary",
                   defines={"CANARY_K_hdr_stream_format": None}, expect_fail=r"K_pdfs_hdr_stream_format\.(postcondition|assertion)", no_base_flags=True, timeout=600, loop_contracts=True))
    return out


TRUSTED = [
    "segment_sequence and timing_poss_sequence are permutations of the segment / TOF ranges and offset_3d_data is the size of one TOF block "
    "(PD_VALID_CORE: the TOF part and offset_3d_data are proved for the ProjDataInMemory constructor and ProjDataFromStream::activate_TOF - kernels K_pdm_ctor_layout / "
    "K_pds_activate_TOF - up to 'the sum over the segments does not depend on their order'; segment_sequence given by the caller / set_timing_poss_sequence_in_stream: assumed)",
    "std::find modelled by K_find_int (verified against its own contract)",
]
ASSUMPTIONS = ["parametric: numbers of views and tangential positions and the element size are constants per job; at most 8 segments and 8 TOF bins; "
               "axial positions per segment |.| < 4096; stream offset < 2^40"]
UNDECIDED_CLAUSES = ["on-disk numeric type / byte order conversion (write_data/read_data are stubs: 'a block of n elements at the put position'), Interfile header "
                     "round trip beyond find_segment_sequence, RelatedViewgrams / bulk fill paths (they loop over set_viewgram)",
                     "ProjDataFromStream read paths (get_viewgram / get_sinogram / get_segment_*), ProjDataInMemory segment paths",
                     "order of the elements inside the single block written by set_segment(SegmentByView) in view order (symbolic number of axial positions as a radix)",
                     "that a flushed std::fstream is visible to a second reader (operating system / libstdc++ behaviour; exercised by c02_replay visible)"]
TRUSTED += [
    "stream projection for the ProjDataFromStream write kernels: checked_seekp sets the put position or throws, write_data writes its block at the put position, "
    "may fail and may change 'scale', sino_stream->flush() makes everything written so far visible (ghosts g_seek, g_dirty)",
    "try/catch(...) rewritten to a forward goto taken when a call inside the try block reported an error (counted extraction rules)",
    "SegmentByView(SegmentBySinogram) / SegmentBySinogram(SegmentByView): rows are copied [ax][view] <-> [view][ax] (kernels K_sbs_get_viewgram, K_sbv_get_sinogram and the two "
    "constructor loops); the assignment of a whole 2D array (SegmentByView::set_viewgram, SegmentBySinogram::set_sinogram: one statement) copies it (Array::operator=, C11)",
    "Viewgram / Sinogram objects passed to set_* carry index values inside the ranges of the projection data (established by their constructors)",
]


def param_summary(tier):
    return {"(num_views, num_tangential_poss)": VT[tier], "bytes_per_element": ES[tier], "segments": "symbolic, <= 8, any permutation",
            "TOF bins": "symbolic, <= 8, any permutation", "storage order": "symbolic (4 supported + unsupported)"}


# ---- number format of the projection-data header writer (same control-skeleton rule and typestate contract as C10's image header) ----
from props.c10 import _stream_skeleton
HARNESS_F = os.path.join(VERIF, "harness", "c02f.c")
KERNELS_F = [dict(name="K_pdfs_hdr_stream_format", file="src/IO/interfile.cxx",
                  cxx_name="write_basic_interfile_PDFS_header: number-format state of the header stream (control skeleton + stream operations)",
                  func=r"write_basic_interfile_PDFS_header\(const string& header_file_name, const string& data_file_name, const ProjDataFromStream& pdfs\)",
                  c_header="void K_pdfs_hdr_stream_format(void)", rules=[(r"\A.*\Z", _stream_skeleton("output_header"), 1)])]
KERNELS += KERNELS_F

# ---------------- native replay (real STIR libraries rebuilt from the working tree) ----------------
from vlib import native


def replay(job, o, workroot, repo):
    exe = os.path.join(workroot, "c02_replay")
    if not os.path.exists(exe):
        exe, info = native.build(repo, os.path.join(VERIF, "replay", "c02.cpp"), exe)
        if not exe:
            return {"status": "unavailable", "detail": "replay driver did not build: " + info}
    os.environ.setdefault("STIR_CONFIG_DIR", os.path.join(repo, "src/config"))
    modes = [["header", workroot]] if "fss" in job.name else [["visible", workroot], ["scale", workroot]] if "K_pds_set" in job.name else []
    if "K_pds_" in job.name:
        modes = [["tofstream"]] + modes if ("get_offset" in job.name or "activate_TOF" in job.name) else modes + [["tofstream"]]
    for mode in modes + [["asym"], ["range"], ["paths"]] + ([] if "fss" in job.name else [["header", workroot]]) + ([] if "K_pds_set" in job.name else [["visible", workroot], ["scale", workroot]]):
        st, detail = native.run(exe, mode, timeout=900)
        if st == "confirmed":
            return {"status": "confirmed", "detail": detail, "command": "c02_replay " + " ".join(mode), "from_verifier_counterexample": False}
    return {"status": "not-reproduced", "detail": "c02_replay range; c02_replay paths (in-memory, stream with permuted segment sequence, both storage orders); c02_replay header; c02_replay visible (file-backed, second reader after every write call); c02_replay scale (shorts with scale factor 0.5); c02_replay asym (asymmetric segment ranges); c02_replay tofstream (TOF blocks in four orders, both storage orders) for stream kernels"}
